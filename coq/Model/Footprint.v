(* C12 — model of "const calls on one grid from several threads".  No proofs here.

   1. the data types of the syntactic footprint (filled by the REGENERATED gen/ConstFootprint.v);
   2. the interleaving model: a shared state sigma (the grid object), one scratch per thread, an operation is a list
      of atomic steps; a schedule is ANY list of thread numbers (every interleaving, including unfair ones, threads that
      are already finished, and thread numbers that do not exist);
   3. the lazily (re)built cache of GridWavelet (inter_matrix, tsgGridWavelet.cpp): the three const weight queries
      test `inter_matrix.getNumRows() != num_points`, rebuild the matrix, then solve with it — at the granularity of
      the accesses to the cache; and the same query with the test-and-rebuild under a lock. *)
From TV Require Import Common.Prelude.
From Coq Require Import String.

(* ------------------------------------------------------------------------------------------------------------ *)
(* 1. syntactic footprint *)
Inductive touch :=
| TMutable (cls field : string) (is_write lock_held : bool)   (* reference to a `mutable` data member *)
| TConstCast                                                    (* a const_cast expression *)
| TNonConstCall (callee : string).                              (* non-const method called on an object reached from `this` *)

Record cmethod := mkMethod {
  m_class : string; m_name : string; m_file : string; m_line : nat;
  m_entry : bool;        (* public const method of TasmanianSparseGrid *)
  m_unlocked : bool;     (* reachable from an entry along a path on which no lock_guard is held *)
  m_touches : list touch }.

Definition str_pair_eqb (a b : string * string) : bool := String.eqb (fst a) (fst b) && String.eqb (snd a) (snd b).

(* exc: (class, member) pairs that are excused (known lazily built caches) *)
Definition touch_ok (exc : list (string * string)) (unlocked : bool) (t : touch) : bool :=
  match t with
  | TMutable c f w g => negb w || g || negb unlocked || existsb (str_pair_eqb (c, f)) exc
  | TConstCast => false
  | TNonConstCall _ => false
  end.
Definition read_only_except (exc : list (string * string)) (m : cmethod) : bool :=
  forallb (touch_ok exc (m_unlocked m)) (m_touches m).
Definition read_only_by_syntax : cmethod -> bool := read_only_except [].

(* ------------------------------------------------------------------------------------------------------------ *)
(* 2. interleavings of atomic steps *)
Section Interleave.
  Variables Sh Lo : Type.       (* shared state, thread-local scratch (arguments, locals, result buffers) *)

  Definition step := Sh -> Lo -> Sh * Lo.
  Record thread := mkThread { todo : list step; scratch : Lo }.

  (* a step is read-only when it returns the shared state it was given *)
  Definition read_only_step (st : step) : Prop := forall s l, fst (st s l) = s.
  Definition read_only_thread (th : thread) : Prop := Forall read_only_step (todo th).

  Fixpoint set_nth (i : nat) (x : thread) (l : list thread) : list thread :=
    match l, i with
    | [], _ => []
    | _ :: r, O => x :: r
    | y :: r, S i' => y :: set_nth i' x r
    end.

  (* thread i executes its next atomic step (nothing happens when i is not a thread or has finished) *)
  Definition exec_one (c : Sh * list thread) (i : nat) : Sh * list thread :=
    match nth_error (snd c) i with
    | Some th =>
        match todo th with
        | st :: rest => let r := st (fst c) (scratch th) in (fst r, set_nth i (mkThread rest (snd r)) (snd c))
        | [] => c
        end
    | None => c
    end.
  Definition run (sched : list nat) (c : Sh * list thread) : Sh * list thread := fold_left exec_one sched c.

  (* the call executed alone on the fixed shared state s *)
  Definition alone (s : Sh) (th : thread) : Lo := fold_left (fun l st => snd (st s l)) (todo th) (scratch th).

  Definition finished (th : thread) : Prop := todo th = [].
End Interleave.
Arguments mkThread {Sh Lo}. Arguments todo {Sh Lo}. Arguments scratch {Sh Lo}.
Arguments exec_one {Sh Lo}. Arguments run {Sh Lo}. Arguments alone {Sh Lo}. Arguments set_nth {Sh Lo}.
Arguments read_only_step {Sh Lo}. Arguments read_only_thread {Sh Lo}. Arguments finished {Sh Lo}.

(* ------------------------------------------------------------------------------------------------------------ *)
(* 3. the lazily rebuilt cache *)
Section LazyCache.
  Variables D M X R : Type.          (* grid data, factorised matrix, query argument, query result *)
  Variable build : D -> M.           (* buildInterpolationMatrix *)
  Variable solve : M -> X -> R.      (* evalBasis + invertTransposed *)
  Variable dflt : R.

  Record shared := mkShared { data : D; cache : option M }.

  Inductive pc := Check | Build | Solve | Done.
  Record local := mkLocal { at_pc : pc; arg : X; res : option R }.

  (* accesses to the one location `inter_matrix`; `locked` = performed while holding the lock *)
  Inductive access := Rd (locked : bool) | Wr (locked : bool).

  (* --- the code as it is: test, rebuild, solve; three separate accesses, no lock --- *)
  Definition lazy_step (s : shared) (l : local) : shared * local :=
    match at_pc l with
    | Check => (s, mkLocal (match cache s with Some _ => Solve | None => Build end) (arg l) (res l))
    | Build => (mkShared (data s) (Some (build (data s))), mkLocal Solve (arg l) (res l))
    | Solve => (s, mkLocal Done (arg l) (match cache s with Some m => Some (solve m (arg l)) | None => Some dflt end))
    | Done => (s, l)
    end.
  Definition lazy_access (s : shared) (l : local) : option access :=
    match at_pc l with Check => Some (Rd false) | Build => Some (Wr false) | Solve => Some (Rd false) | Done => None end.

  (* --- the repaired code: test-and-rebuild is one critical section (std::lock_guard), the solve reads unlocked --- *)
  Definition locked_step (s : shared) (l : local) : shared * local :=
    match at_pc l with
    | Check => (match cache s with Some _ => s | None => mkShared (data s) (Some (build (data s))) end,
                mkLocal Solve (arg l) (res l))
    | Build => (s, mkLocal Solve (arg l) (res l))     (* unused *)
    | Solve => (s, mkLocal Done (arg l) (match cache s with Some m => Some (solve m (arg l)) | None => Some dflt end))
    | Done => (s, l)
    end.
  Definition locked_access (s : shared) (l : local) : option access :=
    match at_pc l with
    | Check => Some (match cache s with Some _ => Rd true | None => Wr true end)
    | Build => None
    | Solve => Some (Rd false)
    | Done => None
    end.

  (* a configuration: shared state and the locals of the threads; thread i performs one step *)
  Definition cfg := (shared * list local)%type.
  Fixpoint set_local (i : nat) (x : local) (l : list local) : list local :=
    match l, i with
    | [], _ => []
    | _ :: r, O => x :: r
    | y :: r, S i' => y :: set_local i' x r
    end.
  Definition cexec (stepf : shared -> local -> shared * local) (c : cfg) (i : nat) : cfg :=
    match nth_error (snd c) i with
    | Some l => let r := stepf (fst c) l in (fst r, set_local i (snd r) (snd c))
    | None => c
    end.
  Definition crun stepf (sched : list nat) (c : cfg) : cfg := fold_left (cexec stepf) sched c.

  (* two accesses conflict when one of them writes and they are not both made under the lock *)
  Definition conflict (a b : access) : bool :=
    match a, b with
    | Rd _, Rd _ => false
    | Wr la, Rd lb | Rd la, Wr lb | Wr la, Wr lb => negb (la && lb)
    end.
  (* a data race: two different threads whose NEXT accesses (both enabled now) conflict *)
  Definition race (accf : shared -> local -> option access) (c : cfg) : Prop :=
    exists i j li lj a b, i <> j /\ nth_error (snd c) i = Some li /\ nth_error (snd c) j = Some lj /\
      accf (fst c) li = Some a /\ accf (fst c) lj = Some b /\ conflict a b = true.

  (* the grid right after loadNeededValues: the matrix has been dropped; every thread is about to make one query *)
  Definition fresh (d : D) (args : list X) : cfg := (mkShared d None, map (fun x => mkLocal Check x None) args).
End LazyCache.
Arguments mkShared {D M}. Arguments data {D M}. Arguments cache {D M}.
Arguments mkLocal {X R}. Arguments at_pc {X R}. Arguments arg {X R}. Arguments res {X R}.
