(* Extraction of the GradientDescent model.  ExtrOcamlBasic only: bool, option, list, prod, unit,
   sumbool are mapped to OCaml's; nat, Z, positive stay Coq datatypes.  The number type R and its
   operations are parameters of the extracted functions (instantiated with OCaml floats by the runner). *)
Require Extraction.
Require Import ExtrOcamlBasic.
From TV Require Import Model.GradDesc.
Extraction Language OCaml.
Set Extraction Optimize.
Extraction "../ocaml/gen/gd.ml" run run_const.
