(* Extraction of the all-strategies selection model (C07).  ExtrOcamlBasic only; nat, Z, positive stay Coq datatypes. *)
Require Extraction.
Require Import ExtrOcamlBasic.
From TV Require Import Model.IndexSets Model.RuleLocal Model.Selection Model.SelectionAll.
Extraction Language OCaml.
Set Extraction Optimize.
Extraction "../ocaml/gen/selall.ml" candidates classic_candidates lower_closed lower_sweep getLevel.
