(* Extraction of the grid-core models (index sets, grid state machine, local-polynomial rule).
   ExtrOcamlBasic only; nat, Z, positive, Q stay Coq datatypes. *)
Require Extraction.
Require Import ExtrOcamlBasic.
From TV Require Import Model.IndexSets Model.GridState Model.RuleLocal Model.Selection Model.Hier Model.LocalGrid Model.LowerSets.
Extraction Language OCaml.
Set Extraction Optimize.
Extraction "../ocaml/gen/core.ml"
  cmp merge diff addValues lookup getSlot sort_unique removeIndex mem
  GridState.step GridState.run
  getNumPoints getMaxNumKids getMaxNumParents getParent getStepParent getKid getLevel
  getNode getSupport scaleDiffX scaleX evalRaw evalSupport diffSupport
  classic_candidates
  surpluses evalAt hier_cert parent_complete by_level reach Bc
  select_level limits_box_full within_limits growth_loop.
