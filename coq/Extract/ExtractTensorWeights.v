(* Extraction of the tensor-weights models (computeTensorWeights; ties of C02 / C03).  ExtrOcamlBasic only; nat, Z, positive stay Coq
   datatypes. *)
Require Extraction.
Require Import ExtrOcamlBasic.
From TV Require Import Model.IndexSets Model.TensorWeights.
Extraction Language OCaml.
Set Extraction Optimize.
Extraction "../ocaml/gen/tensorweights.ml" tw_cpp tw_lines incl_excl.
