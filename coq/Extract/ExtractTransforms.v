(* Extraction of the domain-transform model (C10).  ExtrOcamlBasic only; Z, positive, Q stay Coq datatypes.
   sqrt and pow are parameters of the extracted functions (the runner passes libm's sqrt/pow lifted to exact rationals). *)
Require Extraction.
Require Import ExtrOcamlBasic.
From Coq Require Import QArith.
From TV Require Import Model.Transforms.
Extraction Language OCaml.
Set Extraction Optimize.
Extraction "../ocaml/gen/transforms.ml"
  fwd inv jac support_scale support_scale_code inside1 fwd_pt inv_pt jac_all support_all support_code_all
  inside_t inside_c qterm qscale family_of Qred Qminus Qmult Qle_bool Qabs.Qabs.
