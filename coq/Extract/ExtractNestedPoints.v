(* Extraction of the point-set model of Global / Fourier grids (C08 points) with the generated point counts.
   ExtrOcamlBasic only; nat, Z, positive stay Coq datatypes. *)
Require Extraction.
Require Import ExtrOcamlBasic.
From TV Require Import Model.IndexSets gen.ExactnessGen Model.TensorSelect Model.NestedPoints.
Extraction Language OCaml.
Set Extraction Optimize.
Extraction "../ocaml/gen/nestedpoints.ml"
  g_numPoints delta_raw delta_block nested_points full_points active_tensors active_weights max_indexes levels level_of
  needed_points accepted_points merge diff cmp.
