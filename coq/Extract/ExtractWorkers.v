(* Extraction of the Workers model (C18).
   ExtrOcamlBasic: bool, option, list, prod, unit, sumbool are mapped to OCaml's.
   ExtrOcamlNatInt: nat is mapped to OCaml's int (63 bit) with the standard library's realisation of
   O, S, add, sub (truncated), mul, eqb, leb, ltb, max, min.  The trace replayer handles point / value names and
   counters below 2^40, so no overflow can occur; this mapping is named in the trusted base of C18 and affects the
   runner binary only, not the theorems. *)
Require Extraction.
Require Import ExtrOcamlBasic ExtrOcamlNatInt.
From TV Require Import Model.Workers.
Extraction Language OCaml.
Set Extraction Optimize.
Extraction "../ocaml/gen/workers.ml" init step run final spurious qinit qstep qrun qfinished cand_okb nj rule20.
