(* Extraction of the links of computeDAGup (Model/LocalGridUp.v parents_up / up_dir, Model/LocalGrid.v parents), of the completeness flag
   (Model/DagUp.v is_complete_up, Model/LocalGrid.v parent_complete) and of computeLevels.  ExtrOcamlBasic only; nat, Z, positive stay
   Coq datatypes. *)
Require Extraction.
Require Import ExtrOcamlBasic.
From TV Require Import Model.IndexSets Model.RuleLocal Model.LocalGrid Model.LocalGridUp Model.DagUp.
Extraction Language OCaml.
Set Extraction Optimize.
Extraction "../ocaml/gen/dagup.ml"
  up_dir parents_up parents parents1d parent_complete is_complete_up dir_fail levels_up multi_parent above0 getParent getStepParent getLevel.
