(* Extraction of the checkpoint model (C17).  ExtrOcamlBasic only: bool, option, list, prod, unit, sumbool are mapped
   to OCaml's; nat, N, positive stay Coq datatypes.  The byte type of the file-system part is a parameter of the
   extracted functions (instantiated with OCaml chars by the runner); the CompleteStorage reader works on N. *)
Require Extraction.
Require Import ExtrOcamlBasic.
From TV Require Import Model.Checkpoint.
Extraction Language OCaml.
Set Extraction Optimize.
Extraction "../ocaml/gen/checkpoint.ml" exec checkpoint_steps initial_steps follow classify
  storage_read enc_storage ckpt_read recover_as_coded recover_repaired fs_empty upd.
