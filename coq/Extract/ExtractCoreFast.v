(* Second extraction of the local-grid model, used ONLY by the runner that recomputes exact surpluses of larger grids:
   Z / positive / N are mapped to zarith big integers by the standard library's ExtrOcamlZBigInt
   (Extract Inductive positive/Z/N => Big_int_Z.big_int with the constructors/matchers given there, and
    Extract Constant for Pos.{add,succ,pred,sub,mul,min,max,compare,compare_cont}, N.{add,succ,pred,sub,mul,min,max,
    div_eucl,div,modulo,compare,shiftl,shiftr}, Z.{add,succ,pred,sub,mul,opp,abs,min,max,compare,eqb,eq_dec,to_N,of_N,abs_N}).
   The runner's `lg` mode uses the _up functions (Model/LocalGridUp.v: the links of computeDAGup).
   The theorems are unaffected; the plain extraction (ExtractCore.v) is what the other runner modes use. *)
Require Extraction.
Require Import ExtrOcamlBasic ExtrOcamlZBigInt.
From TV Require Import Model.IndexSets Model.RuleLocal Model.Selection Model.Hier Model.LocalGrid Model.SequenceGrid Model.StdGrid Model.LocalGridUp.
Extraction Language OCaml.
Set Extraction Optimize.
Extraction "../ocaml/gen/corefast.ml"
  getNode surpluses evalAt hier_cert surpluses_up evalAt_up hier_cert_up parents_up reach_up parent_complete by_level reach Bc classic_candidates
  seq_surpluses seq_interp std_grid.
