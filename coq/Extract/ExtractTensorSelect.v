(* Extraction of the tensor-selection model for the integer depth types, the polynomial space and the generated exactness tables
   (C08 tables).  ExtrOcamlBasic only; nat, Z, positive stay Coq datatypes. *)
Require Extraction.
Require Import ExtrOcamlBasic.
From TV Require Import Model.IndexSets gen.ExactnessGen Model.TensorSelect.
Extraction Language OCaml.
Set Extraction Optimize.
Extraction "../ocaml/gen/tensorselect.ml"
  all_rules g_numPoints g_iExact g_qExact
  select select_total select_tensor_box sel_fuel rule_exactness grid_tensors weights_cache
  poly_space global_poly_space sequence_poly_space cmp.
