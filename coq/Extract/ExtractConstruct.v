(* Extraction of the dynamic-construction model (C09) and the output-range split (C11).
   ExtrOcamlBasic only; nat, Z, positive stay Coq datatypes. *)
Require Extraction.
Require Import ExtrOcamlBasic.
From TV Require Import Model.IndexSets Model.RuleLocal Model.Selection Model.LocalGrid Model.Construct.
Extraction Language OCaml.
Set Extraction Optimize.
Extraction "../ocaml/gen/construct.ml"
  sort_unique memb idx_eqb
  Construct.run api_deliver deliver deliver_one largest_completion finish initial_after
  lower_adm conn_adm1 conn_admB local_rel local_root wave_rel wave_root
  exclusive_children seq_candidates local_candidates
  g_run g_step g_api_deliver g_candidates_step g_candidate_points eject tensor_of tensor_points
  split2D restrict_data restrict_block
  parent_complete.
