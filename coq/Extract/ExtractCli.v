(* Extraction of the tasgrid model (C16).  ExtrOcamlBasic only: bool, option, list, prod, unit, sumbool are mapped
   to OCaml's; string/ascii, Z, positive, nat stay Coq datatypes (converted by the glue in ocaml/cli_main.ml). *)
Require Extraction.
Require Import ExtrOcamlBasic.
From TV Require Import gen.CliTable Model.Cli.
Extraction Language OCaml.
Set Extraction Optimize.
Extraction "../ocaml/gen/cli.ml" parse sane sane_post plan reads_grid readMatrix writeMatrix
  const_list_deviations ambiguous_switches help_deviations float32_options positive_outputs_required
  all_commands switch_table option_table const_commands help_table.
