(* Extraction of the binary-format model.  ExtrOcamlBasic only: bool, option, list, prod, unit are mapped to
   OCaml's; Z, positive, nat stay Coq datatypes. *)
Require Extraction.
Require Import ExtrOcamlBasic.
From TV Require Import Model.IOFormat.
Extraction Language OCaml.
Set Extraction Optimize.
Extraction "../ocaml/gen/ioformat.ml" encode decode.
