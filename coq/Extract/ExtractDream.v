(* Extraction of the SampleDREAM model (C15).  ExtrOcamlBasic only: bool, option, list, prod, unit,
   sumbool are mapped to OCaml's; nat, Z, positive stay Coq datatypes.  The number type R, the
   environment type W, the operations and the callbacks are parameters of the extracted functions
   (instantiated with OCaml floats / a stream position by the runner). *)
Require Extraction.
Require Import ExtrOcamlBasic.
From TV Require Import Model.Dream.
Extraction Language OCaml.
Set Extraction Optimize.
Extraction "../ocaml/gen/dream.ml" run init_pdf apply_op run_ops uniform_update gaussian_update.
