(* Extraction of the derivative tree-walk model (C05, tree walk).  ExtrOcamlBasic only; nat, Z, positive, Q stay Coq datatypes. *)
Require Extraction.
Require Import ExtrOcamlBasic.
From TV Require Import Model.IndexSets Model.RuleLocal Model.Selection Model.LocalGrid Model.TreeWalk Model.Diff Model.TreeWalkDiff.
Extraction Language OCaml.
Set Extraction Optimize.
Extraction "../ocaml/gen/treewalkdiff.ml"
  getNode getSupport scaleX evalSupport diffSupport nodupb
  build_forest forest_arrays nodes supp_all supp_any diff_basis_supported walk_diff diff_walk grad_dense.
