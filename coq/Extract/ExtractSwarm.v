(* Extraction of the ParticleSwarm model.  ExtrOcamlBasic only: bool, option, list, prod, unit, sumbool are
   mapped to OCaml's; nat, Z, positive stay Coq datatypes.  The number type R, its operations, the objective and
   the domain are parameters of the extracted functions (instantiated with OCaml floats and with the finite
   tables logged by the C++ driver by the runner ocaml/swarm_main.ml). *)
Require Extraction.
Require Import ExtrOcamlBasic.
From TV Require Import Model.Swarm.
Extraction Language OCaml.
Set Extraction Optimize.
Extraction "../ocaml/gen/swarm.ml" fresh apply_op exec fpoints.
