(* Extraction of the evaluation-tree model (C04, tree walk).  ExtrOcamlBasic only; nat, Z, positive, Q stay Coq datatypes. *)
Require Extraction.
Require Import ExtrOcamlBasic.
From TV Require Import Model.IndexSets Model.RuleLocal Model.Selection Model.LocalGrid Model.TreeWalk.
Extraction Language OCaml.
Set Extraction Optimize.
Extraction "../ocaml/gen/treewalk.ml"
  getNode getSupport scaleX evalSupport basisQ nodupb
  dag_down levels build_forest forest_arrays nodes basis_supported supp_all walk sparse_entry.
