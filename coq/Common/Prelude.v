(* Common prelude: arithmetic automation hooks and small list utilities.  No axioms. *)
From Coq Require Export List Arith ZArith Lia Bool.
From Coq Require Export ZifyBool ZifyNat ZifyN.
Export ListNotations.

Ltac Zify.zify_post_hook ::= Z.to_euclidean_division_equations.

(* zip-with on lists (the C++ loops `for j<n: c[j] = a[j] op b[j]`); stops at the shorter list *)
Fixpoint map2 {A B C : Type} (f : A -> B -> C) (l1 : list A) (l2 : list B) : list C :=
  match l1, l2 with
  | a :: r1, b :: r2 => f a b :: map2 f r1 r2
  | _, _ => []
  end.

Lemma map2_length {A B C} (f : A -> B -> C) l1 l2 :
  length (map2 f l1 l2) = Nat.min (length l1) (length l2).
Proof.
  revert l2; induction l1 as [|a r IH]; intros [|b r2]; cbn; try reflexivity.
  rewrite IH; reflexivity.
Qed.

(* last element with a default *)
Definition last_or {A} (l : list A) (d : A) : A := last l d.

Lemma last_or_app {A} (l : list A) (x d : A) : last_or (l ++ [x]) d = x.
Proof. unfold last_or. apply last_last. Qed.

Lemma last_nonempty_default {A} (l : list A) (d1 d2 : A) : l <> [] -> last l d1 = last l d2.
Proof.
  induction l as [|a l IH]; intros H; [congruence|].
  destruct l as [|b l']; [reflexivity|].
  change (last (a :: b :: l') d1) with (last (b :: l') d1).
  change (last (a :: b :: l') d2) with (last (b :: l') d2).
  apply IH. discriminate.
Qed.

Lemma last_cons_default {A} (l : list A) (b d : A) : last (b :: l) d = last l b.
Proof.
  destruct l as [|c l']; [reflexivity|].
  change (last (b :: c :: l') d) with (last (c :: l') d).
  apply last_nonempty_default. discriminate.
Qed.

(* prefix relation *)
Definition prefix {A} (l1 l2 : list A) : Prop := exists r, l2 = l1 ++ r.

Lemma prefix_refl {A} (l : list A) : prefix l l.
Proof. exists []; rewrite app_nil_r; reflexivity. Qed.

Lemma prefix_trans {A} (a b c : list A) : prefix a b -> prefix b c -> prefix a c.
Proof. intros [r1 ->] [r2 ->]. exists (r1 ++ r2). rewrite app_assoc. reflexivity. Qed.

Lemma prefix_app_r {A} (a b : list A) : prefix a (a ++ b).
Proof. exists b; reflexivity. Qed.
