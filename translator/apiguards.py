#!/usr/bin/env python3
"""translator/apiguards.py — regenerate coq/gen/ApiGuards.v and coq/gen/DocThrows.v from the CURRENT source (C14).

Route: clang JSON AST (not a regex parser).
    clang++ -std=c++11 -fsyntax-only -Xclang -ast-dump=json -Xclang -ast-dump-filter=TasmanianSparseGrid
            <include flags of vlib.build_lib('plain')>  <repo>/SparseGrids/TasmanianSparseGrid.cpp
(measured: 2 s, 30 MB of JSON).  From the class definition it takes the data members and every method declaration
(with access, constness, signature); for every method body (in-class or out-of-line) it produces a small statement
tree over *effects* (see coq/Model/ApiGuards.v for the Gallina types):

    Do (EThrow exc)                 throw std::X(...)
    Do (EMut field)                 assignment to / non-const member call on / non-const operator on a data member of *this
    Do EClear                       this->clear()
    Do (ESelf key const)            call of another method of the class (key = name#index in declaration order)
    Do (EBase field callee const)   base->f(), get<GridX>()->f(), acceleration->f()   (const = called through a pointer to const)
    Do (ECtor what)                 Utils::make_unique<GridX>(...) / readGridVersion5<GridX>(...): family construction, may throw
    Do (EExt name)                  any other call that is not a method of a std:: object (free / static functions, methods of
                                    non-std locals)
    If cond then else | Loop body | Scope body (an immediately invoked lambda: `return` leaves the scope only) | Ret | Skip | Seq

Effects inside an expression are listed in source order; both arms of ?:, && and || are listed (an over-approximation
that only makes the checkers more conservative).  The effects of an `if` condition precede the If node.
A switch whose cases all end in return/break/throw becomes an If chain.  Everything else (try/catch, goto, a switch with
fall-through, a rethrow, a throw inside ?:, a lambda that is stored and has effects) raises TranslatorError:
the translator never guesses.

DocThrows: every `\\throws <type> <text>` paragraph of the doxygen block in front of a member declaration in
TasmanianSparseGrid.hpp (kind "tagged": the coverage denominator of C14) and every other sentence of such a block that
mentions an exception (kind "prose": e.g. "In addition, std::runtime_error is thrown if the current grid is not Global",
"Throws the same exceptions, but ...") — listed, never counted in the denominator.

usage: apiguards.py <repo> <coq/gen dir> [cflag ...]     (files are written only when their content changes; exit 2 on shape errors)
"""
import json
import os
import re
import subprocess
import sys

CLASS = "TasmanianSparseGrid"
CPP = "SparseGrids/TasmanianSparseGrid.cpp"
HPP = "SparseGrids/TasmanianSparseGrid.hpp"


class TranslatorError(Exception):
    pass


# ------------------------------------------------------------------------------------------------ clang
def default_cflags(repo):
    """include flags when run stand-alone (the check passes vlib.build_lib('plain')['cflags'])"""
    here = os.path.dirname(os.path.dirname(os.path.abspath(__file__)))
    sys.path.insert(0, os.path.join(here, "tools"))
    import vlib
    return vlib.build_lib("plain")["cflags"]


def run_clang(repo, cflags):
    flags = [f for f in cflags if f.startswith(("-I", "-D", "-std"))]
    cmd = ["clang++"] + flags + ["-fsyntax-only", "-Xclang", "-ast-dump=json", "-Xclang", "-ast-dump-filter=" + CLASS,
                                 os.path.join(repo, CPP)]
    try:
        p = subprocess.run(cmd, capture_output=True, text=True, timeout=300)
    except (OSError, subprocess.TimeoutExpired) as e:
        raise TranslatorError("clang++ could not be run: %s" % e)
    if p.returncode != 0:
        raise TranslatorError("clang++ rejects %s:\n%s" % (CPP, p.stderr[-2000:]))
    dec = json.JSONDecoder()
    txt, i, n, objs = p.stdout, 0, len(p.stdout), []
    while i < n:
        while i < n and txt[i].isspace():
            i += 1
        if i >= n:
            break
        o, i = dec.raw_decode(txt, i)
        objs.append(o)
    if not objs:
        raise TranslatorError("clang produced no declarations for the filter " + CLASS)
    return objs


# ------------------------------------------------------------------------------------------------ AST helpers
def off(loc):
    if "offset" in loc:
        return loc["offset"], loc.get("tokLen", 0)
    if "expansionLoc" in loc:
        e = loc["expansionLoc"]
        return e["offset"], e.get("tokLen", 0)
    raise TranslatorError("source location without offset: %r" % (loc,))


class Src:
    def __init__(self, path):
        with open(path, "rb") as fh:
            self.b = fh.read()

    def line_of(self, offset):
        return self.b[:offset].count(b"\n") + 1

    def text(self, node):
        r = node.get("range")
        if not r:
            return ""
        b, _ = off(r["begin"])
        e, tl = off(r["end"])
        return norm(self.b[b:e + tl].decode(errors="replace"))


def norm(s):
    return re.sub(r"\s+", " ", s).strip()


def qt(node):
    return node.get("type", {}).get("qualType", "")


def kids(node):
    return [c for c in node.get("inner", []) if c and c.get("kind")]


TRANSPARENT = ("ParenExpr", "ImplicitCastExpr", "ExprWithCleanups", "MaterializeTemporaryExpr", "CXXBindTemporaryExpr",
               "ConstantExpr", "CXXFunctionalCastExpr", "CStyleCastExpr", "CXXStaticCastExpr", "CXXConstCastExpr",
               "CXXReinterpretCastExpr")


def strip(node):
    while node.get("kind") in TRANSPARENT and kids(node):
        node = kids(node)[0]
    return node


def is_this(node):
    return strip(node).get("kind") == "CXXThisExpr"


def this_field(node):
    """field name when the expression designates (a part of) a data member of *this, else None"""
    node = strip(node)
    k = node.get("kind")
    if k == "MemberExpr":
        base = kids(node)
        if base and is_this(base[0]):
            return node.get("name")
        if base and not node.get("isArrow"):
            return this_field(base[0])
        return None
    if k == "ArraySubscriptExpr":
        return this_field(kids(node)[0])
    if k == "CXXOperatorCallExpr":
        ks = kids(node)
        op = strip(ks[0]).get("referencedDecl", {}).get("name", "")
        if op == "operator[]" and len(ks) > 1:
            return this_field(ks[1])
    return None


def const_object(node):
    """is the object expression of a member call const (value or pointee)?"""
    t = qt(node)
    return t.startswith("const ")


# ------------------------------------------------------------------------------------------------ effects
class Ctx:
    def __init__(self, src, decl_key, fields, method_name):
        self.src, self.decl_key, self.fields, self.method = src, decl_key, fields, method_name
        self.this_const = False


def exc_of(throw, ctx):
    ks = kids(throw)
    if not ks:
        return "rethrow"
    t = qt(ks[0]).replace("class ", "").strip()
    return t


def expr_effects(node, ctx, out):
    """append the effects of evaluating `node` to out (a list of stmt tuples)"""
    k = node.get("kind")
    if k is None:
        return
    if k == "CXXThrowExpr":
        for c in kids(node):
            expr_effects(c, ctx, out)
        t = exc_of(node, ctx)
        if t == "rethrow":
            raise TranslatorError("%s: rethrow `throw;` is outside the subset" % ctx.method)
        out.append(("throw", t))
        return
    if k == "LambdaExpr":
        # a lambda that is only created (returned / stored): its body does not run here.  It must not hide effects.
        body = [c for c in kids(node) if c.get("kind") == "CompoundStmt"]
        inner = []
        for b in body:
            inner += flat_effects(stmt_of(b, ctx))
        bad = [e for e in inner if e[0] in ("throw", "mut", "clear")]
        if bad:
            raise TranslatorError("%s: stored lambda with effects %r is outside the subset" % (ctx.method, bad[:3]))
        return
    if k == "ConditionalOperator":
        ks = kids(node)
        expr_effects(ks[0], ctx, out)
        arms = []
        for c in ks[1:3]:
            sub = []
            expr_effects(c, ctx, sub)
            arms.append(seq(sub))
        if arms[0] != ("skip",) or arms[1] != ("skip",):
            out.append(("if", ctx.src.text(ks[0]), arms[0], arms[1]))
        return
    if k == "CXXMemberCallExpr":
        ks = kids(node)
        callee = strip(ks[0])
        if callee.get("kind") != "MemberExpr":
            raise TranslatorError("%s: member call through %s is outside the subset" % (ctx.method, callee.get("kind")))
        obj = kids(callee)[0]
        name = callee.get("name")
        for a in ks[1:]:
            expr_effects(a, ctx, out)
        sobj = strip(obj)
        if sobj.get("kind") == "CXXThisExpr":
            if name == "clear":
                out.append(("clear",))
            elif name == "get":
                pass
            else:
                key = ctx.decl_key.get(callee.get("referencedMemberDecl"))
                if key is None:
                    cands = sorted(set(v for v in ctx.decl_key.values() if v.split("#")[0] == name))
                    if len(cands) != 1:
                        raise TranslatorError("%s: cannot resolve the self call %s (%d candidates)" % (ctx.method, name, len(cands)))
                    key = cands[0]
                out.append(("self", key, const_object(obj) or qt(sobj).startswith("const ")))
            return
        f = this_field(obj)
        if f is not None:
            if not const_object(obj):
                out.append(("mut", f))
            return
        # base->f()  : object is operator-> applied to a data member;  get<G>()->f() : object is a call of get on this
        if sobj.get("kind") == "CXXOperatorCallExpr":
            oks = kids(sobj)
            op = strip(oks[0]).get("referencedDecl", {}).get("name", "")
            if op in ("operator->", "operator*") and len(oks) > 1 and this_field(oks[1]) is not None:
                out.append(("base", this_field(oks[1]), name, const_object(obj)))
                return
        if sobj.get("kind") == "CXXMemberCallExpr":
            c2 = strip(kids(sobj)[0])
            if c2.get("kind") == "MemberExpr" and c2.get("name") == "get" and is_this(kids(c2)[0]):
                out.append(("base", "base", name, const_object(obj)))
                return
        expr_effects(obj, ctx, out)
        t = qt(sobj)
        if sobj.get("kind") == "CXXOperatorCallExpr" and len(kids(sobj)) > 1:
            um = re.search(r"unique_ptr<\s*([^,>]+)", qt(strip(kids(sobj)[1])))
            if um:
                t = um.group(1).strip() + " *"
        if re.match(r"(const )?(class )?(std::|__gnu_cxx::)", t):
            return                       # method of a std:: object that is not a member of *this (stream, string, vector ...)
        out.append(("ext", norm(t.replace("const ", "").replace("TasGrid::", "")) + "::" + name, const_object(obj)))
        return
    if k == "CXXOperatorCallExpr":
        ks = kids(node)
        op = strip(ks[0]).get("referencedDecl", {}).get("name", "")
        if op == "operator()" and len(ks) > 1 and strip(ks[1]).get("kind") == "LambdaExpr":
            for a in ks[2:]:
                expr_effects(a, ctx, out)
            body = [c for c in kids(strip(ks[1])) if c.get("kind") == "CompoundStmt"]
            if len(body) != 1:
                raise TranslatorError("%s: invoked lambda without a body" % ctx.method)
            out.append(("scope", stmt_of(body[0], ctx)))
            return
        for a in ks[1:]:
            expr_effects(a, ctx, out)
        if len(ks) > 1:
            f = this_field(ks[1])
            if f is not None and op not in ("operator->", "operator*", "operator bool", "operator==", "operator!=",
                                            "operator<<", "operator>>") and not const_object(ks[1]):
                out.append(("mut", f))
        return
    if k in ("BinaryOperator", "CompoundAssignOperator"):
        ks = kids(node)
        for a in ks:
            expr_effects(a, ctx, out)
        if node.get("opcode", "").endswith("=") and node.get("opcode") not in ("==", "!=", "<=", ">="):
            f = this_field(ks[0])
            if f is not None:
                out.append(("mut", f))
        return
    if k == "UnaryOperator":
        ks = kids(node)
        for a in ks:
            expr_effects(a, ctx, out)
        if node.get("opcode") in ("++", "--"):
            f = this_field(ks[0])
            if f is not None:
                out.append(("mut", f))
        return
    if k == "CallExpr":
        ks = kids(node)
        callee = strip(ks[0])
        for a in ks[1:]:
            expr_effects(a, ctx, out)
        if callee.get("kind") == "LambdaExpr":
            body = [c for c in kids(callee) if c.get("kind") == "CompoundStmt"]
            if len(body) != 1:
                raise TranslatorError("%s: invoked lambda without a body" % ctx.method)
            out.append(("scope", stmt_of(body[0], ctx)))
            return
        text = ctx.src.text(ks[0])
        m = re.search(r"(make_unique|readGridVersion5)\s*<\s*([A-Za-z_:]+)", text)
        if m and m.group(2).startswith("Grid"):
            out.append(("ctor", m.group(1) + "<" + m.group(2) + ">"))
        else:
            text = text or strip(ks[0]).get("referencedDecl", {}).get("name", "?")
            cands = sorted(set(v for v in ctx.decl_key.values() if v.split("#")[0] == text))
            if cands and strip(ks[0]).get("kind") in ("UnresolvedMemberExpr", "UnresolvedLookupExpr", "CXXDependentScopeMemberExpr"):
                for c in cands:            # dependent call inside a template: every overload of that name
                    out.append(("self", c, ctx.this_const))
            else:
                out.append(("ext", text, False))
        return
    for c in kids(node):
        expr_effects(c, ctx, out)


def flat_effects(st):
    """all effects of a stmt tree, flattened (used only to vet stored lambdas)"""
    k = st[0]
    if k == "seq":
        r = []
        for s in st[1]:
            r += flat_effects(s)
        return r
    if k == "if":
        return flat_effects(st[2]) + flat_effects(st[3])
    if k in ("loop", "scope"):
        return flat_effects(st[1])
    if k == "try":
        return flat_effects(st[1]) + flat_effects(st[2])
    if k in ("skip", "ret"):
        return []
    return [st]


def seq(lst):
    lst = [s for s in lst if s != ("skip",)]
    flat = []
    for s in lst:
        if s[0] == "seq":
            flat += s[1]
        else:
            flat.append(s)
    if not flat:
        return ("skip",)
    if len(flat) == 1:
        return flat[0]
    return ("seq", flat)


def ends_path(st):
    """does every path through st end in return / throw?"""
    k = st[0]
    if k in ("ret", "throw"):
        return True
    if k == "seq":
        return any(ends_path(s) for s in st[1])
    if k == "if":
        return ends_path(st[2]) and ends_path(st[3])
    return False


def stmt_of(node, ctx):
    k = node.get("kind")
    if k == "CompoundStmt":
        return seq([stmt_of(c, ctx) for c in kids(node)])
    if k == "NullStmt":
        return ("skip",)
    if k == "IfStmt":
        ks = [c for c in node.get("inner", [])]
        pre = []
        if node.get("hasInit") or node.get("hasVar"):
            raise TranslatorError("%s: if with init/declaration is outside the subset" % ctx.method)
        ks = [c for c in ks if c and c.get("kind")]
        cond, then = ks[0], ks[1]
        els = ks[2] if len(ks) > 2 else None
        expr_effects(cond, ctx, pre)
        node_if = ("if", ctx.src.text(cond), stmt_of(then, ctx), stmt_of(els, ctx) if els is not None else ("skip",))
        return seq(pre + [node_if])
    if k == "ReturnStmt":
        pre = []
        for c in kids(node):
            expr_effects(c, ctx, pre)
        return seq(pre + [("ret",)])
    if k == "DeclStmt":
        pre = []
        for d in kids(node):
            if d.get("kind") == "VarDecl":
                for c in kids(d):
                    expr_effects(c, ctx, pre)
            elif d.get("kind") not in ("TypedefDecl", "TypeAliasDecl", "UsingDecl", "StaticAssertDecl"):
                raise TranslatorError("%s: local declaration %s is outside the subset" % (ctx.method, d.get("kind")))
        return seq(pre)
    if k in ("ForStmt", "WhileStmt", "DoStmt", "CXXForRangeStmt"):
        pre = []
        body = None
        parts = [c for c in node.get("inner", []) if c and c.get("kind")]
        for c in parts:
            if c.get("kind") in ("CompoundStmt", "IfStmt", "ForStmt", "WhileStmt", "ReturnStmt", "NullStmt", "DoStmt",
                                 "CXXForRangeStmt", "SwitchStmt") or c is parts[-1] and k != "DoStmt":
                body = c
        inner = []
        for c in parts:
            if c is body:
                continue
            if c.get("kind") == "DeclStmt":
                inner.append(stmt_of(c, ctx))
            else:
                e = []
                expr_effects(c, ctx, e)
                inner += e
        b = stmt_of(body, ctx) if body is not None and body.get("kind", "").endswith("Stmt") else ("skip",)
        if body is not None and not body.get("kind", "").endswith("Stmt"):
            e = []
            expr_effects(body, ctx, e)
            b = seq(e)
        return ("loop", seq(inner + [b]))
    if k == "SwitchStmt":
        ks = kids(node)
        pre = []
        expr_effects(ks[0], ctx, pre)
        body = ks[-1]
        if body.get("kind") != "CompoundStmt":
            raise TranslatorError("%s: switch without a compound body" % ctx.method)
        cases = []            # (label text, [stmts])
        for c in kids(body):
            if c.get("kind") in ("CaseStmt", "DefaultStmt"):
                label, sub = "default", c
                labels = []
                while sub.get("kind") in ("CaseStmt", "DefaultStmt"):
                    sk = kids(sub)
                    labels.append("default" if sub.get("kind") == "DefaultStmt" else ctx.src.text(sk[0]))
                    sub = sk[-1]
                cases.append([" | ".join(labels), [stmt_of(sub, ctx)]])
            elif c.get("kind") == "BreakStmt":
                if not cases:
                    raise TranslatorError("%s: break before the first case" % ctx.method)
                cases[-1][1].append(("brk",))
            else:
                if not cases:
                    raise TranslatorError("%s: statement before the first case label" % ctx.method)
                cases[-1][1].append(stmt_of(c, ctx))
        chain = ("skip",)
        for label, body_st in reversed(cases):
            closed = any(s == ("brk",) for s in body_st) or ends_path(seq([s for s in body_st if s != ("brk",)]))
            if not closed and (label, body_st) != tuple(cases[-1]):
                raise TranslatorError("%s: switch case `%s` falls through" % (ctx.method, label))
            st = seq([s for s in body_st if s != ("brk",)])
            chain = ("if", ctx.src.text(ks[0]) + " is " + label, st, chain)
        return seq(pre + [chain])
    if k == "BreakStmt" or k == "ContinueStmt":
        return ("skip",)           # inside loops: the Loop node already covers 0..n executions of every prefix
    if k == "CXXTryStmt":
        ks = kids(node)
        body = stmt_of(ks[0], ctx)
        handlers = []
        for h in ks[1:]:
            if h.get("kind") != "CXXCatchStmt":
                raise TranslatorError("%s: unexpected %s in a try statement" % (ctx.method, h.get("kind")))
            hb = [c for c in kids(h) if c.get("kind") == "CompoundStmt"]
            handlers.append(stmt_of(hb[0], ctx) if hb else ("skip",))
        # several handlers: any of them may run
        hs = ("skip",)
        for h in reversed(handlers):
            hs = h if hs == ("skip",) and len(handlers) == 1 else ("if", "handler chosen", h, hs)
        return ("try", body, hs)
    if k in ("GotoStmt", "LabelStmt", "CXXCatchStmt"):
        raise TranslatorError("%s: %s is outside the subset" % (ctx.method, k))
    if k == "OMPParallelForDirective" or k.startswith("OMP"):
        return seq([stmt_of(c, ctx) for c in kids(node) if c.get("kind", "").endswith("Stmt")])
    if k == "CapturedStmt":
        return seq([stmt_of(c, ctx) for c in kids(node)])
    if not k.endswith("Stmt") and not k.endswith("Decl") and not k.endswith("Directive"):
        out = []
        expr_effects(node, ctx, out)
        return seq(out)
    raise TranslatorError("%s: statement kind %s is outside the subset" % (ctx.method, k))


# ------------------------------------------------------------------------------------------------ methods
def collect(objs, repo):
    cls = [o for o in objs if o["kind"] == "CXXRecordDecl" and o.get("name") == CLASS and o.get("completeDefinition")]
    if len(cls) != 1:
        raise TranslatorError("expected exactly one definition of class %s, found %d" % (CLASS, len(cls)))
    cls = cls[0]
    src_h, src_c = Src(os.path.join(repo, HPP)), Src(os.path.join(repo, CPP))
    access = "private"
    fields, methods, decl_key, count = [], [], {}, {}
    for m in kids(cls):
        k = m["kind"]
        if k == "AccessSpecDecl":
            access = m.get("access", access)
            continue
        if k == "FieldDecl":
            fields.append((m["name"], qt(m).replace("TasGrid::", ""), bool(m.get("mutable"))))
            continue
        tmpl = False
        d = m
        if k == "FunctionTemplateDecl":
            inner = [c for c in kids(m) if c["kind"] in ("CXXMethodDecl", "CXXConversionDecl")]
            if not inner:
                continue
            d, tmpl = inner[0], True
        elif k not in ("CXXMethodDecl", "CXXConstructorDecl", "CXXConversionDecl", "CXXDestructorDecl"):
            continue
        if d.get("isImplicit"):
            continue
        name = d.get("name", "?")
        idx = count.get(name, 0)
        count[name] = idx + 1
        key = "%s#%d" % (name, idx)
        sig = qt(d).replace("TasGrid::", "")
        rec = {"key": key, "name": name, "sig": sig, "access": access, "template": tmpl,
               "const": bool(re.search(r"\)\s*const(\s*noexcept)?$", sig)), "static": d.get("storageClass") == "static",
               "kind": k if not tmpl else d["kind"], "line": src_h.line_of(off(d["loc"])[0]) if "loc" in d and d["loc"] else None,
               "body_node": None, "body_src": None, "where": "none", "defaulted": bool(d.get("explicitlyDefaulted"))}
        decl_key[d["id"]] = key
        decl_key[m["id"]] = key
        # template instantiations listed under the template share the key
        if tmpl:
            for c in kids(m):
                if c.get("id"):
                    decl_key[c["id"]] = key
        body = [c for c in kids(d) if c.get("kind") == "CompoundStmt"]
        if body:
            rec["body_node"], rec["body_src"], rec["where"] = body[0], src_h, "header"
        if rec["defaulted"]:
            rec["where"] = "defaulted"
        methods.append(rec)
    by_key = {m["key"]: m for m in methods}
    # out-of-line definitions (top-level dumps)
    for o in objs:
        if o is cls:
            continue
        d, tm = o, None
        if o["kind"] == "FunctionTemplateDecl":
            inner = [c for c in kids(o) if c["kind"] in ("CXXMethodDecl", "CXXConversionDecl")]
            if not inner:
                continue
            d, tm = inner[0], o
        if d["kind"] not in ("CXXMethodDecl", "CXXConstructorDecl", "CXXConversionDecl", "CXXDestructorDecl"):
            continue
        body = [c for c in kids(d) if c.get("kind") == "CompoundStmt"]
        prev = d.get("previousDecl") or (tm or {}).get("previousDecl")
        key = decl_key.get(prev) if prev else None
        if key is None:
            # match by name and signature
            sig = qt(d).replace("TasGrid::", "")
            c = [m for m in methods if m["name"] == d.get("name") and m["sig"] == sig]
            if len(c) == 1:
                key = c[0]["key"]
        if key is None:
            if not body:
                continue            # an explicit instantiation or a redeclaration
            raise TranslatorError("out-of-line definition of %s %s matches no declaration of the class" % (d.get("name"), qt(d)))
        decl_key[d["id"]] = key
        if tm is not None:
            decl_key[tm["id"]] = key
            for c in kids(tm):
                if c.get("id"):
                    decl_key[c["id"]] = key
        if body:
            rec = by_key[key]
            if rec["body_node"] is not None and rec["where"] == "cpp":
                raise TranslatorError("two out-of-line definitions of " + key)
            rec["body_node"], rec["body_src"], rec["where"] = body[0], src_c, "cpp"
            # constructor initialisers
            rec["ctor_inits"] = [c for c in kids(d) if c.get("kind") == "CXXCtorInitializer"]
    return fields, methods, decl_key


def translate(repo, cflags):
    objs = run_clang(repo, cflags)
    fields, methods, decl_key = collect(objs, repo)
    fnames = [f[0] for f in fields]
    for m in methods:
        if m["body_node"] is None:
            m["body"] = None
            continue
        ctx = Ctx(m["body_src"], decl_key, fnames, m["key"])
        ctx.this_const = m["const"]
        pre = []
        for ci in m.get("ctor_inits", []):
            for c in kids(ci):
                expr_effects(c, ctx, pre)
        m["body"] = seq(pre + [stmt_of(m["body_node"], ctx)])
    return fields, methods


# ------------------------------------------------------------------------------------------------ doc clauses
def doc_clauses(repo, methods):
    """[(clause id, method key or name, kind, exception, text)] from the doxygen blocks of the header"""
    src = open(os.path.join(repo, HPP), errors="replace").read()
    m0 = re.search(r"^class\s+" + CLASS + r"\s*\{", src, re.M)
    if not m0:
        raise TranslatorError("class %s not found in %s" % (CLASS, HPP))
    # end of the class: the first line that is exactly "};" after the class head
    m1 = re.search(r"^\};", src[m0.end():], re.M)
    body = src[m0.end(): m0.end() + (m1.start() if m1 else len(src))]
    base_line = src[:m0.end()].count("\n") + 1
    by_line = {}
    for m in methods:
        if m.get("line"):
            by_line.setdefault(m["line"], m)
    clauses = []
    for bm in re.finditer(r"/\*!(.*?)\*/", body, re.S):
        block = bm.group(1)
        # the declaration that follows the block: skip template<...> lines and blank lines
        rest = body[bm.end():]
        dm = re.match(r"\s*(?:template\s*<[^>]*>\s*)?([^;{]*?)\b([A-Za-z_]\w*|operator\s*\S+?)\s*\(", rest, re.S)
        if not dm:
            continue
        name = dm.group(2)
        decl_line = base_line + body[:bm.end() + dm.start(2)].count("\n")
        mrec = by_line.get(decl_line)
        if mrec is None:
            c = [m for m in methods if m["name"] == name]
            mrec = c[0] if len(c) == 1 else None
        mkey = mrec["key"] if mrec else name
        lines = [re.sub(r"^\s*\*\s?", "", ln).rstrip() for ln in block.split("\n")]
        # paragraphs: split at blank lines and at lines starting with a doxygen command
        paras, cur = [], []
        for ln in lines:
            if not ln.strip():
                if cur:
                    paras.append(cur)
                cur = []
            elif re.match(r"\s*\\(throws|param|tparam|returns?|brief|b Note|b Notes|code|endcode|internal|endinternal|par)\b", ln) and cur:
                paras.append(cur)
                cur = [ln]
            else:
                cur.append(ln)
        if cur:
            paras.append(cur)
        nt = npz = 0
        incode = False
        for p in paras:
            text = norm(" ".join(p))
            if text.startswith("\\code"):
                incode = True
            if incode:
                if "\\endcode" in text:
                    incode = False
                continue
            tm = re.match(r"\\throws\s+(\S+)\s*(.*)", text)
            if tm:
                clauses.append(("%s.t%d" % (mkey, nt), mkey, "tagged", tm.group(1), tm.group(2)))
                nt += 1
                continue
            for sent in re.split(r"(?<=[.;])\s+", text):
                if re.search(r"std::(invalid_argument|runtime_error)|\b[Tt]hrows?\b|\bthrown\b|\berror messages\b", sent) and \
                        not re.search(r"(does|will|would) not throw|not throw an exception|no exception|without throwing|[Dd]oes not throw", sent):
                    em = re.search(r"std::(invalid_argument|runtime_error)", sent)
                    clauses.append(("%s.p%d" % (mkey, npz), mkey, "prose", ("std::" + em.group(1)) if em else "same-as-reference", sent))
                    npz += 1
    if not any(c[2] == "tagged" for c in clauses):
        raise TranslatorError("no \\throws clause found in " + HPP)
    return clauses


# ------------------------------------------------------------------------------------------------ family throw sites
def family_throw_sites(repo):
    """every `throw` statement of SparseGrids/*.{hpp,cpp} outside TasmanianSparseGrid.cpp and the C wrapper:
    (file, enclosing condition or empty, exception type).  Supports assumption A1 of Model/ApiGuards.v."""
    d = os.path.join(repo, "SparseGrids")
    sites = []
    for f in sorted(os.listdir(d)):
        if not f.endswith((".hpp", ".cpp")) or f in ("TasmanianSparseGrid.cpp", "TasmanianSparseGridWrapC.cpp") or \
                f.startswith(("tasgrid", "gridtest", "Benchmark")):
            continue
        txt = open(os.path.join(d, f), errors="replace").read()
        txt = re.sub(r"//[^\n]*", "", txt)
        txt = re.sub(r"/\*.*?\*/", "", txt, flags=re.S)
        for m in re.finditer(r"\bthrow\s+(std::\w+)\s*\(", txt):
            line_start = txt.rfind("\n", 0, m.start()) + 1
            head = norm(txt[line_start:m.start()])
            sites.append((f, m.group(1), head[:120]))
        # a rethrow `throw;` inside a handler is not a new source of exceptions: not listed
    return sites


# ------------------------------------------------------------------------------------------------ Gallina
def q(s):
    return '"' + s.replace('"', '""') + '"'


def exc_term(t):
    t = t.replace("class ", "").strip()
    if t == "std::invalid_argument":
        return "InvalidArgument"
    if t == "std::runtime_error":
        return "RuntimeError"
    return "(OtherExc %s)" % q(t)


def bool_term(b):
    return "true" if b else "false"


def stmt_term(st, ind):
    k = st[0]
    pad = " " * ind
    if k == "skip":
        return "Skip"
    if k == "ret":
        return "Ret"
    if k == "throw":
        return "Do (EThrow %s)" % exc_term(st[1])
    if k == "mut":
        return "Do (EMut %s)" % q(st[1])
    if k == "clear":
        return "Do EClear"
    if k == "self":
        return "Do (ESelf %s %s)" % (q(st[1]), bool_term(st[2]))
    if k == "base":
        return "Do (EBase %s %s %s)" % (q(st[1]), q(st[2]), bool_term(st[3]))
    if k == "ctor":
        return "Do (ECtor %s)" % q(st[1])
    if k == "ext":
        return "Do (EExt %s %s)" % (q(st[1]), bool_term(st[2]))
    if k == "seq":
        return "block [\n" + ";\n".join(pad + "  " + stmt_term(s, ind + 2) for s in st[1]) + "]"
    if k == "if":
        return "If %s\n%s  (%s)\n%s  (%s)" % (q(st[1]), pad, stmt_term(st[2], ind + 2), pad, stmt_term(st[3], ind + 2))
    if k == "loop":
        return "Loop (%s)" % stmt_term(st[1], ind + 2)
    if k == "scope":
        return "Scope (%s)" % stmt_term(st[1], ind + 2)
    if k == "try":
        return "Try\n%s  (%s)\n%s  (%s)" % (pad, stmt_term(st[1], ind + 2), pad, stmt_term(st[2], ind + 2))
    raise TranslatorError("internal: unknown stmt %r" % (st,))


HEADER = """(* GENERATED by translator/apiguards.py from %s — do not edit; regenerated on every run of ./check C14.
   Effects per statement in source order; see the translator's docstring for the exact meaning of every constructor. *)
From Coq Require Import String List Bool.
From TV Require Import Model.ApiGuards.
Import ListNotations.
Local Open Scope string_scope.
"""


def gen_api(fields, methods, sites=()):
    o = [HEADER % (CPP + " + " + HPP)]
    o.append("Definition api_fields : list (string * string * bool) :=   (* name, type, mutable *)\n  [" +
             ";\n   ".join("(%s, %s, %s)" % (q(n), q(t), bool_term(mu)) for n, t, mu in fields) + "].\n")
    names = []
    for i, m in enumerate(methods):
        ident = "m_%03d" % i
        names.append(ident)
        body = "None" if m["body"] is None else "Some (" + stmt_term(m["body"], 4) + ")"
        o.append("(* %s  %s  [%s%s%s, %s, line %s] *)" % (m["key"], m["sig"].replace("*)", "* )").replace("(*", "( *"), m["access"], ", const" if m["const"] else "",
                                                         ", template" if m["template"] else "", m["where"], m.get("line")))
        o.append("Definition %s : method := {|\n  m_key := %s; m_name := %s; m_sig := %s;\n  m_access := %s; m_const := %s; m_static := %s; m_where := %s;\n  m_body := %s |}.\n"
                 % (ident, q(m["key"]), q(m["name"]), q(m["sig"]),
                    {"public": "Public", "protected": "Protected", "private": "Private"}[m["access"]],
                    bool_term(m["const"]), bool_term(m["static"]),
                    {"cpp": "InCpp", "header": "InHeader", "defaulted": "Defaulted", "none": "NoBody"}[m["where"]], body))
    o.append("Definition api_methods : list method :=\n  [" + "; ".join(names) + "].\n")
    o.append("(* every throw statement of the other sources of SparseGrids/ (file, exception type, text in front of it on the line) *)")
    o.append("Definition family_throw_sites : list (string * string * string) :=\n  [" +
             ";\n   ".join("(%s, %s, %s)" % (q(a), q(b), q(c)) for a, b, c in sites) + "].\n")
    return "\n".join(o)


def gen_doc(clauses):
    o = ["(* GENERATED by translator/apiguards.py from %s — do not edit.\n   tagged = a \\throws paragraph (coverage denominator of C14); prose = another sentence of a doxygen block that mentions an exception. *)" % HPP,
         "From Coq Require Import String List.", "From TV Require Import Model.ApiGuards.", "Import ListNotations.", "Local Open Scope string_scope.", ""]
    o.append("Definition doc_throws : list clause :=\n  [" + ";\n   ".join(
        "{| c_id := %s; c_method := %s; c_kind := %s; c_exc := %s; c_text := %s |}" %
        (q(cid), q(mk), "Tagged" if kind == "tagged" else "Prose",
         exc_term(exc) if exc.startswith("std::") else "(OtherExc %s)" % q(exc), q(text))
        for cid, mk, kind, exc, text in clauses) + "].\n")
    return "\n".join(o)


def write_if_changed(path, text):
    try:
        with open(path) as fh:
            if fh.read() == text:
                return False
    except OSError:
        pass
    os.makedirs(os.path.dirname(path), exist_ok=True)
    tmp = path + ".tmp%d" % os.getpid()
    with open(tmp, "w") as fh:
        fh.write(text)
    os.replace(tmp, path)
    return True


def generate(repo, cflags=None):
    """-> dict(api=<text of ApiGuards.v>, doc=<text of DocThrows.v>, fields, methods, clauses)"""
    if cflags is None:
        cflags = default_cflags(repo)
    fields, methods = translate(repo, cflags)
    clauses = doc_clauses(repo, methods)
    for m in methods:
        m.pop("body_node", None)
        m.pop("body_src", None)
        m.pop("ctor_inits", None)
    sites = family_throw_sites(repo)
    return {"api": gen_api(fields, methods, sites), "doc": gen_doc(clauses), "fields": fields, "methods": methods, "clauses": clauses,
            "family_throw_sites": sites}


def main(argv):
    if len(argv) < 3:
        print(__doc__)
        return 2
    try:
        g = generate(argv[1], argv[3:] or None)
    except TranslatorError as e:
        print("TRANSLATOR-ERROR: " + str(e), file=sys.stderr)
        return 2
    for name, key in (("ApiGuards.v", "api"), ("DocThrows.v", "doc")):
        p = os.path.join(argv[2], name)
        print("apiguards: %s %s" % (p, "rewritten" if write_if_changed(p, g[key]) else "unchanged"))
    print("apiguards: %d methods, %d fields, %d tagged clauses, %d prose mentions" % (
        len(g["methods"]), len(g["fields"]), sum(1 for c in g["clauses"] if c[2] == "tagged"), sum(1 for c in g["clauses"] if c[2] == "prose")))
    return 0


if __name__ == "__main__":
    sys.exit(main(sys.argv))
