#!/usr/bin/env python3
"""translator/rulelocalq.py — regenerate coq/gen/RuleLocalQGen.v: a Gallina model of the RATIONAL-valued functions of namespace
TasGrid::RuleLocal whose double arithmetic is exact rational arithmetic on the inputs that matter: getNode, getSupport, scaleDiffX
(SparseGrids/tsgRuleLocalPolynomial.hpp), from the CURRENT source, over the generated integer functions of gen/RuleLocalGen.v
(translator/rulelocal.py, whose classes and rules R1-R6 are re-used unchanged for the integer sub-expressions, conditions, switches).
Proofs/RuleLocalQGenProofs.v proves the result equal (Qeq) to the hand-written Model/RuleLocal.v for every point >= 0.

Additional TRUSTED translation rules (restated in the generated file):

 Q1  type         double -> Q (exact rationals: ROUNDING IS NOT MODELLED; the values are dyadic and exactly representable except
                  1/3^k of rule pwc, compared with a stated tolerance by tools/rlqtie.py); the functions take one int and return double.
 Q2  literals     a floating literal must be a dyadic rational m / 2^k with k <= 10, |m| <= 2^20 (all literals of these functions
                  are: 0.0 0.5 1.0 2.0 3.0); it is translated exactly (m # 2^k); any other literal stops the translator.
 Q3  conversions  (double) e, static_cast<double>(e), double(e) and the implicit int -> double conversion of an int expression e
                  -> inject_Z e' (e' by R1-R2; exact: |e| < 2^53).  A conversion double -> int or -> bool is refused.
 Q4  operators    unary - +, binary + - * / on doubles -> Qopp, Qplus Qminus Qmult Qdiv (x / 0 is 0 in Q, inf/nan in C++: outside
                  the domain, all divisors here are powers of 2 or 3);  c ? a : b -> if c' then a' else b' (c by R2-R3: comparisons
                  of ints only; a comparison of doubles is refused);  `return e;` ends a path (R4: if / switch(point) / switch(rule)).
 any other expression, statement, parameter or return type: the translator stops with an error naming the function (exit 2).

usage: rulelocalq.py <repo> <out.v> [cfgdir]     (writes only when the content changes)
"""
import os
import sys
from fractions import Fraction

sys.path.insert(0, os.path.dirname(os.path.abspath(__file__)))
import rulelocal as rl  # noqa: E402
from rulelocal import TranslatorError, atom, strip, write_if_changed, source_hash  # noqa: E402,F401

QFUNCS = ["getNode", "getSupport", "scaleDiffX"]
SHORT = {"getNode": "node", "getSupport": "support", "scaleDiffX": "scalediffx"}
RULES = rl.RULES
QOPS = {"+": "+", "-": "-", "*": "*", "/": "/"}
EXPLICIT_CASTS = ("CStyleCastExpr", "CXXStaticCastExpr", "CXXFunctionalCastExpr")


class QFn(rl.Fn):
    """one double-valued function body for one rule; integer sub-expressions and conditions by the base class"""

    def __init__(self, name, rule, known):
        rl.Fn.__init__(self, name, rule, known)
        self.nonq = 0                    # > 0 while translating an integer expression or a condition: no double may occur there

    def expr(self, n):
        if strip(n).get("type", {}).get("qualType") == "double":
            if self.nonq:
                self.err("double-valued expression inside an integer expression or a condition (Q3/Q4)", strip(n))
            return self.qexpr(n)
        return self.zexpr(n)      # switch scrutinee, `int x = e;` (a returned int carries an implicit conversion: Q3)

    def zexpr(self, n):
        self.nonq += 1
        try:
            return rl.Fn.expr(self, n)
        finally:
            self.nonq -= 1

    def cond(self, n):
        self.nonq += 1
        try:
            return rl.Fn.cond(self, n)
        finally:
            self.nonq -= 1

    def qlit(self, n):
        try:
            v = Fraction(n["value"])
        except (ValueError, KeyError, ZeroDivisionError):
            self.err("floating literal `%s` (Q2)" % n.get("value"), n)
        d = v.denominator
        if d & (d - 1) or d > 1024 or abs(v.numerator) > 2 ** 20:
            self.err("floating literal `%s`: not a small dyadic rational (Q2)" % n["value"], n)
        return v

    @staticmethod
    def qnum(v):
        if v.denominator == 1:
            return "%d%%Q" % v.numerator if v >= 0 else "(%d)%%Q" % v.numerator
        return "(%d # %d)%%Q" % (v.numerator, v.denominator)

    def qexpr(self, n):
        """double-valued expression -> Gallina term of type Q (self-contained: carries its own scope delimiters)"""
        n = strip(n)
        k = n.get("kind")
        if n.get("type", {}).get("qualType") != "double":
            self.err("expression of type %s where a double is expected" % n.get("type", {}).get("qualType"), n)
        if k == "FloatingLiteral":
            return self.qnum(self.qlit(n))
        if k == "ImplicitCastExpr" and n.get("castKind") == "IntegralToFloating":
            return self.inject(n["inner"][0])
        if k in EXPLICIT_CASTS and n.get("castKind") == "NoOp":
            return self.qexpr(n["inner"][0])
        if k in EXPLICIT_CASTS and n.get("castKind") == "IntegralToFloating":
            return self.inject(n["inner"][0])
        if k == "UnaryOperator" and n["opcode"] == "-":
            inner = strip(n["inner"][0])
            if inner.get("kind") == "FloatingLiteral" and self.qlit(inner) > 0:
                return self.qnum(-self.qlit(inner))
            return "(- %s)%%Q" % atom(self.qexpr(inner))
        if k == "UnaryOperator" and n["opcode"] == "+":
            return self.qexpr(n["inner"][0])
        if k == "BinaryOperator" and n["opcode"] in QOPS:
            a, b = n["inner"]
            return "(%s %s %s)%%Q" % (atom(self.qexpr(a)), QOPS[n["opcode"]], atom(self.qexpr(b)))
        if k == "ConditionalOperator":
            c, a, b = n["inner"]
            cc = self.cond(c)
            return self.ite(cc if cc in ("true", "false") else "(%s)%%Z" % cc, lambda: self.qexpr(a), lambda: self.qexpr(b))
        self.err("double-valued expression (Q2-Q4)", n)

    def inject(self, n):
        if strip(n).get("type", {}).get("qualType") != "int":
            self.err("conversion to double of a value of type %s (Q3: int only)" % strip(n).get("type", {}).get("qualType"), strip(n))
        return "inject_Z %s" % atom(self.zexpr(n))


def translate_q(objs, name, known):
    """-> text of the definitions gen_<short>_<rule> : Z -> Q (one per rule) and gq_<name> : erule -> Z -> Q"""
    found = [f for f in (rl.function_decl(o, name) for o in objs) if f and any(c.get("kind") == "CompoundStmt" for c in f[0].get("inner", []))]
    if len(found) != 1:
        raise TranslatorError("function %s: %d definitions found (renamed, overloaded or removed?)" % (name, len(found)))
    fd, is_tmpl = found[0]
    if not is_tmpl:
        raise TranslatorError("function %s: not a template over RuleLocal::erule" % name)
    if fd["type"]["qualType"] != "double (int)":
        raise TranslatorError("function %s: type is `%s`, expected `double (int)` (Q1)" % (name, fd["type"]["qualType"]))
    params = [c for c in fd["inner"] if c.get("kind") == "ParmVarDecl"]
    body = [c for c in fd["inner"] if c.get("kind") == "CompoundStmt"][0]
    out = []
    for rule in RULES:
        fn = QFn(name, rule, known)
        for p in params:
            fn.var(p, declare=True)
        term = fn.seq([body])
        if fn.loopdefs:
            fn.err("loop in a double-valued function")
        out.append("Definition gen_%s_%s (%s : Z) : Q :=\n  %s.\n" % (SHORT[name], rule, params[0]["name"], term))
    out.append("Definition gq_%s (r : erule) (point : Z) : Q :=\n  match r with\n%s  end.\n"
               % (name, "".join("  | %s => gen_%s_%s point\n" % (r.capitalize(), SHORT[name], r) for r in RULES)))
    return "\n".join(out)


def generate(repo, cfgdir, workdir):
    """-> (text of RuleLocalQGen.v, facts)"""
    h = source_hash(repo)
    objs = rl.clang_ast(repo, cfgdir, workdir, "RuleLocal::")
    enum = [o for o in objs if o.get("kind") == "EnumDecl" and o.get("name") == "erule"]
    consts = [c["name"] for c in enum[0]["inner"] if c.get("kind") == "EnumConstantDecl"] if enum else None
    if consts != RULES:
        raise TranslatorError("enum RuleLocal::erule is %s, the model Model.RuleLocal.erule has %s" % (consts, RULES))
    parts = [translate_q(objs, f, set(rl.HELPERS)) for f in QFUNCS]
    rules = __doc__.split("Additional TRUSTED translation rules (restated in the generated file):")[1].split("usage:")[0]
    head = ("(* GENERATED by translator/rulelocalq.py from the working tree — do not edit.\n"
            "   Source: clang JSON AST of %s (namespace TasGrid::RuleLocal: %s), over gen/RuleLocalGen.v (R1-R6 there).\n"
            "   source_hash: %s   (sha256 over the two headers)\n   Additional translation rules (syntactic, trusted):\n%s*)\n"
            "From Coq Require Import QArith.\nFrom TV Require Import Common.Prelude Model.RuleLocal gen.RuleLocalGen.\nLocal Open Scope Z_scope.\n\n"
            % (rl.HEADERS[0], ", ".join(QFUNCS), h, rules.rstrip() + "\n"))
    return head + "\n".join(parts), {"source_hash": h, "functions": QFUNCS}


if __name__ == "__main__":
    if len(sys.argv) < 3:
        sys.exit(__doc__)
    root = os.path.dirname(os.path.dirname(os.path.abspath(__file__)))
    sys.path.insert(0, os.path.join(root, "tools"))
    work = os.path.join(root, "_build", "work", "rlq")
    cfg = sys.argv[3] if len(sys.argv) > 3 else os.path.join(work, "cfg")
    if len(sys.argv) <= 3:
        os.environ["VERIF_REPO"] = sys.argv[1]
        import vlib
        vlib.gen_config(cfg)
    try:
        text, facts = generate(sys.argv[1], cfg, work)
    except TranslatorError as e:
        print("rulelocalq.py: " + str(e), file=sys.stderr)
        sys.exit(2)
    print("%s: %s (source_hash %s)" % (sys.argv[2], "written" if write_if_changed(sys.argv[2], text) else "unchanged", facts["source_hash"]))
