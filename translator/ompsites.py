#!/usr/bin/env python3
"""translator/ompsites.py — regenerate coq/gen/OmpSites.v from the CURRENT sources (C13).

Every `#pragma omp` of SparseGrids/, DREAM/ and Addons/ (recursively, *.cpp *.hpp *.h) is listed with its file, line,
enclosing function, directive kind and the PATTERN CLASS assigned by the matcher below.  The matcher is a careful
TEXTUAL scan (comments and string literals blanked, braces/parentheses balanced); it is syntactic and trusted.
A site that matches no rule gets the class Unmatched (with the reason) and fails the obligation c13_sites_classified.
An unknown directive or clause (reduction, sections, task, simd, single, master, barrier, nowait, collapse ...) is an unknown
shape: the translator stops (exit 2).

 directive      structured block                                                                  class
 -------------  --------------------------------------------------------------------------------  -------------------
 critical       only `X.append(..)/appendStrip(..)/push_back(..)` statements, and X is later      CollectSort
                passed to the sorting constructor `MultiIndexSet(X)` / `MultiIndexSet r(X)`
                in the same function (otherwise: Unmatched "append order kept")
 critical       only `if (A < B) A = B;` / `if (B > A) A = B;` statements (possibly in a          CriticalMax
                `for` over components), A shared, B private
 critical       `if (T.value > G.value) G = T;` (maximum with a payload)                          CriticalArgmax
 critical       one assignment `p = f(args);` to a thread-private variable                        CriticalPureCall
 atomic         `X += y;` with X declared `int/long/size_t` in the function                       AtomicIntSum
 parallel       the block contains only declarations of thread-private variables, statements on   Region
                those variables, `if/else` around work-sharing loops and nested directives
 for /          W = the variables written in the body (left sides of = op= ++ --, objects of       ParforDisjoint
 parallel for   mutating methods, destinations of std::fill/copy/transform/iota/sort, arguments
                that are slots `X[..]`, `&X[..]`, `X.getStrip(..)`); private = declared in the
                body / in the enclosing parallel region / loop variables / lambda parameters.
                Every write must be private or go to a slot whose index mentions the loop
                variable or a private variable (a slot OWNED by the iteration).  If the body
                also READS a written shared container at an index expression different from
                the written one, the site must be pinned below:
                  pinned LevelSweep        the foreign slots belong to strictly lower levels /       LevelSweep
                                           rows that no iteration of this loop writes
                  pinned LinesIndependent  the loop runs over the jobs of resortIndexes (or the      LinesIndependent
                                           1-D index maps of the FFT); a job touches only its line
                  the union tree           `S[i] += S[i + stride]` under `if (i + stride < n)`       UnionTree
                A write to a shared variable that is not a slot (a shared accumulator, a shared
                maximum) outside critical/atomic is Unmatched.
 any            in a file named gridtest*                                                        TestCode (not library code)

Floating-point note: no class reorders a floating-point sum; the parallel loops either own their output slots (the
arithmetic inside one iteration is sequential) or combine integers / maxima.  Rounding can still differ between the serial
and the OpenMP BUILD where the two builds run different code (`#ifdef _OPENMP` branches), which is why numeric outputs are
compared with a tolerance at run time.

usage: ompsites.py <repo> <out.v>     (writes only when the content changes; exit 2 on unknown shapes)
"""
import os
import re
import sys


class TranslatorError(Exception):
    pass


DIRS = ["SparseGrids", "DREAM", "Addons"]
EXTS = (".cpp", ".hpp", ".h")

# sites whose loop reads slots of a container it also writes: (file basename, function) -> (class, justification)
PINNED = {
    ("tsgGridLocalPolynomial.cpp", "recomputeSurpluses"): ("LevelSweep", "outer loop over levels l; iteration s updates the surpluses of ONE point of level l and reads (monkey walk over parents) only points of levels < l"),
    ("tsgGridLocalPolynomial.cpp", "updateSurpluses"): ("LevelSweep", "outer loop over levels l; a point of level l reads only ancestors of lower levels"),
    ("tsgGridLocalPolynomial.cpp", "applyTransformationTransposed"): ("LevelSweep", "level-by-level sweep; reads only other levels"),
    ("tsgLinearSolvers.cpp", "computeILU"): ("LevelSweep", "row j > i is updated from the pivot row i, fixed by the enclosing sequential loop; no iteration writes row i"),
    ("tsgLinearSolvers.cpp", "projectKrylov"): ("LevelSweep", "iteration j writes column j of the newest Krylov vector and reads column j of the older vectors and H, none of which is written"),
    ("tsgGridGlobal.cpp", "getQuadratureWeights"): ("ParforDisjoint", "scatter weights[tensor_refs[n][i]] for ONE tensor n: tensor_refs[n] lists the distinct grid points of the tensor, so iteration i owns its slot (injectivity of the reference map is assumed)"),
    ("tsgGridLocalPolynomial.cpp", "buildUpdateMap"): ("LinesIndependent", "SplitDirections: job j owns one line of points in direction d and writes pmap[point][d] only for the points of its line"),
    ("tsgGridWavelet.cpp", "buildUpdateMap"): ("LinesIndependent", "SplitDirections: job j owns one line of points in direction d and writes pmap[point][d] only for the points of its line"),
    ("tsgRuleWavelet.cpp", "cubic_cascade"): ("LevelSweep", "fine nodes AF(i,level) are written, coarse nodes AC(.,level) of the previous level are read"),
}
LINES_HINT = re.compile(r"\b(lines1d|job_indexes|maps1d)\b")

MUTATORS = {"append", "appendStrip", "push_back", "emplace_back", "push_front", "resize", "clear", "insert", "erase", "swap", "assign",
            "reserve", "setValues", "addValues", "load"}
DEST_LAST = {"std::copy_n": 2, "std::copy": 2, "std::transform": None, "std::fill": 0, "std::fill_n": 0, "std::iota": 0, "std::sort": 0}
KEYWORDS = {"for", "if", "while", "switch", "catch", "return", "sizeof", "else", "do"}
TYPE_START = r"(?:const\s+|static\s+|unsigned\s+|long\s+|typename\s+)*(?:[A-Za-z_][\w:]*)(?:<[^;{}()]*>)?(?:\s*(?:const)?\s*[\*&]+|\s+const)?"
DECL_RE = re.compile(r"(?:^|[;{}()]\s*)(" + TYPE_START + r")\s+[\*&]?\s*([A-Za-z_]\w*)\s*(?:=|;|\(|\{|\[|,|:)")
NOT_TYPES = {"return", "else", "delete", "new", "throw", "case", "goto", "using", "typedef", "namespace", "template", "operator", "and", "or", "not"}


# ---------------------------------------------------------------------------------------------- text utilities
def blank_comments_strings(src):
    """same length, same newlines; comments and string/char literals replaced by spaces (pragma lines are kept)"""
    out = list(src)
    i, n = 0, len(src)
    while i < n:
        c = src[i]
        if src.startswith("//", i):
            j = src.find("\n", i)
            j = n if j < 0 else j
            for k in range(i, j):
                out[k] = " "
            i = j
        elif src.startswith("/*", i):
            j = src.find("*/", i)
            j = n if j < 0 else j + 2
            for k in range(i, j):
                if out[k] != "\n":
                    out[k] = " "
            i = j
        elif c == '"' or c == "'":
            j = i + 1
            while j < n and src[j] != c:
                j += 2 if src[j] == "\\" else 1
            for k in range(i + 1, min(j, n)):
                if out[k] != "\n":
                    out[k] = " "
            i = j + 1
        else:
            i += 1
    return "".join(out)


def select_openmp_branches(clean):
    """`#ifdef _OPENMP A #else B #endif` -> B blanked (the sites live in the OpenMP build); `#ifndef _OPENMP A #else B #endif` -> A blanked"""
    out = list(clean)
    stack = []       # (kind, start of the directive line, position after it)
    for m in re.finditer(r"(?m)^[ \t]*#[ \t]*(ifdef|ifndef|if|else|elif|endif)\b([^\n]*)", clean):
        d, rest = m.group(1), m.group(2).strip()
        if d in ("ifdef", "ifndef", "if"):
            omp = None
            if d == "ifdef" and rest == "_OPENMP":
                omp = True
            elif d == "ifndef" and rest == "_OPENMP":
                omp = False
            elif d == "if" and re.match(r"^defined\s*\(?\s*_OPENMP\s*\)?$", rest):
                omp = True
            elif "_OPENMP" in rest:
                raise TranslatorError("preprocessor condition on _OPENMP of unknown shape: #%s %s" % (d, rest))
            stack.append([omp, m.end(), None])
        elif d in ("else", "elif"):
            if not stack:
                raise TranslatorError("#else without #if")
            if stack[-1][0] is not None and d == "elif":
                raise TranslatorError("#elif in an _OPENMP conditional")
            stack[-1][2] = (m.start(), m.end())
        else:
            if not stack:
                raise TranslatorError("#endif without #if")
            omp, begin, els = stack.pop()
            if omp is None:
                continue
            if omp:
                a, b = (els[1], m.start()) if els else (0, 0)       # blank the #else part
            else:
                a, b = begin, (els[0] if els else m.start())        # blank the first part
            for k in range(a, b):
                if out[k] != "\n":
                    out[k] = " "
    return "".join(out)


def match_close(s, i, o, c):
    depth = 0
    n = len(s)
    while i < n:
        if s[i] == o:
            depth += 1
        elif s[i] == c:
            depth -= 1
            if depth == 0:
                return i
        i += 1
    raise TranslatorError("unbalanced %s" % o)


def skip_ws(s, i):
    n = len(s)
    while i < n:
        if s[i] in " \t\r\n":
            i += 1
        elif s.startswith("#pragma", i) is False and s[i] == "#":
            # other preprocessor line (#ifdef ... inside a block): skip the line
            j = s.find("\n", i)
            i = n if j < 0 else j
        else:
            break
    return i


def statement_end(s, i):
    """end (exclusive) of the statement starting at i: a block, a control statement with its body, or up to `;`"""
    i = skip_ws(s, i)
    if s.startswith("#pragma", i):
        j = s.find("\n", i)
        return statement_end(s, j + 1)
    if s[i] == "{":
        return match_close(s, i, "{", "}") + 1
    m = re.match(r"(for|while|if|switch)\b\s*", s[i:])
    if m:
        p = i + m.end()
        if s[p] != "(":
            raise TranslatorError("control statement without parenthesis")
        q = match_close(s, p, "(", ")") + 1
        e = statement_end(s, q)
        if m.group(1) == "if":
            k = skip_ws(s, e)
            if re.match(r"else\b", s[k:]):
                return statement_end(s, k + 4)
        return e
    depth, n = 0, len(s)
    while i < n:
        ch = s[i]
        if ch in "({[":
            depth += 1
        elif ch in ")}]":
            depth -= 1
        elif ch == ";" and depth == 0:
            return i + 1
        i += 1
    raise TranslatorError("statement without end")


def split_statements(block):
    """top-level statements of the inside of a block"""
    out, i, n = [], 0, len(block)
    while True:
        i = skip_ws(block, i)
        if i >= n:
            break
        e = statement_end(block, i)
        out.append(block[i:e])
        i = e
    return out


def squeeze(s):
    return re.sub(r"\s+", " ", s).strip()


def enclosing_function(clean, pos):
    """name of the function whose body contains pos (nearest preceding definition header at indentation <= 4)"""
    best = "?"
    for m in re.finditer(r"(?m)^( {0,4})(?![ #])([^\n;{}]*?)\b([A-Za-z_~][\w:~]*)\s*\(([^;{}]*)\)\s*(?:const\s*)?(?:noexcept\s*)?(?:override\s*)?(?:->[^{;]*)?\{", clean[:pos]):
        name = m.group(3).split("::")[-1]
        if name in KEYWORDS or m.group(2).strip().startswith(("return", "else", "}")):
            continue
        # the body must still be open at pos
        b = m.end() - 1
        try:
            e = match_close(clean, b, "{", "}")
        except TranslatorError:
            e = len(clean)
        if e > pos:
            best = name
    return best


def declared_names(text):
    names = set()
    for m in DECL_RE.finditer(text):
        ty = m.group(1).strip()
        first = re.split(r"[\s<*&]", ty)[0]
        if first in NOT_TYPES or first in KEYWORDS:
            continue
        names.add(m.group(2))
        # further declarators of the same statement:  T a(..), b(..);
        rest_start = m.end() - 1
        stmt_end = text.find(";", rest_start)
        if stmt_end > 0:
            depth = 0
            seg = text[rest_start:stmt_end]
            for k, ch in enumerate(seg):
                if ch in "({[<":
                    depth += 1
                elif ch in ")}]>":
                    depth -= 1
                elif ch == "," and depth == 0:
                    mm = re.match(r"\s*[\*&]?\s*([A-Za-z_]\w*)", seg[k + 1:])
                    if mm:
                        names.add(mm.group(1))
    for m in re.finditer(r"for\s*\(\s*(?:const\s+)?(?:auto|int|size_t|long long|long|unsigned)\s*[&]?\s*([A-Za-z_]\w*)", text):
        names.add(m.group(1))
    for m in re.finditer(r"\[[&=]?\]\s*\(([^)]*)\)", text):       # lambda parameters
        for p in m.group(1).split(","):
            mm = re.search(r"([A-Za-z_]\w*)\s*$", p.strip())
            if mm:
                names.add(mm.group(1))
    return names


SLOT_RE = re.compile(r"([A-Za-z_][\w\.]*(?:->\w+)*)\s*((?:\[[^\]]*\])+|\.get[I]?Strip\([^()]*(?:\([^()]*\)[^()]*)*\))")


def parse_slots(text, container=None):
    """all occurrences `X[e0][e1]..` / `X.getStrip(e0)[e1]..` -> list of (X, [e0, e1, ..], start, end); brackets balanced"""
    out = []
    pat = r"\b([A-Za-z_]\w*(?:(?:\.|->)(?!get[I]?Strip\b)[A-Za-z_]\w*)*)\s*(?=\[|\.get[I]?Strip\()" if container is None else \
          r"\b(%s)\s*(?=\[|\.get[I]?Strip\()" % re.escape(container)
    for m in re.finditer(pat, text):
        i, groups = m.end(), []
        while i < len(text):
            if text[i] == "[":
                q = match_close(text, i, "[", "]")
                groups.append(squeeze(text[i + 1:q]))
                i = q + 1
            else:
                mm = re.match(r"\.get[I]?Strip\(", text[i:])
                if mm and not groups:
                    q = match_close(text, i + mm.end() - 1, "(", ")")
                    groups.append(squeeze(text[i + mm.end():q]))
                    i = q + 1
                else:
                    break
        if groups:
            out.append((m.group(1), groups, m.start(), i))
    return out


def lhs_info(lhs):
    lhs = lhs.strip()
    sl = parse_slots(lhs)
    if sl and sl[0][2] == 0 and sl[0][3] == len(lhs):
        return sl[0][0], sl[0][1]
    return lhs_info_plain(lhs)


def lhs_info_plain(lhs):
    """target that is not a slot: (identifier, None); unknown shapes: (text, "?")"""
    lhs = re.sub(r"^\(+|\)+$", "", lhs.strip())
    m = re.match(r"^\*\s*\(?\s*([A-Za-z_]\w*)\s*(?:\+\+)?\s*\)?$", lhs)        # *p , *p++
    if m:
        return m.group(1), None
    m = re.match(r"^([A-Za-z_]\w*(?:(?:\.|->)[A-Za-z_]\w*)*)$", lhs)
    if m:
        return m.group(1), None
    return lhs, "?"


def strip_control_prefix(lhs):
    """`for(..) if (..) x[j]` -> `x[j]` (the walk back from the operator runs over the headers of control statements)"""
    while True:
        lhs = lhs.strip()
        m = re.match(r"^(for|if|while|switch)\s*\(", lhs)
        if m:
            try:
                q = match_close(lhs, m.end() - 1, "(", ")")
            except TranslatorError:
                return lhs
            lhs = lhs[q + 1:]
            continue
        m = re.match(r"^(else|do)\b", lhs)
        if m:
            lhs = lhs[m.end():]
            continue
        return lhs


def find_assignments(body):
    """-> list of (base, index text or None, operator)"""
    out = []
    for m in re.finditer(r"(?<![=!<>+\-*/%&|^])(\+=|-=|\*=|/=|%=|\|=|&=|\^=|<<=|>>=|=)(?!=)", body):
        op = m.group(1)
        # walk back to the start of the left-hand side
        i = m.start() - 1
        depth = 0
        while i >= 0:
            ch = body[i]
            if ch in ")]":
                depth += 1
            elif ch in "([":
                if depth == 0:
                    break
                depth -= 1
            elif depth == 0 and ch in ";{},?:":
                break
            elif depth == 0 and ch in "<>" and op == "=":
                pass
            i -= 1
        lhs = strip_control_prefix(body[i + 1:m.start()])
        if not lhs:
            continue
        # declarations `T x = ..` : the target is the last identifier
        toks = re.split(r"\s+", lhs)
        if len(toks) > 1 and re.match(r"^[\*&]*[A-Za-z_]\w*(\[[^\]]*\])*$", toks[-1]) and not re.search(r"[\[\]\.\)]$", " ".join(toks[:-1])):
            lhs = toks[-1].lstrip("*&")
            decl = True
        else:
            decl = False
        base, idx = lhs_info(lhs)
        out.append((base, idx, op, decl))
    for m in re.finditer(r"(?:\+\+|--)\s*\(?\s*\*?\s*([A-Za-z_]\w*(?:\[[^\]]*\])*)|([A-Za-z_]\w*(?:\[[^\]]*\])*)\s*(?:\+\+|--)", body):
        t = m.group(1) or m.group(2)
        base, idx = lhs_info(t)
        out.append((base, idx, "++", False))
    return out


def mentions(expr, names):
    return any(re.search(r"\b%s\b" % re.escape(n), expr) for n in names)


# ---------------------------------------------------------------------------------------------- classification
def classify_critical(block_inner, func_text_after, func_text, private):
    stmts = [squeeze(s) for s in split_statements(block_inner)]
    if not stmts:
        return "Unmatched", "empty critical section"
    app = [re.match(r"^([A-Za-z_]\w*)\.(append|appendStrip|push_back)\(.*\);$", s) for s in stmts]
    if all(app):
        cont = sorted(set(m.group(1) for m in app))
        missing = [x for x in cont if not re.search(r"MultiIndexSet(?:\s+\w+)?\s*\(\s*(?:std::move\(\s*)?%s\s*\)" % re.escape(x), func_text_after)]
        if missing:
            return "Unmatched", "critical append to %s: the container never reaches the sorting constructor MultiIndexSet(..) (append order kept)" % ",".join(missing)
        return "CollectSort", "appends to %s, later MultiIndexSet(%s) sorts and removes duplicates" % (",".join(cont), ",".join(cont))

    def is_max(s):
        s = re.sub(r"^for\s*\([^;]*;[^;]*;[^)]*\)\s*\{?\s*", "", s).rstrip("} ")
        m = re.match(r"^if\s*\(\s*(.+?)\s*([<>])\s*(.+?)\s*\)\s*\{?\s*(.+?)\s*=\s*(.+?);\s*\}?$", s)
        if not m:
            return None
        a, op, b, tgt, src = m.groups()
        lo, hi = (a, b) if op == "<" else (b, a)
        if squeeze(tgt) == squeeze(lo) and squeeze(src) == squeeze(hi):
            return "max"
        # maximum with a payload:  if (T.value > G.value) G = T;
        if op == ">" and a.endswith(".value") and b.endswith(".value") and squeeze(tgt) == b[:-6] and squeeze(src) == a[:-6]:
            return "argmax"
        if squeeze(tgt) == squeeze(hi) and squeeze(src) == squeeze(lo):
            return "min"
        return None
    kinds = [is_max(s) for s in stmts]
    if all(k in ("max", "min") for k in kinds):
        return "CriticalMax", "only `if (a < b) a = b` updates of shared maxima/minima"
    if all(k == "argmax" for k in kinds):
        return "CriticalArgmax", "maximum with payload; equal only when the maximal VALUE is attained once (ties resolved by arrival order)"
    if len(stmts) == 1:
        m = re.match(r"^([A-Za-z_]\w*)\s*=\s*[A-Za-z_][\w:]*\(.*\);$", stmts[0])
        if m and m.group(1) in private:
            return "CriticalPureCall", "serialised call of a callback whose result is stored in the thread-private %s" % m.group(1)
    return "Unmatched", "critical section of unknown shape: " + " ".join(stmts)[:120]


def classify_atomic(stmt, func_text):
    s = squeeze(stmt)
    m = re.match(r"^([A-Za-z_]\w*)\s*\+=\s*([A-Za-z_]\w*|\d+)\s*;$", s)
    if not m:
        return "Unmatched", "atomic statement of unknown shape: " + s[:80]
    x = m.group(1)
    if re.search(r"\b(?:int|long|long long|size_t|unsigned)\s+%s\b" % re.escape(x), func_text):
        return "AtomicIntSum", "integer counter %s" % x
    return "Unmatched", "atomic update of %s whose type is not an integer type (floating-point sums depend on the order)" % x


def loop_header(stmt):
    m = re.match(r"for\s*\(", stmt)
    if not m:
        return None
    q = match_close(stmt, m.end() - 1, "(", ")")
    head = stmt[m.end():q]
    mm = re.match(r"\s*(?:int|long long|long|size_t|unsigned|unsigned int)\s+([A-Za-z_]\w*)\s*=\s*([^;]*);([^;]*);(.*)$", head, re.S)
    if not mm:
        return None
    return {"var": mm.group(1), "init": squeeze(mm.group(2)), "cond": squeeze(mm.group(3)), "step": squeeze(mm.group(4)), "body": stmt[q + 1:]}


def iteration_dependent(body, loopvar):
    """variables whose value is derived from the work-sharing loop variable: declared with an initialiser that mentions a derived
    variable, or counters of inner loops whose bounds mention one (closure)"""
    derived = {loopvar}
    decls = [(m.group(1), m.group(2)) for m in re.finditer(r"\b([A-Za-z_]\w*)\s*(?:\[[^\]]*\])?\s*=\s*([^;]+);", body)]
    loops = []
    for m in re.finditer(r"\bfor\s*\(", body):
        q = match_close(body, m.end() - 1, "(", ")")
        head = body[m.end():q]
        mm = re.match(r"\s*(?:const\s+)?[\w:<>]+\s*[&\*]?\s*([A-Za-z_]\w*)\s*(=|:)(.*)$", head, re.S)
        if mm:
            loops.append((mm.group(1), mm.group(3)))
    changed = True
    while changed:
        changed = False
        for name, init in decls + loops:
            if name not in derived and mentions(init, derived):
                derived.add(name)
                changed = True
    return derived


def classify_for(stmt, region_private, func_name, base_name, func_text, enclosing_loops):
    h = loop_header(stmt)
    if h is None:
        return "Unmatched", "work-sharing loop whose header is not `for(int i = a; i < b; i++)`"
    body = h["body"]
    private = set(region_private) | declared_names(body) | {h["var"]}
    owned_by = iteration_dependent(body, h["var"])
    writes = []          # (container, index groups or None or "?", how)
    for base, idx, op, decl in find_assignments(body):
        if not decl:
            writes.append((base, idx, "assignment " + op))
    for m in re.finditer(r"(?:\.|->)\s*([A-Za-z_]\w*)\s*\(", body):
        if m.group(1) in MUTATORS:
            # the object expression ends right before the `.`
            j = m.start()
            i = j - 1
            depth = 0
            while i >= 0 and (body[i].isalnum() or body[i] in "_]." or depth > 0 or body[i] == "["):
                if body[i] == "]":
                    depth += 1
                elif body[i] == "[":
                    depth -= 1
                i -= 1
            base, idx = lhs_info(body[i + 1:j])
            writes.append((base, idx, "." + m.group(1) + "()"))
    for fn, pos in DEST_LAST.items():
        for m in re.finditer(re.escape(fn) + r"\s*\(", body):
            q = match_close(body, m.end() - 1, "(", ")")
            args = split_args(body[m.end():q])
            dst = args[pos] if pos is not None and pos < len(args) else (args[2] if len(args) > 2 else "")
            sl = parse_slots(dst)
            if sl:
                writes.append((sl[0][0], sl[0][1], fn))
            else:
                mm = re.match(r"\s*&?\s*\(?\s*([A-Za-z_]\w*)", dst)
                if mm:
                    writes.append((mm.group(1), None, fn))
    # non-const pointers / handles initialised from a slot can write that slot
    for m in re.finditer(r"(?:^|(?<=[;{})]))\s*((?:const\s+)?[A-Za-z_][\w:]*(?:\s+const)?)\s*(\*?)\s*([A-Za-z_]\w*)\s*=\s*([^;]+)(?=;)", body):
        ty, star, name, init = m.groups()
        if "const" in ty or not (star or ty == "auto"):
            continue
        for base, groups, a_, b_ in parse_slots(init):
            if a_ <= 3 or init[:a_].strip(" &(") == "":
                writes.append((base, groups, "pointer " + name))
    # slots handed to calls as arguments (possible output arguments)
    for base, groups, a_, b_ in parse_slots(body):
        before = body[:a_].rstrip()
        after = body[b_:].lstrip()
        if before.endswith(("(", ",", "&", "&(")) and after[:1] in (",", ")"):
            # a call argument (not a condition / subscript expression)
            k = before.rstrip("&( ")
            if re.search(r"[A-Za-z_>\]]$", k) or before.endswith(","):
                writes.append((base, groups, "argument"))
    if len([w for w in writes if w[2].startswith("assignment")]) == 1 and \
            re.search(r"\[\s*%s\s*\]\s*\+=\s*\w+\s*\[\s*%s\s*\+\s*stride\s*\]" % (h["var"], h["var"]), squeeze(body)) and \
            re.search(r"if\s*\(\s*%s\s*\+\s*stride\s*<" % h["var"], body):
        return "UnionTree", "S[i] += S[i + stride] for i < stride: slots i and i + stride are touched by iteration i only"
    shared_plain, indirect = [], []
    written = {}
    for base, idx, how in writes:
        root = re.split(r"\.|->|\[", base)[0]
        if root in private:
            continue
        if not isinstance(idx, list):
            shared_plain.append("%s (%s)" % (squeeze(base)[:40], how))
            continue
        first = idx[0]
        if not mentions(first, owned_by):
            if how == "argument":
                continue        # a slot that does not depend on the iteration, passed to a call: read-only input by assumption
            shared_plain.append("%s[%s] (%s; the index does not depend on the iteration of the work-sharing loop)" % (base, first, how))
            continue
        if "[" in first or "getStrip" in first:
            indirect.append("%s[%s]" % (base, first))
        written.setdefault(base, set()).add(first)
    if shared_plain:
        return "Unmatched", "writes shared state outside critical/atomic: " + "; ".join(sorted(set(shared_plain)))[:200]
    foreign = []
    for cont, firsts in written.items():
        for base, groups, a_, b_ in parse_slots(body, container=cont):
            if groups[0] not in firsts:
                foreign.append("%s[%s]" % (cont, groups[0]))
    pin = PINNED.get((base_name, func_name))
    lines = bool(LINES_HINT.search(h["cond"]))
    if lines:
        return "LinesIndependent", ("jobs partition the index range (resortIndexes / 1-D maps); a job reads and writes only the slots of its own line: "
                                    + ", ".join(sorted(set(foreign + indirect))))[:200]
    if foreign or indirect:
        if pin:
            return pin[0], pin[1]
        what = ("reads slots of a container it writes (%s)" % ", ".join(sorted(set(foreign)))[:120]) if foreign else \
               ("writes through an index table (%s): ownership is not syntactic" % ", ".join(sorted(set(indirect)))[:120])
        return "Unmatched", what + " and the site is not pinned"
    owned = ", ".join("%s[%s]" % (c, "|".join(sorted(i))[:40]) for c, i in sorted(written.items()))
    return "ParforDisjoint", ("writes only private variables and owned slots: " + owned)[:200] if owned else "writes only private variables"


def split_args(s):
    out, depth, cur = [], 0, []
    for ch in s:
        if ch in "([{<":
            depth += 1
        elif ch in ")]}>":
            depth -= 1
        if ch == "," and depth == 0:
            out.append("".join(cur))
            cur = []
        else:
            cur.append(ch)
    out.append("".join(cur))
    return out


def classify_region(block_inner, func_text):
    private = set()
    problems = []
    todo = list(split_statements(block_inner))
    while todo:
        st = todo.pop(0)
        s = squeeze(st)
        if s.startswith("#pragma omp"):
            continue
        if s.startswith("{"):
            inner_block = st.strip()[1:-1]
            if "#pragma omp" in inner_block:
                continue
            todo = split_statements(inner_block) + todo      # a plain block: its statements are region-level statements
            continue
        names = declared_names(";" + st)
        head = re.match(r"^(if|for|while|switch)\b", s)
        if head:
            if "#pragma omp" in st:
                continue            # if/else around work-sharing loops
            # a control statement at region level may only touch private variables
            for base, idx, op, decl in find_assignments(st):
                if not decl and re.split(r"\.|->", base)[0] not in private | declared_names(st):
                    problems.append("%s %s" % (base, op))
            for m in re.finditer(r"([A-Za-z_]\w*)\s*\.\s*([A-Za-z_]\w*)\s*\(", st):
                if m.group(2) in MUTATORS and m.group(1) not in private:
                    problems.append("%s.%s()" % (m.group(1), m.group(2)))
            continue
        if names:
            private |= names
            continue
        m = re.match(r"^([A-Za-z_]\w*)\s*(?:\.|->)\s*\w+\(.*\);$", s)
        if m and m.group(1) in private:
            continue
        problems.append(s[:60])
    return private, problems


# ---------------------------------------------------------------------------------------------- scan
def scan_file(repo, rel):
    src = open(os.path.join(repo, rel), errors="replace").read()
    clean = select_openmp_branches(blank_comments_strings(src))
    base_name = os.path.basename(rel)
    sites = []
    prag = [(m.start(), m.group(0)) for m in re.finditer(r"(?m)^[ \t]*#pragma[ \t]+omp\b[^\n]*", clean)]
    regions = []      # (start, end, private names) of `parallel` blocks
    for pos, text in prag:
        line = clean.count("\n", 0, pos) + 1
        words = text.split("omp", 1)[1].strip()
        wl = re.sub(r"\s+", " ", words)
        m = re.match(r"^(parallel for|parallel|for|critical|atomic)\b\s*(.*)$", wl)
        if not m:
            raise TranslatorError("%s:%d: unknown OpenMP directive `%s`" % (rel, line, wl))
        kind, clauses = m.group(1), m.group(2).strip()
        if kind == "critical":
            if clauses and not re.match(r"^\(\s*\w+\s*\)$", clauses):
                raise TranslatorError("%s:%d: unknown clause on critical: %s" % (rel, line, clauses))
        elif kind in ("for", "parallel for"):
            if clauses and not re.match(r"^schedule\s*\(\s*(static|dynamic|guided)\s*(,\s*\d+\s*)?\)$", clauses):
                raise TranslatorError("%s:%d: unknown clause `%s` (only schedule(..) is known; reduction/collapse/nowait/private are unknown shapes)" % (rel, line, clauses))
        elif clauses:
            raise TranslatorError("%s:%d: unknown clause `%s` on %s" % (rel, line, clauses, kind))
        eol = clean.find("\n", pos)
        st_begin = skip_ws(clean, eol + 1)
        st_end = statement_end(clean, st_begin)
        stmt = clean[st_begin:st_end]
        func = enclosing_function(clean, pos)
        # text of the enclosing function (for declarations and for what happens after the region)
        fstart = max(0, clean.rfind("\n}", 0, pos))
        fend = clean.find("\n}", st_end)
        fend = len(clean) if fend < 0 else fend
        func_text = clean[fstart:fend]
        sites.append({"file": rel, "line": line, "func": func, "kind": kind, "clauses": clauses, "pos": pos, "begin": st_begin, "end": st_end,
                      "stmt": stmt, "func_text": func_text, "after": clean[st_end:fend], "base": base_name})
        if kind == "parallel":
            regions.append((st_begin, st_end))
    # classify (regions first: their private variables are needed by the loops inside)
    region_private = {}
    for s in sites:
        if s["kind"] == "parallel":
            inner = s["stmt"].strip()
            if not inner.startswith("{"):
                raise TranslatorError("%s:%d: parallel region without a block" % (s["file"], s["line"]))
            priv, problems = classify_region(inner[1:-1], s["func_text"])
            region_private[(s["begin"], s["end"])] = priv
            if problems:
                s["class"], s["note"] = "Unmatched", "statements in the parallel region that touch non-private state: " + "; ".join(problems)[:160]
            else:
                s["class"], s["note"] = "Region", "thread-private: " + ", ".join(sorted(priv))[:160]
    for s in sites:
        if base_name.startswith("gridtest"):
            s["class"], s["note"] = "TestCode", "test program, not part of the library"
            continue
        if s["kind"] == "parallel":
            continue
        encl = [(b, e) for (b, e) in region_private if b <= s["pos"] < e]
        priv = set()
        after = s["after"]
        for b, e in encl:
            priv |= region_private[(b, e)]
            fend = clean.find("\n}", e)
            after = clean[e:(len(clean) if fend < 0 else fend)]
        if s["kind"] == "for" and not encl:
            s["class"], s["note"] = "Unmatched", "work-sharing loop outside a parallel region"
            continue
        if s["kind"] == "critical":
            inner = s["stmt"].strip()
            inner = inner[1:-1] if inner.startswith("{") else inner
            # thread-private also: variables declared in an enclosing parallel-for body
            for t in sites:
                if t["kind"] in ("for", "parallel for") and t["begin"] <= s["pos"] < t["end"]:
                    priv = priv | declared_names(t["stmt"])
            s["class"], s["note"] = classify_critical(inner, after, s["func_text"], priv)
            if s["class"] == "Unmatched" and not encl:
                # critical inside a `parallel for` body: private = declared in that body
                pf = [t for t in sites if t["kind"] == "parallel for" and t["begin"] <= s["pos"] < t["end"]]
                if pf:
                    s["class"], s["note"] = classify_critical(inner, clean[pf[-1]["end"]:pf[-1]["end"] + len(pf[-1]["after"])], s["func_text"],
                                                              declared_names(pf[-1]["stmt"]))
        elif s["kind"] == "atomic":
            s["class"], s["note"] = classify_atomic(s["stmt"], s["func_text"])
        else:
            # nested critical/atomic blocks are judged on their own: blank them in the loop body
            stmt = s["stmt"]
            for t in sites:
                if t is not s and t["kind"] in ("critical", "atomic") and s["begin"] <= t["pos"] < s["end"]:
                    a, b = t["begin"] - s["begin"], t["end"] - s["begin"]
                    stmt = stmt[:a] + re.sub(r"[^\n]", " ", stmt[a:b]) + stmt[b:]
            s["class"], s["note"] = classify_for(stmt, priv, s["func"], base_name, s["func_text"], None)
    return sites


def collect(repo):
    files = []
    for d in DIRS:
        root = os.path.join(repo, d)
        if not os.path.isdir(root):
            raise TranslatorError("directory %s is missing" % d)
        for base, _dirs, fs in os.walk(root):
            for f in sorted(fs):
                if f.endswith(EXTS):
                    files.append(os.path.relpath(os.path.join(base, f), repo))
    sites = []
    for rel in sorted(files):
        txt = open(os.path.join(repo, rel), errors="replace").read()
        if "#pragma" in txt and re.search(r"#\s*pragma\s+omp", txt):
            sites += scan_file(repo, rel)
    if len(sites) < 20:
        raise TranslatorError("only %d OpenMP sites found: the scan is broken" % len(sites))
    return sites


KIND_COQ = {"parallel": "KParallel", "parallel for": "KParallelFor", "for": "KFor", "critical": "KCritical", "atomic": "KAtomic"}
CLASSES = ["Region", "ParforDisjoint", "LevelSweep", "LinesIndependent", "CollectSort", "CriticalMax", "CriticalArgmax", "CriticalPureCall",
           "AtomicIntSum", "UnionTree", "TestCode"]


def coq_str(s):
    return '"' + s.replace('"', "'").replace("\n", " ") + '"'


def generate(repo):
    sites = collect(repo)
    L = ["(* GENERATED by translator/ompsites.py from the working tree — do not edit.",
         "   Every `#pragma omp` of SparseGrids/, DREAM/, Addons/ with the pattern class assigned by a TEXTUAL matcher (syntactic, trusted).",
         "   Rules:"]
    doc = __doc__.split("\n")
    a = [i for i, l in enumerate(doc) if l.startswith(" directive")][0]
    b = [i for i, l in enumerate(doc) if l.startswith("usage:")][0] - 1
    for line in doc[a:b]:
        L.append("   " + line.replace("(*", "( *").replace("*)", "* )"))
    L.append("   Pinned sites (loops that read slots of a container they write):")
    for (f, fn), (c, why) in sorted(PINNED.items()):
        L.append("     %s %s -> %s: %s" % (f, fn, c, why))
    L.append("*)")
    L.append("From TV Require Import Common.Prelude Model.OmpPatterns.")
    L.append("From Coq Require Import String.")
    L.append("Local Open Scope string_scope.")
    L.append("")
    L.append("Definition sites : list site := [")
    rows = []
    for s in sites:
        cls = ("C" + s["class"]) if s["class"] != "Unmatched" else "CUnmatched"
        rows.append("  mkSite %s %d %s %s %s %s" % (coq_str(s["file"]), s["line"], coq_str(s["func"]), KIND_COQ[s["kind"]], cls, coq_str(s["note"])))
    L.append(";\n".join(rows))
    L.append("].")
    text = "\n".join(L) + "\n"
    facts = [{"file": s["file"], "line": s["line"], "func": s["func"], "kind": s["kind"], "clauses": s["clauses"], "class": s["class"], "note": s["note"]}
             for s in sites]
    return text, facts


def write_if_changed(path, text):
    try:
        with open(path) as fh:
            if fh.read() == text:
                return False
    except OSError:
        pass
    os.makedirs(os.path.dirname(path), exist_ok=True)
    with open(path + ".tmp", "w") as fh:
        fh.write(text)
    os.replace(path + ".tmp", path)
    return True


def main():
    if len(sys.argv) < 3:
        print(__doc__)
        return 2
    try:
        text, facts = generate(sys.argv[1])
    except TranslatorError as e:
        print("ompsites.py: " + str(e), file=sys.stderr)
        return 2
    ch = write_if_changed(sys.argv[2], text)
    cnt = {}
    for f in facts:
        cnt[f["class"]] = cnt.get(f["class"], 0) + 1
    print("changed" if ch else "unchanged", len(facts), "sites", cnt)
    for f in facts:
        if f["class"] == "Unmatched":
            print("  UNMATCHED %s:%d %s [%s] %s" % (f["file"], f["line"], f["func"], f["kind"], f["note"]))
    return 0


if __name__ == "__main__":
    sys.exit(main())
