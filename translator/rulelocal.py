#!/usr/bin/env python3
"""translator/rulelocal.py — regenerate coq/gen/RuleLocalGen.v: a Gallina model of the INTEGER hierarchy functions of namespace
TasGrid::RuleLocal (SparseGrids/tsgRuleLocalPolynomial.hpp) and of Maths::intlog2/int2log2/int3log3 (tsgMathUtils.hpp), from the
CURRENT source.  Proofs/RuleLocalGenProofs.v proves the result equal to the hand-written Model/RuleLocal.v for all inputs.

Method: clang++ -std=c++11 -fsyntax-only -Xclang -ast-dump=json -Xclang -ast-dump-filter=<RuleLocal::|Maths::int> of a tiny
translation unit that includes the two headers; the (un-instantiated) template bodies are translated once per enumerator of
`erule` with the template parameter replaced by that enumerator.  TRUSTED translation rules (restated in the generated file):

 R1  types        int -> Z (unbounded: overflow of int is NOT modelled); bool -> bool; parameters and locals keep their names.
 R2  expressions  literals, variables, unary -, + - *; `/` -> Z.quot, `%` -> Z.rem (C truncation); `1 << k` -> 2 ^ k, `a << k` ->
                  a * 2 ^ k;  == != < <= > >= -> =? negb(=?) <? <=? (operands swapped for > >=);  && || ! -> && || negb;
                  c ? a : b -> if c then a else b;  int used as a condition -> negb (e =? 0);
                  a call of a translated Maths helper f -> g_f.
 R3  rule         `<template parameter> == erule::x` (and !=) is decided at translation time; conditions that become constant are
                  folded (if true then a else b -> a, ...);  `switch(<template parameter>)` selects the section of the enumerator
                  (or `default:`).
 R4  statements   a body is a sequence ending in `return e` on every path.  `int x = e;`, `x = e;`, `x op= e;`, `x++`, `x--` (as
                  statements) -> let x := e' in <rest> (shadowing);  `if (c) A else B; rest` -> if c then <A; rest> else <B; rest>;
                  `switch (e) { case k: ... }` -> if e =? k then <statements from that label on; rest> else ... else <default>
                  (adjacent labels are joined by ||; fall-through and `break` are followed); blocks are flattened, a name may be
                  declared only once per function.
 R5  shift loops  `while (V >>= s) { R++ | R-- | R += c | R *= c | R <<= c ... }` (s, c literals, s >= 1) runs
                  n := Z.quot (Z.log2 V) s times for V >= 0 (never ends for V < 0: outside the domain); emitted in closed form
                  R + n, R - n, R + c*n, R * c^n, R * 2^(c*n), and V := 0 afterwards.
 R6  other loops  `while (V >= c | V > c) { V /= d; simple assignments }` (literals; the test implies V >= 1; 2 <= d <= 16) and
                  `while (V-- > c) simple assignment(s) not to V` become a Fixpoint over the assigned variables with fuel FUEL
                  (a loop that runs longer is not modelled: the first kind runs <= 31 times on a 32-bit int, the second kind is
                  the 3^level loop of getNumPoints<pwc>, which overflows int after 20 rounds).
 any other statement, expression or loop shape: the translator stops with an error naming the function (exit 2).

usage: rulelocal.py <repo> <out.v> [cfgdir]     (writes only when the content changes)
"""
import hashlib
import json
import os
import re
import subprocess
import sys

FUEL = 42
FUNCS = ["getNumPoints", "getMaxNumKids", "getMaxNumParents", "getParent", "getStepParent", "getKid", "getLevel"]
HELPERS = ["intlog2", "int2log2", "int3log3"]
RULES = ["pwc", "localp", "semilocalp", "localp0", "localpb"]            # constructors of Model.RuleLocal.erule, capitalised
HEADERS = ["SparseGrids/tsgRuleLocalPolynomial.hpp", "SparseGrids/tsgMathUtils.hpp"]
KEYWORDS = set("as at cofix else end exists exists2 fix for forall fun if IF in let match mod return then using where with "
               "Type Set Prop SProp r fuel n_iter".split())
END = {"kind": "%EndSwitch"}


class TranslatorError(Exception):
    pass


def source_hash(repo):
    h = hashlib.sha256()
    for rel in HEADERS:
        with open(os.path.join(repo, rel), "rb") as fh:
            h.update(hashlib.sha256(fh.read()).digest())
    return h.hexdigest()[:16]


def clang_ast(repo, cfgdir, workdir, flt):
    os.makedirs(workdir, exist_ok=True)
    tu = os.path.join(workdir, "tu.cpp")
    with open(tu, "w") as fh:
        fh.write('#include "tsgMathUtils.hpp"\n#include "tsgRuleLocalPolynomial.hpp"\n')
    cmd = ["clang++", "-std=c++11", "-fsyntax-only", "-I" + cfgdir, "-I" + os.path.join(repo, "SparseGrids"),
           "-Xclang", "-ast-dump=json", "-Xclang", "-ast-dump-filter=" + flt, tu]
    p = subprocess.run(cmd, capture_output=True, text=True, timeout=120)
    if p.returncode != 0:
        raise TranslatorError("clang rejects the headers:\n" + p.stderr[-2000:])
    dec, i, out, txt = json.JSONDecoder(), 0, [], p.stdout.rstrip()      # a sequence of JSON objects, one per matching declaration
    while i < len(txt):
        o, i = dec.raw_decode(txt, len(txt) - len(txt[i:].lstrip()))
        out.append(o)
    return out


def strip(n):
    """drop parentheses, value-preserving implicit casts and constant-expression wrappers"""
    while n.get("kind") in ("ParenExpr", "ConstantExpr", "ExprWithCleanups") or \
            (n.get("kind") == "ImplicitCastExpr" and n.get("castKind") in ("LValueToRValue", "NoOp", "FunctionToPointerDecay")):
        n = n["inner"][0]
    return n


def atom(s):
    return s if re.fullmatch(r"[\w.']+", s) else "(" + s + ")"


class Fn:
    """translation of one function body for one value of the template parameter (rule = None for the helpers)"""

    def __init__(self, name, rule, known):
        self.name, self.rule, self.known = name, rule, known
        self.declared, self.loops, self.loopdefs = set(), {}, []
        self.where = "%s%s" % (name, "<%s>" % rule if rule else "")

    def err(self, what, n=None):
        loc = ""
        if n is not None:
            b = n.get("range", {}).get("begin", {})
            loc = " (%s, offset %s)" % (n.get("kind"), b.get("offset", b.get("spellingLoc", {}).get("offset", "?")))
        raise TranslatorError("function %s: unsupported %s%s" % (self.where, what, loc))

    def var(self, n, declare=False):
        name = n["name"] if declare else n["referencedDecl"]["name"]
        if name in KEYWORDS or name.startswith("g_") or not re.fullmatch(r"[A-Za-z_]\w*", name):
            self.err("variable name `%s`" % name, n)
        if declare:
            if name in self.declared:
                self.err("second declaration of `%s` (R4)" % name, n)
            self.declared.add(name)
        elif name not in self.declared:
            self.err("reference to `%s`, which is not a parameter or local" % name, n)
        return name

    # ------------------------------------------------------------------ expressions
    def is_rule(self, n):
        """the enumerator denoted by the template parameter / by erule::x, else None"""
        n = strip(n)
        rd = n.get("referencedDecl", {}) if n.get("kind") == "DeclRefExpr" else {}
        if rd.get("kind") == "NonTypeTemplateParmDecl":
            return self.rule if self.rule is not None else self.err("template parameter outside a template", n)
        if rd.get("kind") == "EnumConstantDecl" and rd["name"] in RULES and "erule" in n.get("type", {}).get("qualType", ""):
            return rd["name"]
        return None

    def lit(self, n):
        n = strip(n)
        return int(n["value"]) if n.get("kind") == "IntegerLiteral" else None

    def expr(self, n):
        """int-valued expression -> Gallina term of type Z"""
        n = strip(n)
        k = n.get("kind")
        if k == "IntegerLiteral":
            return n["value"]
        if k == "DeclRefExpr" and n["referencedDecl"]["kind"] in ("ParmVarDecl", "VarDecl") and n["type"]["qualType"] == "int":
            return self.var(n)
        if k == "UnaryOperator" and n["opcode"] == "-":
            return "-%d" % self.lit(n["inner"][0]) if (self.lit(n["inner"][0]) or 0) > 0 else "- " + atom(self.expr(n["inner"][0]))
        if k == "UnaryOperator" and n["opcode"] == "+":
            return self.expr(n["inner"][0])
        if k == "BinaryOperator" and n["type"]["qualType"] == "int":
            op, (a, b) = n["opcode"], n["inner"]
            if op in ("+", "-", "*"):
                return "%s %s %s" % (atom(self.expr(a)), op, atom(self.expr(b)))
            if op in ("/", "%"):
                return "%s %s %s" % ("Z.quot" if op == "/" else "Z.rem", atom(self.expr(a)), atom(self.expr(b)))
            if op == "<<":
                p = "2 ^ " + atom(self.expr(b))
                return p if self.lit(a) == 1 else "%s * (%s)" % (atom(self.expr(a)), p)
            self.err("integer operator `%s`" % op, n)
        if k == "ConditionalOperator" and n["type"]["qualType"] == "int":
            c, a, b = n["inner"]
            return self.ite(self.cond(c), lambda: self.expr(a), lambda: self.expr(b))
        if k == "CallExpr":
            f = strip(n["inner"][0])
            if f.get("kind") == "DeclRefExpr" and f["referencedDecl"]["kind"] == "FunctionDecl" and f["referencedDecl"]["name"] in self.known:
                return " ".join(["g_" + f["referencedDecl"]["name"]] + [atom(self.expr(a)) for a in n["inner"][1:]])
            self.err("call (only calls of %s are translated)" % ", ".join(sorted(self.known)), n)
        self.err("expression", n)

    def cond(self, n):
        """condition -> Gallina term of type bool ('true' / 'false' when decided at translation time)"""
        n = strip(n)
        k = n.get("kind")
        if k == "ImplicitCastExpr" and n.get("castKind") == "IntegralToBoolean":
            return "negb (%s =? 0)" % self.expr(n["inner"][0])
        if k == "CXXBoolLiteralExpr":
            return "true" if n["value"] else "false"
        if k == "UnaryOperator" and n["opcode"] == "!":
            c = self.cond(n["inner"][0])
            return {"true": "false", "false": "true"}.get(c, "negb " + atom(c))
        if k == "BinaryOperator":
            op, (a, b) = n["opcode"], n["inner"]
            if op in ("&&", "||"):
                ca = self.cond(a)
                if ca == ("false" if op == "&&" else "true"):
                    return ca
                cb = self.cond(b)        # translated even when `a` is constant, so that unknown shapes are not hidden
                if ca in ("true", "false"):
                    return cb
                if cb in ("true", "false"):   # x && true = x, x || false = x; x && false / x || true keep x (no side effects in x)
                    return ca if cb == ("true" if op == "&&" else "false") else cb
                return "%s %s %s" % (atom(ca), op, atom(cb))
            if op in ("==", "!="):
                ra, rb = self.is_rule(a), self.is_rule(b)
                if ra is not None and rb is not None:
                    return "true" if (ra == rb) == (op == "==") else "false"
                if ra is not None or rb is not None:
                    self.err("comparison of a rule with something else", n)
            if op in ("==", "!=", "<", "<=", ">", ">="):
                x, y = atom(self.expr(a)), atom(self.expr(b))
                return {"==": "%s =? %s", "!=": "negb (%s =? %s)", "<": "%s <? %s", "<=": "%s <=? %s"}[op] % (x, y) \
                    if op in ("==", "!=", "<", "<=") else {">": "%s <? %s", ">=": "%s <=? %s"}[op] % (y, x)
        self.err("condition", n)

    @staticmethod
    def ite(c, a, b):
        if c == "true":
            return a()
        if c == "false":
            return b()
        return "if %s then %s else %s" % (c, atom(a()), atom(b()))

    # ------------------------------------------------------------------ statements
    def assign(self, n):
        """assignment statement -> (variable, new value) or None"""
        n = strip(n)
        k = n.get("kind")
        if k == "UnaryOperator" and n["opcode"] in ("++", "--") and strip(n["inner"][0]).get("kind") == "DeclRefExpr":
            v = self.var(strip(n["inner"][0]))
            return v, "%s %s 1" % (v, n["opcode"][0])
        if k in ("CompoundAssignOperator", "BinaryOperator") and n["opcode"].endswith("=") and n["opcode"] not in ("==", "!=", "<=", ">=") \
                and strip(n["inner"][0]).get("kind") == "DeclRefExpr" and n["type"]["qualType"] == "int":
            v, op, e = self.var(strip(n["inner"][0])), n["opcode"][:-1], atom(self.expr(n["inner"][1]))
            if op == "":
                return v, self.expr(n["inner"][1])
            if op in ("+", "-", "*"):
                return v, "%s %s %s" % (v, op, e)
            if op in ("/", "%"):
                return v, "%s %s %s" % ("Z.quot" if op == "/" else "Z.rem", v, e)
            if op == "<<":
                return v, "%s * 2 ^ %s" % (v, e)
            self.err("assignment operator `%s=`" % op, n)
        return None

    def branch(self, stmts):
        """translate one of several alternative continuations (declarations made on it are local to it)"""
        saved = set(self.declared)
        out = self.seq(stmts)
        self.declared = saved
        return out

    def labels(self, body):
        """flatten the body of a switch: [('label', value or None) | statement]"""
        out = []
        for s in body.get("inner", []):
            while s.get("kind") in ("CaseStmt", "DefaultStmt"):
                if s["kind"] == "CaseStmt":
                    if len(s["inner"]) != 2:
                        self.err("case range", s)
                    out.append(("label", s["inner"][0]))
                    s = s["inner"][1]
                else:
                    out.append(("label", None))
                    s = s["inner"][0]
            out.append(s)
        return out

    def seq(self, stmts):
        while stmts and (isinstance(stmts[0], tuple) or stmts[0].get("kind") in ("NullStmt", "%EndSwitch")):
            stmts = stmts[1:]                                      # labels met by fall-through, `;`, end of a switch
        if not stmts:
            self.err("path that reaches the end of the function without `return`")
        s, rest = stmts[0], stmts[1:]
        k = s.get("kind")
        if k == "CompoundStmt":
            return self.seq(s.get("inner", []) + rest)
        if k == "ReturnStmt":
            return self.expr(s["inner"][0])
        if k == "BreakStmt":
            if END not in rest:
                self.err("`break` outside a switch", s)
            return self.seq(rest[rest.index(END) + 1:])
        if k == "DeclStmt":
            lets = []
            for d in s["inner"]:
                if d.get("kind") != "VarDecl" or d["type"]["qualType"] != "int" or len(d.get("inner", [])) != 1:
                    self.err("declaration (only `int x = e;`)", d)
                e = self.expr(d["inner"][0])
                lets.append("let %s := %s in " % (self.var(d, declare=True), e))
            return "".join(lets) + self.seq(rest)
        if k == "IfStmt":
            if len(s["inner"]) != (3 if s.get("hasElse") else 2):
                self.err("if with init-statement / condition variable", s)
            c = self.cond(s["inner"][0])
            return self.ite(c, lambda: self.branch([s["inner"][1]] + rest), lambda: self.branch(s["inner"][2:3] + rest))
        if k == "SwitchStmt":
            if len(s["inner"]) != 2 or s["inner"][1].get("kind") != "CompoundStmt":
                self.err("switch shape", s)
            flat = self.labels(s["inner"][1])
            if flat and not isinstance(flat[0], tuple):
                self.err("statement before the first label of a switch", s)
            rule = self.is_rule(s["inner"][0])
            groups, default, i = [], None, 0                       # groups: ([label values], index of first statement)
            while i < len(flat):
                if isinstance(flat[i], tuple):
                    vals = []
                    while i < len(flat) and isinstance(flat[i], tuple):
                        vals.append(flat[i][1])
                        i += 1
                    if None in vals:
                        default = i
                    groups.append(([v for v in vals if v is not None], i))
                else:
                    i += 1
            tail = lambda j: self.branch((flat[j:] if j is not None else []) + [END] + rest)
            if rule is not None:
                for vals, j in groups:
                    if rule in [self.is_rule(v) or self.err("case label of a rule switch", v) for v in vals]:
                        return tail(j)
                return tail(default)
            e = atom(self.expr(s["inner"][0]))
            out, close = "", 0
            for vals, j in groups:
                ks = [self.lit(v) if self.lit(v) is not None else self.err("case label", v) for v in vals]
                if not ks:
                    continue
                c = " || ".join("(%s =? %d)" % (e, kk) for kk in ks) if len(ks) > 1 else "%s =? %d" % (e, ks[0])
                out += "if %s then %s else (" % (c, atom(tail(j)))
                close += 1
            return out + tail(default) + ")" * close
        if k == "WhileStmt":
            return self.loop(s) + self.seq(rest)
        a = self.assign(s)
        if a:
            return "let %s := %s in " % a + self.seq(rest)
        self.err("statement", s)

    # ------------------------------------------------------------------ loops (R5, R6)
    def loop(self, s):
        c, body = strip(s["inner"][0]), s["inner"][1]
        bs = body.get("inner", []) if body.get("kind") == "CompoundStmt" else [body]
        asg = [self.assign(b) or self.err("loop body statement (R5/R6)", b) for b in bs]
        ci = strip(c["inner"][0]) if c.get("kind") == "ImplicitCastExpr" and c.get("castKind") == "IntegralToBoolean" else None
        if ci is not None and ci.get("kind") == "CompoundAssignOperator" and ci["opcode"] == ">>=" and (self.lit(ci["inner"][1]) or 0) >= 1:
            v, sh = self.var(strip(ci["inner"][0])), self.lit(ci["inner"][1])                       # R5
            n = "Z.log2 " + v if sh == 1 else "Z.quot (Z.log2 %s) %d" % (v, sh)
            out = "let n_iter := %s in " % n
            for b in bs:
                b = strip(b)
                r = self.var(strip(b["inner"][0]))
                kk = self.lit(b["inner"][1]) if len(b["inner"]) > 1 else None
                if r == v or (len(b["inner"]) > 1 and kk is None):
                    self.err("shift-loop body (R5)", b)
                op = b.get("opcode")
                new = {"++": "%s + n_iter" % r, "--": "%s - n_iter" % r, "+=": "%s + %s * n_iter" % (r, kk), "-=": "%s - %s * n_iter" % (r, kk),
                       "*=": "%s * %s ^ n_iter" % (r, kk), "<<=": "%s * 2 ^ %s" % (r, "n_iter" if kk == 1 else "(%s * n_iter)" % kk)}.get(op)
                if new is None or (op in ("*=", "<<=") and kk < 0):
                    self.err("shift-loop body (R5)", b)
                out += "let %s := %s in " % (r, new)
            return out + "let %s := 0 in " % v
        post = None                                                                               # R6
        if c.get("kind") == "BinaryOperator" and c["opcode"] in (">=", ">") and (self.lit(c["inner"][1]) or 0) >= 0 \
                and self.lit(c["inner"][1]) is not None:
            lhs = strip(c["inner"][0])
            if lhs.get("kind") == "UnaryOperator" and lhs["opcode"] == "--" and lhs.get("isPostfix") and c["opcode"] == ">":
                v = self.var(strip(lhs["inner"][0]))
                post = "let %s := %s - 1 in " % (v, v)
                ok = all(a[0] != v for a in asg)
                cnd = "%d <? %s" % (self.lit(c["inner"][1]), v)
            elif lhs.get("kind") == "DeclRefExpr":
                v, cnd = self.var(lhs), self.cond(c)                   # ends only when the loop needs V >= 1 to go on
                ok = self.lit(c["inner"][1]) + (c["opcode"] == ">") >= 1 and \
                    [a for a in asg if a[0] == v] in ([(v, "Z.quot %s %d" % (v, d))] for d in range(2, 17))
            else:
                self.err("loop condition (R6)", c)
            if not ok:
                self.err("loop: no termination pattern `V /= d` or `V-- > c` (R6)", s)
        else:
            self.err("loop shape (R5/R6)", s)
        state = []
        for x in ([v] if post else []) + [a[0] for a in asg]:
            if x not in state:
                state.append(x)
        for b in bs + [c]:
            for m in re.findall(r'"referencedDecl": \{[^{}]*?"name": "(\w+)"', json.dumps(b)):
                if m not in state:
                    self.err("loop that reads `%s`, which it does not assign (R6)" % m, s)
        key = json.dumps(s, sort_keys=True)
        if key not in self.loops:
            nm = "g_%s%s_loop%d" % (self.name, "_" + self.rule.capitalize() if self.rule else "", len(self.loops) + 1)
            self.loops[key] = nm
            tup, ty = "(%s)" % ", ".join(state), " * ".join(["Z"] * len(state))
            step = (post or "") + "".join("let %s := %s in " % a for a in asg) + "%s fuel' %s" % (nm, " ".join(state))
            self.loopdefs.append("Fixpoint %s (fuel : nat) (%s : Z) : %s :=\n  match fuel with\n  | O => %s\n  | S fuel' => if %s then %s else %s%s\n  end.\n"
                                 % (nm, " ".join(state), ty, tup, cnd, step, post or "", tup))
        pat = state[0] if len(state) == 1 else "'(%s)" % ", ".join(state)
        return "let %s := %s %d %s in " % (pat, self.loops[key], FUEL, " ".join(state))


def function_decl(o, name):
    """(FunctionDecl with a body, is_template) of a top-level dump object"""
    if o.get("kind") == "FunctionDecl" and o.get("name") == name:
        return o, False
    if o.get("kind") == "FunctionTemplateDecl" and o.get("name") == name:
        tp = [c for c in o["inner"] if c.get("kind") == "NonTypeTemplateParmDecl"]
        fd = [c for c in o["inner"] if c.get("kind") == "FunctionDecl" and not any(x.get("kind") == "TemplateArgument" for x in c.get("inner", []))]
        if len(tp) == 1 and "erule" in tp[0]["type"]["qualType"] and fd:
            return fd[0], True
        raise TranslatorError("function %s: not a template over one RuleLocal::erule parameter" % name)
    return None


def translate(objs, name, known):
    found = [f for f in (function_decl(o, name) for o in objs) if f and any(c.get("kind") == "CompoundStmt" for c in f[0].get("inner", []))]
    if len(found) != 1:
        raise TranslatorError("function %s: %d definitions found (renamed, overloaded or removed?)" % (name, len(found)))
    fd, is_tmpl = found[0]
    if not fd["type"]["qualType"].startswith("int ("):
        raise TranslatorError("function %s: return type is not int (%s)" % (name, fd["type"]["qualType"]))
    params = [c for c in fd["inner"] if c.get("kind") == "ParmVarDecl"]
    body = [c for c in fd["inner"] if c.get("kind") == "CompoundStmt"][0]
    defs, arms = [], []
    for rule in (RULES if is_tmpl else [None]):
        fn = Fn(name, rule, known)
        for p in params:
            if p["type"]["qualType"] != "int":
                fn.err("parameter type " + p["type"]["qualType"], p)
            fn.var(p, declare=True)
        term = fn.seq([body])
        defs += fn.loopdefs
        arms.append((rule, term))
    ps = "".join(" (%s : Z)" % p["name"] for p in params)
    if is_tmpl:
        text = "Definition g_%s (r : erule)%s : Z :=\n  match r with\n%s  end.\n" % (
            name, ps, "".join("  | %s => %s\n" % (r.capitalize(), t) for r, t in arms))
    else:
        text = "Definition g_%s%s : Z :=\n  %s.\n" % (name, ps, arms[0][1])
    return "\n".join(defs + [text]), len(params)


def generate(repo, cfgdir, workdir):
    """-> (text of RuleLocalGen.v, facts)"""
    h = source_hash(repo)
    rl = clang_ast(repo, cfgdir, workdir, "RuleLocal::")
    mu = clang_ast(repo, cfgdir, workdir, "Maths::int")
    enum = [o for o in rl if o.get("kind") == "EnumDecl" and o.get("name") == "erule"]
    consts = [c["name"] for c in enum[0]["inner"] if c.get("kind") == "EnumConstantDecl"] if enum else None
    if consts != RULES:
        raise TranslatorError("enum RuleLocal::erule is %s, the model Model.RuleLocal.erule has %s" % (consts, RULES))
    parts, arity = [], {}
    for f in HELPERS + FUNCS:           # a helper may call the helpers before it, a RuleLocal function every helper
        t, arity[f] = translate(mu if f in HELPERS else rl, f, set(HELPERS[:HELPERS.index(f)] if f in HELPERS else HELPERS))
        parts.append((f, t))
    rules = __doc__.split("TRUSTED translation rules (restated in the generated file):")[1].split("usage:")[0].replace("FUEL", "FUEL = %d" % FUEL, 1)
    head = ("(* GENERATED by translator/rulelocal.py from the working tree — do not edit.\n"
            "   Source: clang JSON AST of %s (namespace TasGrid::RuleLocal: %s) and %s (namespace TasGrid::Maths: %s).\n"
            "   source_hash: %s   (sha256 over the two headers)\n   Translation rules (syntactic, trusted):\n%s*)\n"
            "From TV Require Import Common.Prelude Model.RuleLocal.\nLocal Open Scope Z_scope.\n\n"
            % (HEADERS[0], ", ".join(FUNCS), HEADERS[1], ", ".join(HELPERS), h, rules.rstrip() + "\n"))
    return head + "\n".join(t for _f, t in parts), {"source_hash": h, "arity": arity, "functions": HELPERS + FUNCS}


def write_if_changed(path, text):
    if os.path.exists(path) and open(path).read() == text:
        return False
    os.makedirs(os.path.dirname(path), exist_ok=True)
    with open(path, "w") as fh:
        fh.write(text)
    return True


if __name__ == "__main__":
    if len(sys.argv) < 3:
        sys.exit(__doc__)
    root = os.path.dirname(os.path.dirname(os.path.abspath(__file__)))
    sys.path.insert(0, os.path.join(root, "tools"))
    work = os.path.join(root, "_build", "work", "trl")
    cfg = sys.argv[3] if len(sys.argv) > 3 else os.path.join(work, "cfg")
    if len(sys.argv) <= 3:
        os.environ["VERIF_REPO"] = sys.argv[1]
        import vlib
        vlib.gen_config(cfg)
    try:
        text, facts = generate(sys.argv[1], cfg, work)
    except TranslatorError as e:
        print("rulelocal.py: " + str(e), file=sys.stderr)
        sys.exit(2)
    print("%s: %s (source_hash %s)" % (sys.argv[2], "written" if write_if_changed(sys.argv[2], text) else "unchanged", facts["source_hash"]))
