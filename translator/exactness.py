#!/usr/bin/env python3
"""translator/exactness.py — regenerate coq/gen/ExactnessGen.v: a Gallina model of the exactness TABLES of the one-dimensional
rules, OneDimensionalMeta::getNumPoints / getIExact / getQExact (SparseGrids/tsgCoreOneDimensional.cpp), from the CURRENT source.
The library uses these tables as the function m(level) of the combination technique (createPolynomialSpace / selectTensors with
the ip / qp types); Proofs/ExactnessProofs.v proves positivity, monotonicity and the n-1 / 2n-1 bounds of the generated functions
for every level >= 0.

Method: clang++ -std=c++11 -fsyntax-only -Xclang -ast-dump=json -Xclang -ast-dump-filter=<...> of tsgCoreOneDimensional.cpp itself
(three runs: `OneDimensionalMeta::get`, `TasGrid::TypeOneDRule`, `Maths::pow`).  Each of the three functions is translated once per
enumerator with the parameter `rule` replaced by that enumerator (the machinery of translator/rulelocal.py, class Fn, is imported
and specialised; that file is not modified).  TRUSTED translation rules (restated in the generated file):

 X1  rules        `onedrule` has one constructor, of the same name, per enumerator of enum TypeOneDRule (tsgEnumerates.hpp, in the
                  order of the enum) that occurs as a `case` label in at least one of the three switches.  The other enumerators are
                  OMITTED (they are listed below the rules in the generated file; in the current source: rule_none,
                  rule_customtabulated, the local polynomial rules, rule_wavelet — the C++ gives them the `default:` branch, which
                  "should not be called").  An included enumerator that a switch does not mention gets the `default:` branch of that
                  switch.
 X2  functions    getNumPoints / getIExact / getQExact (int level, TypeOneDRule rule) -> g_numPoints / g_iExact / g_qExact :
                  onedrule -> Z -> Z (rule first), `match r with` over the constructors.  A call f(e, <enumerator or `rule`>) of one
                  of the three functions -> (g_f_<enumerator> e'), a separate Definition holding the translation of f for that
                  enumerator, emitted before its first use; a cyclic call chain stops the translator.
 X3  powers       Maths::pow2(e) -> 2 ^ e' and Maths::pow3(e) -> 3 ^ e', after checking that the bodies of pow2 / pow3 in
                  tsgMathUtils.hpp have exactly the expected syntax tree (`return (1 << p);` / the loop `result *= 3` run p times)
                  and that the call is spelled Maths::pow2 / Maths::pow3.  Equal for e >= 0 as long as int does not overflow
                  (e < 0: 2 ^ e = 3 ^ e = 0 in Z, the shift is undefined and the loop gives 1 in C++: outside the domain).
 R1  types        int -> Z (unbounded: overflow of int is NOT modelled); bool -> bool; parameters and locals keep their names.
 R2  expressions  literals, variables, unary -, + - *; `/` -> Z.quot, `%` -> Z.rem (C truncation); `1 << k` -> 2 ^ k, `a << k` ->
                  a * 2 ^ k;  == != < <= > >= -> =? negb(=?) <? <=? (operands swapped for > >=);  && || ! -> && || negb;
                  c ? a : b -> if c then a else b;  int used as a condition -> negb (e =? 0).
 R3  rule         `rule == rule_x` (and !=) is decided at translation time; conditions that become constant are folded;
                  `switch (rule)` selects the section of the enumerator (or `default:`), fall-through and `break` are followed.
 R4  statements   a body is a sequence ending in `return e` on every path.  `int x = e;`, `x = e;`, `x op= e;`, `x++`, `x--` (as
                  statements) -> let x := e' in <rest> (shadowing);  `int x;` declares x without a value (a read before the first
                  assignment on the path stops the translator);  `if (c) A else B; rest` -> if c then <A; rest> else <B; rest>;
                  `switch (e) { case k: ... }` on an int -> nested if; blocks are flattened, a name may be declared only once.
 loops            none are expected; the loop shapes R5/R6 of translator/rulelocal.py would be accepted, any other statement,
                  expression or loop shape stops the translator with an error naming the function and the rule (exit 2).

usage: exactness.py <repo> <out.v> [cfgdir]     (writes only when the content changes)
"""
import hashlib
import json
import os
import re
import subprocess
import sys

sys.path.insert(0, os.path.dirname(os.path.abspath(__file__)))
import rulelocal as RL  # noqa: E402
from rulelocal import TranslatorError, atom, strip, write_if_changed  # noqa: E402,F401

FUNCS = ["getNumPoints", "getIExact", "getQExact"]
GNAME = {"getNumPoints": "g_numPoints", "getIExact": "g_iExact", "getQExact": "g_qExact"}
SOURCES = ["SparseGrids/tsgCoreOneDimensional.cpp", "SparseGrids/tsgEnumerates.hpp", "SparseGrids/tsgMathUtils.hpp"]
CPP = SOURCES[0]
RESERVED = {"onedrule", "all_rules", "level_t"}
# expected syntax trees of the power helpers (X3)
POW_SKELETON = {
    "pow2": "CompoundStmt(ReturnStmt(BinaryOperator:<<(IntegerLiteral=1,DeclRefExpr@p)))",
    "pow3": "CompoundStmt(DeclStmt(VarDecl#result(IntegerLiteral=1)),"
            "ForStmt(DeclStmt(VarDecl#i(IntegerLiteral=0)),_,BinaryOperator:<(DeclRefExpr@i,DeclRefExpr@p),UnaryOperator:++post(DeclRefExpr@i),"
            "CompoundAssignOperator:*=(DeclRefExpr@result,IntegerLiteral=3)),ReturnStmt(DeclRefExpr@result))",
}
POW_BASE = {"pow2": 2, "pow3": 3}


def source_hash(repo):
    h = hashlib.sha256()
    for rel in SOURCES:
        with open(os.path.join(repo, rel), "rb") as fh:
            h.update(hashlib.sha256(fh.read()).digest())
    return h.hexdigest()[:16]


def clang_ast(repo, cfgdir, flt):
    cmd = ["clang++", "-std=c++11", "-fsyntax-only", "-I" + cfgdir, "-I" + os.path.join(repo, "SparseGrids"),
           "-Xclang", "-ast-dump=json", "-Xclang", "-ast-dump-filter=" + flt, os.path.join(repo, CPP)]
    p = subprocess.run(cmd, capture_output=True, text=True, timeout=180)
    if p.returncode != 0:
        raise TranslatorError("clang rejects %s:\n%s" % (CPP, p.stderr[-2000:]))
    dec, i, out, txt = json.JSONDecoder(), 0, [], p.stdout.rstrip()
    while i < len(txt):
        o, i = dec.raw_decode(txt, len(txt) - len(txt[i:].lstrip()))
        out.append(o)
    return out


def skeleton(n):
    """syntax tree of a statement as a string: kinds, operators, literal values, names (parentheses and value-preserving casts dropped)"""
    if not n or "kind" not in n:
        return "_"
    n = strip(n)
    k, s = n["kind"], n["kind"]
    if k in ("BinaryOperator", "CompoundAssignOperator"):
        s += ":" + n["opcode"]
    elif k == "UnaryOperator":
        s += ":" + n["opcode"] + ("post" if n.get("isPostfix") else "pre")
    elif k == "IntegerLiteral":
        s += "=" + n["value"]
    elif k == "DeclRefExpr":
        s += "@" + n["referencedDecl"].get("name", "?")
    elif k in ("VarDecl", "ParmVarDecl"):
        s += "#" + n.get("name", "?")
        if n.get("type", {}).get("qualType") != "int":
            s += ":" + n.get("type", {}).get("qualType", "?")
    kids = n.get("inner", [])
    return s + ("(" + ",".join(skeleton(c) for c in kids) + ")" if kids else "")


def body_of(fd):
    b = [c for c in fd.get("inner", []) if c.get("kind") == "CompoundStmt"]
    return b[0] if b else None


def check_powers(objs):
    for name, want in POW_SKELETON.items():
        fds = [o for o in objs if o.get("kind") == "FunctionDecl" and o.get("name") == name and body_of(o) is not None]
        if len(fds) != 1:
            raise TranslatorError("Maths::%s: %d definitions found (X3)" % (name, len(fds)))
        fd = fds[0]
        ps = [c for c in fd["inner"] if c.get("kind") == "ParmVarDecl"]
        if fd["type"]["qualType"] != "int (int)" or len(ps) != 1 or ps[0].get("name") != "p":
            raise TranslatorError("Maths::%s: signature is `%s`, expected int (int p) (X3)" % (name, fd["type"]["qualType"]))
        got = skeleton(body_of(fd))
        if got != want:
            raise TranslatorError("Maths::%s: the body is no longer the expected one, %d ^ p is not justified (X3)\n  expected %s\n  found    %s"
                                  % (name, POW_BASE[name], want, got))


class Tr:
    """the three tables of one source tree"""

    def __init__(self, repo, cfgdir):
        self.repo = repo
        with open(os.path.join(repo, CPP), "rb") as fh:
            self.src = fh.read()
        check_powers(clang_ast(repo, cfgdir, "Maths::pow"))
        en = [o for o in clang_ast(repo, cfgdir, "TasGrid::TypeOneDRule") if o.get("kind") == "EnumDecl" and o.get("name") == "TypeOneDRule"]
        if len(en) != 1:
            raise TranslatorError("enum TasGrid::TypeOneDRule: %d definitions found" % len(en))
        self.enumerators = [c["name"] for c in en[0]["inner"] if c.get("kind") == "EnumConstantDecl"]
        bad = [e for e in self.enumerators if not re.fullmatch(r"rule_[a-z0-9]+", e)]
        if bad or len(set(self.enumerators)) != len(self.enumerators):
            raise TranslatorError("enum TypeOneDRule: unexpected enumerator name(s) %s (X1 wants rule_<lower case>)" % bad)
        objs = clang_ast(repo, cfgdir, "OneDimensionalMeta::get")
        self.fd = {}
        for f in FUNCS:
            fds = [o for o in objs if o.get("kind") == "FunctionDecl" and o.get("name") == f and body_of(o) is not None]
            if len(fds) != 1:
                raise TranslatorError("function %s: %d definitions found (renamed, overloaded or removed?)" % (f, len(fds)))
            fd = fds[0]
            ps = [c for c in fd["inner"] if c.get("kind") == "ParmVarDecl"]
            if fd["type"]["qualType"] != "int (int, TasGrid::TypeOneDRule)" or len(ps) != 2 or not ps[0].get("name") or not ps[1].get("name"):
                raise TranslatorError("function %s: signature is `%s`, expected int (int level, TypeOneDRule rule) (X2)" % (f, fd["type"]["qualType"]))
            self.fd[f] = (fd, ps[0], ps[1])
        # X1: the enumerators mentioned as case labels
        mentioned = set()
        for f in FUNCS:
            self._labels(body_of(self.fd[f][0]), mentioned)
        self.rules = [e for e in self.enumerators if e in mentioned]
        self.omitted = [e for e in self.enumerators if e not in mentioned]
        if not self.rules:
            raise TranslatorError("no `case rule_x:` label found in the three switches")
        self.aux, self.aux_order, self.active = {}, [], []

    def _labels(self, n, acc):
        if isinstance(n, dict):
            if n.get("kind") == "CaseStmt" and n.get("inner"):
                for m in re.findall(r'"kind": "EnumConstantDecl", "name": "(\w+)"', json.dumps(n["inner"][0])):
                    if m in self.enumerators:
                        acc.add(m)
            for c in n.get("inner", []):
                self._labels(c, acc)

    def text_at(self, n):
        """source text of a node of the main file (None when it is not plainly located there)"""
        r = n.get("range", {})
        b, e = r.get("begin", {}), r.get("end", {})
        if "offset" not in b or "offset" not in e or "tokLen" not in e:
            return None
        return self.src[b["offset"]:e["offset"] + e["tokLen"]].decode(errors="replace")

    def body(self, f, rule):
        fd, plevel, prule = self.fd[f]
        fn = XFn(f, rule, self, prule["name"])
        fn.var(plevel, declare=True)
        return fn.seq([body_of(fd)]), fn, plevel["name"]

    def need(self, f, rule, caller):
        """name of the Definition holding the translation of f for one enumerator (X2)"""
        key = (f, rule)
        if key in self.active:
            raise TranslatorError("function %s: cyclic call chain %s (X2)" % (caller, " -> ".join("%s[%s]" % k for k in self.active + [key])))
        if key not in self.aux:
            self.active.append(key)
            term, fn, lv = self.body(f, rule)
            self.active.pop()
            if fn.loopdefs:
                raise TranslatorError("function %s[%s]: loop in a called table function (X2)" % key)
            name = "%s_%s" % (GNAME[f], rule[len("rule_"):])
            self.aux[key] = (name, "Definition %s (%s : Z) : Z :=\n  %s.\n" % (name, lv, term))
            self.aux_order.append(key)
        return self.aux[key][0]


def rstrip_cast(n):
    """strip, and the integral promotion of an enumeration value (only used where the result must denote a rule)"""
    n = strip(n)
    while n.get("kind") == "ImplicitCastExpr" and n.get("castKind") == "IntegralCast":
        n = strip(n["inner"][0])
    return n


class XFn(RL.Fn):
    """translation of one table function for one enumerator"""

    def __init__(self, name, rule, tr, rule_param):
        super().__init__(name, rule, set())
        self.tr, self.rule_param, self.uninit = tr, rule_param, set()
        self.where = "%s[%s]" % (name, rule)

    def var(self, n, declare=False):
        name = n["name"] if declare else n["referencedDecl"]["name"]
        if name in RESERVED or name.startswith("rule_"):
            self.err("variable name `%s`" % name, n)
        return super().var(n, declare)

    def is_rule(self, n):
        n = rstrip_cast(n)
        if n.get("kind") != "DeclRefExpr" or "TypeOneDRule" not in n.get("type", {}).get("qualType", ""):
            return None
        rd = n["referencedDecl"]
        if rd.get("kind") == "ParmVarDecl" and rd.get("name") == self.rule_param:
            return self.rule
        if rd.get("kind") == "EnumConstantDecl":
            if rd["name"] not in self.tr.enumerators:
                self.err("enumerator `%s`, which enum TypeOneDRule does not have" % rd["name"], n)
            return rd["name"]
        self.err("value of type TypeOneDRule that is neither the parameter nor an enumerator", n)

    def expr(self, n):
        s = strip(n)
        k = s.get("kind")
        if k == "DeclRefExpr" and s["referencedDecl"].get("name") in self.uninit:
            self.err("read of `%s` before its first assignment (R4)" % s["referencedDecl"]["name"], s)
        if k == "CallExpr":
            f = strip(s["inner"][0])
            rd = f.get("referencedDecl", {}) if f.get("kind") == "DeclRefExpr" else {}
            name, args = rd.get("name"), s["inner"][1:]
            if rd.get("kind") == "FunctionDecl" and name in POW_BASE and len(args) == 1 and f["type"]["qualType"] == "int (int)":
                spelled = (self.tr.text_at(f) or "").replace(" ", "")
                if spelled not in ("Maths::" + name, "TasGrid::Maths::" + name):
                    self.err("call of `%s`, spelled `%s`: only Maths::%s is translated (X3)" % (name, spelled, name), s)
                return "%d ^ %s" % (POW_BASE[name], atom(self.expr(args[0])))
            if rd.get("kind") == "FunctionDecl" and name in FUNCS and len(args) == 2 and f["type"]["qualType"] == "int (int, TasGrid::TypeOneDRule)":
                spelled = (self.tr.text_at(f) or "").replace(" ", "")
                if spelled not in (name, "OneDimensionalMeta::" + name, "TasGrid::OneDimensionalMeta::" + name):
                    self.err("call of `%s`, spelled `%s` (X2)" % (name, spelled), s)
                r = self.is_rule(args[1])
                if r is None:
                    self.err("call of %s whose rule argument is not an enumerator or the parameter (X2)" % name, s)
                if r not in self.tr.rules:
                    self.err("call of %s for the omitted enumerator %s (X1/X2)" % (name, r), s)
                return "%s %s" % (self.tr.need(name, r, self.where), atom(self.expr(args[0])))
            self.err("call (only Maths::pow2, Maths::pow3 and the three table functions are translated)", s)
        return super().expr(n)

    def assign(self, n):
        s = strip(n)
        if s.get("kind") == "BinaryOperator" and s.get("opcode") == "=" and strip(s["inner"][0]).get("kind") == "DeclRefExpr":
            nm = strip(s["inner"][0])["referencedDecl"].get("name")
            if nm in self.uninit:
                if s["type"]["qualType"] != "int":
                    self.err("assignment", s)
                e = self.expr(s["inner"][1])          # a read of the variable itself is still an error here
                self.uninit.discard(nm)
                return self.var(strip(s["inner"][0])), e
        elif s.get("kind") in ("CompoundAssignOperator", "UnaryOperator") and s.get("inner") and strip(s["inner"][0]).get("kind") == "DeclRefExpr" \
                and strip(s["inner"][0])["referencedDecl"].get("name") in self.uninit:
            self.err("update of `%s` before its first assignment (R4)" % strip(s["inner"][0])["referencedDecl"]["name"], s)
        return super().assign(n)

    def branch(self, stmts):
        saved = set(self.uninit)
        out = super().branch(stmts)
        self.uninit = saved
        return out

    def seq(self, stmts):
        if stmts and not isinstance(stmts[0], tuple) and stmts[0].get("kind") == "DeclStmt" and \
                any(d.get("kind") == "VarDecl" and not d.get("inner") for d in stmts[0].get("inner", [])):
            lets = []
            for d in stmts[0]["inner"]:
                if d.get("kind") != "VarDecl" or d["type"]["qualType"] != "int" or len(d.get("inner", [])) > 1 or \
                        (d.get("inner") and d.get("init") != "c"):
                    self.err("declaration (only `int x = e;` and `int x;`)", d)
                if d.get("inner"):
                    e = self.expr(d["inner"][0])
                    lets.append("let %s := %s in " % (self.var(d, declare=True), e))
                else:
                    self.uninit.add(self.var(d, declare=True))
            return "".join(lets) + self.seq(stmts[1:])
        return super().seq(stmts)


def generate(repo, cfgdir, workdir=None):
    """-> (text of ExactnessGen.v, facts)"""
    h = source_hash(repo)
    tr = Tr(repo, cfgdir)
    mains = []
    for f in FUNCS:
        arms, lv = [], None
        for rule in tr.rules:
            if (f, rule) in tr.aux:
                lv = lv or tr.fd[f][1]["name"]
                arms.append((rule, "%s %s" % (tr.aux[(f, rule)][0], tr.fd[f][1]["name"])))
                continue
            term, fn, lv = tr.body(f, rule)
            if fn.loopdefs:
                raise TranslatorError("function %s[%s]: loop in a table function" % (f, rule))
            arms.append((rule, term))
        mains.append((f, lv, arms))
    # a function translated as a whole before one of its enumerators was requested as an auxiliary definition: use the definition
    out = []
    for f, lv, arms in mains:
        arms = [(r, ("%s %s" % (tr.aux[(f, r)][0], lv)) if (f, r) in tr.aux else t) for r, t in arms]
        out.append("Definition %s (r : onedrule) (%s : Z) : Z :=\n  match r with\n%s  end.\n"
                   % (GNAME[f], lv, "".join("  | %s => %s\n" % a for a in arms)))
    rules = __doc__.split("TRUSTED translation rules (restated in the generated file):")[1].split("usage:")[0]
    wrap = lambda names: "\n".join("     " + ", ".join(names[i:i + 8]) for i in range(0, len(names), 8))  # noqa: E731
    head = ("(* GENERATED by translator/exactness.py from the working tree — do not edit.\n"
            "   Source: clang JSON AST of %s (OneDimensionalMeta::%s), enum TypeOneDRule of %s, Maths::pow2 / pow3 of %s.\n"
            "   source_hash: %s   (sha256 over the three files)\n   Translation rules (syntactic, trusted):\n%s\n"
            "   Enumerators of TypeOneDRule OMITTED (no case label in any of the three switches; X1):\n%s\n*)\n"
            "From TV Require Import Common.Prelude.\nLocal Open Scope Z_scope.\n\n"
            % (CPP, ", ".join(FUNCS), SOURCES[1], SOURCES[2], h, rules.rstrip(), wrap(tr.omitted) or "     (none)"))
    ind = "Inductive onedrule : Set :=\n%s.\n\nDefinition all_rules : list onedrule :=\n  [%s].\n" % (
        "\n".join("  | " + r for r in tr.rules), ";\n   ".join("; ".join(tr.rules[i:i + 6]) for i in range(0, len(tr.rules), 6)))
    auxs = [tr.aux[k][1] for k in tr.aux_order]
    facts = {"source_hash": h, "rules": tr.rules, "omitted": tr.omitted, "aux": [tr.aux[k][0] for k in tr.aux_order],
             "level_param": {f: tr.fd[f][1]["name"] for f in FUNCS}}
    return head + "\n".join([ind] + auxs + out), facts


if __name__ == "__main__":
    if len(sys.argv) < 3:
        sys.exit(__doc__)
    root = os.path.dirname(os.path.dirname(os.path.abspath(__file__)))
    sys.path.insert(0, os.path.join(root, "tools"))
    work = os.path.join(root, "_build", "work", "exact")
    cfg = sys.argv[3] if len(sys.argv) > 3 else os.path.join(work, "cfg-cli")
    if len(sys.argv) <= 3:
        os.environ["VERIF_REPO"] = sys.argv[1]
        import vlib
        vlib.gen_config(cfg)
    try:
        text, facts = generate(sys.argv[1], cfg, work)
    except TranslatorError as e:
        print("exactness.py: " + str(e), file=sys.stderr)
        sys.exit(2)
    print("%s: %s (source_hash %s, %d rules, %d omitted)" % (sys.argv[2], "written" if write_if_changed(sys.argv[2], text) else "unchanged",
                                                              facts["source_hash"], len(facts["rules"]), len(facts["omitted"])))
