#!/usr/bin/env python3
"""translator/clitable.py — regenerate coq/gen/CliTable.v from the CURRENT source of the tasgrid tool (C16).

Reads   <repo>/Tasgrid/tasgridWrapper.hpp   enum TypeCommand
        <repo>/Tasgrid/tasgridWrapper.cpp   TasgridWrapper::hasCommand (switch string -> command, source order),
                                            checkSane, checkSanePostRead (requirements per command),
                                            executeCommand (make/quadrature/const lists, dispatch, output section)
        <repo>/Tasgrid/tasgrid_main.cpp     the option chain of main() and the generic help table
        <repo>/SparseGrids/tsgIOHelpers.hpp rule / depth-type / refinement-type strings
and emits Gallina *data* (no functions, no proofs).  The translator is purely syntactic.  Every statement of the
functions it reads must match one of the shapes listed below, otherwise it raises TranslatorError: it never guesses.
Conditions that depend on more than the command (rule class, order, alpha/beta ...) are *pinned*: their normalised
text must equal the text recorded in PINNED_* below (the hand-written model Model/Cli.v implements exactly these).

usage: clitable.py <repo> <out.v>      (writes the file only when its content changes; exit 2 on shape errors)
"""
import os
import re
import sys


class TranslatorError(Exception):
    pass


def strip_comments(src):
    out, i, n = [], 0, len(src)
    while i < n:
        if src.startswith("//", i):
            j = src.find("\n", i)
            i = n if j < 0 else j
        elif src.startswith("/*", i):
            j = src.find("*/", i)
            i = n if j < 0 else j + 2
        elif src.startswith('R"help(', i):
            j = src.find(')help"', i)
            if j < 0:
                raise TranslatorError("unterminated raw string")
            out.append(src[i:j + 6])
            i = j + 6
        elif src[i] == '"':
            j = i + 1
            while j < n and src[j] != '"':
                j += 2 if src[j] == "\\" else 1
            out.append(src[i:j + 1])
            i = j + 1
        else:
            out.append(src[i])
            i += 1
    return "".join(out)


def norm(s):
    s = re.sub(r"\s+", " ", s).strip()
    s = re.sub(r"\s*([(){},;])\s*", r"\1", s)
    return s


def balanced(src, start, open_ch="(", close_ch=")"):
    """src[start] == open_ch; returns index one past the matching close (string literals are skipped)"""
    assert src[start] == open_ch, (src[start:start + 20], open_ch)
    depth, i, n = 0, start, len(src)
    while i < n:
        c = src[i]
        if c == '"':
            i += 1
            while i < n and src[i] != '"':
                i += 2 if src[i] == "\\" else 1
        elif c == open_ch:
            depth += 1
        elif c == close_ch:
            depth -= 1
            if depth == 0:
                return i + 1
        i += 1
    raise TranslatorError("unbalanced %s at %d" % (open_ch, start))


def function_body(src, header_re, what):
    m = re.search(header_re, src)
    if not m:
        raise TranslatorError("cannot find " + what)
    b = src.index("{", m.end() - 1)
    e = balanced(src, b, "{", "}")
    return src[b + 1:e - 1]


def split_top(s, sep=",", angle=True):
    """split at top-level separators (not inside () {} <> or strings)"""
    out, depth, cur, i = [], 0, [], 0
    while i < len(s):
        c = s[i]
        if c == '"':
            j = i + 1
            while s[j] != '"':
                j += 2 if s[j] == "\\" else 1
            cur.append(s[i:j + 1])
            i = j + 1
            continue
        if c in "({" or (angle and c == "<"):
            depth += 1
        elif c in ")}" or (angle and c == ">"):
            depth -= 1
        if c == sep and depth == 0:
            out.append("".join(cur))
            cur = []
        else:
            cur.append(c)
        i += 1
    out.append("".join(cur))
    return [x.strip() for x in out]


# ------------------------------------------------------------------------------------------------
def parse_enum(hpp):
    m = re.search(r"enum\s+TypeCommand\s*\{([^}]*)\}", hpp)
    if not m:
        raise TranslatorError("enum TypeCommand not found")
    names = [x.strip() for x in m.group(1).split(",") if x.strip()]
    for x in names:
        if not re.fullmatch(r"command_\w+", x):
            raise TranslatorError("unexpected enumerator " + x)
    if names[0] != "command_none":
        raise TranslatorError("first enumerator must be command_none")
    return names[1:]


def parse_switch_table(cpp, commands):
    body = function_body(cpp, r"TypeCommand\s+TasgridWrapper::hasCommand\s*\([^)]*\)\s*\{", "hasCommand")
    m = re.search(r"std::map<std::string,\s*TypeCommand>\s+commands\s*=\s*\{", body)
    if not m:
        raise TranslatorError("hasCommand: map initialiser not found")
    b = m.end() - 1
    e = balanced(body, b, "{", "}")
    items = split_top(body[b + 1:e - 1])
    table = []
    for it in items:
        mm = re.fullmatch(r'\{\s*"([^"]+)"\s*,\s*(command_\w+)\s*\}', it)
        if not mm:
            raise TranslatorError("hasCommand: entry of unknown shape: " + it)
        if mm.group(2) not in commands:
            raise TranslatorError("hasCommand: unknown command " + mm.group(2))
        table.append((mm.group(1), mm.group(2)))
    rest = norm(body[e:])
    if rest != norm("; try{ return commands.at(s); }catch(std::out_of_range &){ return command_none; }"):
        raise TranslatorError("hasCommand: lookup is not commands.at(s)/command_none: " + rest)
    return table


def carr_list(txt, named, commands):
    """'CArr<3>{a,b,c}' | 'std::array<TypeCommand, 4>{...}' | a name in `named` -> list of commands"""
    txt = txt.strip()
    if txt in named:
        return list(named[txt])
    m = re.fullmatch(r"(?:CArr<(\d+)>|std::array<TypeCommand,\s*(\d+)>)\{(.*)\}", txt)
    if not m:
        raise TranslatorError("not a command list: " + txt)
    n = int(m.group(1) or m.group(2))
    xs = [x.strip() for x in m.group(3).split(",") if x.strip()]
    if len(xs) != n:
        raise TranslatorError("command list length %d differs from declared %d: %s" % (len(xs), n, txt))
    for x in xs:
        if x not in commands:
            raise TranslatorError("unknown command in list: " + x)
    return xs


def inside_lists(txt, named, commands):
    """'com.inside(A)' or 'com.inside(A,B)' -> concatenated list"""
    m = re.fullmatch(r"com\.inside\((.*)\)", txt.strip())
    if not m:
        raise TranslatorError("not a com.inside(...): " + txt)
    out = []
    for part in split_top(m.group(1)):
        out += carr_list(part, named, commands)
    return out


def statements_fail_if(body):
    """all test.fail_if(cond, msg) calls of a body, in order: (cond_text, position)"""
    out = []
    for m in re.finditer(r"test\.fail_if\s*\(", body):
        b = m.end() - 1
        e = balanced(body, b)
        args = split_top(body[b + 1:e - 1], angle=False)
        if len(args) != 2:
            raise TranslatorError("fail_if with %d arguments" % len(args))
        out.append((norm(args[0]), m.start()))
    return out


# simple requirement atoms of checkSane:  <atom> and com.inside(...)
ATOMS = [
    ("num_dimensions < 1", "ReqDimensions"),
    ("num_outputs < 1", "ReqOutputsPositive"),
    ("num_outputs < 0", "ReqOutputs"),
    ("depth < 0", "ReqDepth"),
    ("rule == rule_none", "ReqRule"),
    ("gridfilename.empty() and outfilename.empty() and not printCout", "ReqSomeOutput"),
    ("outfilename.empty() and not printCout", "ReqOutfileOrPrint"),
    ("xfilename.empty()", "ReqXfile"),
    ("valsfilename.empty()", "ReqValsfile"),
]
REQS = ["ReqDimensions", "ReqOutputsPositive", "ReqOutputs", "ReqDepth", "ReqDepthType", "ReqRule", "ReqSomeOutput",
        "ReqOutfileOrPrint", "ReqGridfile", "ReqXfile", "ReqValsfile", "ReqConformalType", "ReqConformalFile",
        "ReqShift", "ReqWeightfile", "ReqDescription"]

# conditions of checkSane that involve more than the command; Model/Cli.v implements exactly these (in this order)
PINNED_SANE = [
    "order < -1 and(command == command_makelocalp or(command == command_makequadrature and OneDimensionalMeta::isLocalPolynomial(rule)))",
    "order != 1 and order != 3 and(command == command_makewavelet or(command == command_makequadrature and OneDimensionalMeta::isWavelet(rule)))",
    "not set_alpha and needs_alpha",
    "not set_beta and needs_beta",
    "customfilename.empty() and rule == rule_customtabulated",
    "conformalfilename.empty() and conformal != conformal_none",
]
PINNED_SANE_DEPTHTYPE_TAIL = ("(command == command_makequadrature and(OneDimensionalMeta::isGlobal(rule) or "
                              "OneDimensionalMeta::isFourier(rule)))")
PINNED_ALPHA = norm("""bool needs_alpha = (rule == rule_gaussgegenbauer or rule == rule_gausslaguerre or rule == rule_gausshermite or
                            rule == rule_gaussgegenbauerodd or rule == rule_gausshermiteodd or rule == rule_gaussjacobi);
        bool needs_beta = (rule == rule_gaussjacobi);""")
PINNED_SANE_SWITCH = {
    "command_makeglobal": ["not OneDimensionalMeta::isGlobal(rule)"],
    "command_makesequence": ["not OneDimensionalMeta::isSequence(rule)"],
    "command_makelocalp": ["not OneDimensionalMeta::isLocalPolynomial(rule)"],
    "command_makeexoquad": ["not set_shift", "weightfilename.empty()", "description.empty()"],
    "command_getpoly": ["depth_type == type_level or depth_type == type_curved or depth_type == type_hyperbolic"],
}
# checkSanePostRead: two generic lists + pinned conditions (in source order, generic ones marked by a tag)
PINNED_POST = [
    "@loaded",
    "@outputs",
    "ref_output >= grid.getNumOutputs() and com.inside(CArr<1>{command_getanisocoeff,})",
    "ref_output == -1 and grid.getNumOutputs() > 1 and grid.isGlobal() and com.inside(CArr<1>{command_getanisocoeff})",
    "(grid.isLocalPolynomial() or grid.isWavelet()) and command == command_refine_aniso",
    "(grid.isFourier() and command == command_refine_surp)",
    "grid.isLocalPolynomial() or grid.isWavelet()",
    "depth_type == type_none",
    "ref_output == -1 and grid.getNumOutputs() > 1 and grid.isGlobal() and com.inside(CArr<1>{command_getanisocoeff})",
    "not set_tolerance",
    "not set_tref",
    "(grid.isLocalPolynomial() or grid.isWavelet()) and command == command_getpoly",
]
PINNED_POST_GUARDS = [
    "bool is_refine = (command == command_refine or command == command_get_candidate_construction);",
    "if (command == command_refine_aniso or (is_refine and (grid.isGlobal() or grid.isSequence() or grid.isFourier()))){",
    "if (command == command_refine_surp or (is_refine and (grid.isLocalPolynomial() or grid.isWavelet()))){",
]
# handlers of the dispatch switch in executeCommand (normalised statement text -> tag used by the model)
HANDLERS = {
    "grid.updateGrid(depth,depth_type,readAnisotropic());": "HUpdate",
    "processEvalLike();": "HEvalLike",
    "processOutputLike();": "HOutputLike",
    "outputHierarchicalCoefficients();": "HGetCoefficients",
    "loadComputedValues();": "HLoadValues",
    "setHierarchy();": "HSetCoefficients",
    "grid.clearRefinement();if(grid.isUsingConstruction())grid.finishConstruction();": "HCancelRefine",
    "grid.mergeRefinement();": "HMergeRefine",
    'cout << "dynamic construction: " <<((grid.isUsingConstruction())? "enabled" : "disabled")<< "\\n";': "HUsingConstruct",
    "grid.printStats();": "HSummary",
    "outputIndexes((command == command_getneededindex)? output_points_mode::needed : output_points_mode::regular);": "HIndexes",
    "getPoly();": "HGetPoly",
    "refineGrid();": "HRefine",
    "getConstructedPoints();": "HCandidates",
}
PINNED_OUTPUT_SECTION = norm("""
    if ((com.inside(makecoms) or command == command_getpoints) and not com.inside(quadcoms))
        outputPoints(output_points_mode::regular);
    if (com.inside(std::array<TypeCommand, 4>{command_getneeded, command_refine, command_refine_aniso, command_refine_surp}))
        outputPoints(output_points_mode::needed);
    if (command == command_makequadrature or command == command_getquadrature)
        outputQuadrature();

    if (not com.inside(constcoms))
        writeGrid();

    return pass_flag;""")
PINNED_EXEC_HEAD = norm("""
    if (not checkSane()) return false;
    pass_flag = true;
    if (command == command_makeexoquad){
        createExoticQuadrature();
        return pass_flag;
    }""")
PINNED_EXEC_READ = norm("""
    if (not com.inside(makecoms, CArr<1>{command_makeexoquad})){
        if (not readGridfile()) return false;
    }

    if (not checkSanePostRead()) return false;

    if (command == command_makequadrature) num_outputs = 0;

    if (com.inside(makecoms)){
        auto llimits = readLimits();
        auto aniso = readAnisotropic();
""")
PINNED_EXEC_AFTER_MAKE = norm("""
        setTransform();
    }

    if (com.inside(makecoms) or command == command_setconformal)
        setConformal();
""")
# the make dispatch: the model implements the DOCUMENTED choice (grid family by rule class); the source text is
# emitted as data so that the check can report a deviation as a finding instead of silently following it
MAKE_BRANCH_RE = re.compile(r"(?:if|\}else if)\((.*?)\)\{grid\.(make\w+)\(")


def parse_check_sane(cpp, commands):
    body = function_body(cpp, r"bool\s+TasgridWrapper::checkSane\s*\(\s*\)\s*const\s*\{", "checkSane")
    head = norm(body[:body.index("test_result_wrapper test;")])
    exp_head = norm("""if (command == command_none){ cerr << "ERROR: no command specified\\n"; return false; }
        command_tester com{command};
        CArr<5> makecoms = {command_makeglobal, command_makesequence, command_makelocalp, command_makewavelet, command_makefourier};""")
    if head != exp_head:
        raise TranslatorError("checkSane: unexpected prologue: " + head)
    named = {"makecoms": ["command_makeglobal", "command_makesequence", "command_makelocalp", "command_makewavelet",
                          "command_makefourier"]}
    sw = body.index("switch(command){")
    pre, switch_part = body[:sw], body[sw:]
    if norm(PINNED_ALPHA) not in norm(pre):
        raise TranslatorError("checkSane: needs_alpha/needs_beta definitions changed")
    if "if (command == command_makeglobal or command == command_makequadrature){" not in pre:
        raise TranslatorError("checkSane: the alpha/beta block is no longer guarded by makeglobal/makequadrature")
    required = []       # (req, [commands])
    pinned_seen = []
    for cond, _pos in statements_fail_if(pre):
        done = False
        for atom, req in ATOMS:
            prefix = norm(atom + " and com.inside(")
            if cond.startswith(prefix):
                required.append((req, inside_lists(cond[len(prefix) - len("com.inside("):], named, commands)))
                done = True
                break
        if done:
            continue
        if cond.startswith(norm("depth_type == type_none and (")):
            inner = cond[len(norm("depth_type == type_none and (")):-1]
            if not inner.startswith("com.inside("):
                raise TranslatorError("checkSane: depth_type requirement changed: " + cond)
            ce = balanced(inner, len("com.inside"))
            tail = inner[ce:].strip()
            if not tail.startswith("or") or norm(tail[2:]) != norm(PINNED_SANE_DEPTHTYPE_TAIL):
                raise TranslatorError("checkSane: depth_type requirement changed: " + cond)
            required.append(("ReqDepthType", inside_lists(inner[:ce], named, commands)))
            continue
        m = re.fullmatch(r"gridfilename\.empty\(\) ?and not (com\.inside\(.*\))", cond)
        if m:
            excl = inside_lists(m.group(1), named, commands)
            required.append(("ReqGridfile", [c for c in commands if c not in excl]))
            continue
        if cond == norm("conformal == conformal_none and command == command_setconformal"):
            required.append(("ReqConformalType", ["command_setconformal"]))
            continue
        if cond == norm("conformalfilename.empty() and command == command_setconformal"):
            required.append(("ReqConformalFile", ["command_setconformal"]))
            continue
        if cond in [norm(x) for x in PINNED_SANE]:
            pinned_seen.append(cond)
            continue
        raise TranslatorError("checkSane: fail_if of unknown shape: " + cond)
    if pinned_seen != [norm(x) for x in PINNED_SANE]:
        raise TranslatorError("checkSane: rule-dependent conditions changed:\n  found    %r\n  expected %r" % (pinned_seen, PINNED_SANE))
    # the per-command switch
    e = balanced(switch_part, switch_part.index("{"), "{", "}")
    sbody = switch_part[switch_part.index("{") + 1:e - 1]
    cases = re.split(r"\bcase\s+(command_\w+)\s*:|\bdefault\s*:", sbody)
    # cases = [pre, name1, body1, name2, body2, ..., None, defaultbody]
    seen = {}
    i = 1
    while i < len(cases):
        name, cbody = cases[i], cases[i + 1]
        conds = [c for c, _ in statements_fail_if(cbody)]
        if name is None:
            if norm(cbody) != "break;":
                raise TranslatorError("checkSane: default case is not empty")
        else:
            seen[name] = conds
            if not norm(cbody).endswith("break;"):
                raise TranslatorError("checkSane: fall-through in case " + name)
        i += 2
    if seen != {k: [norm(x) for x in v] for k, v in PINNED_SANE_SWITCH.items()}:
        raise TranslatorError("checkSane: per-command cases changed: %r" % seen)
    required.append(("ReqShift", ["command_makeexoquad"]))
    required.append(("ReqWeightfile", ["command_makeexoquad"]))
    required.append(("ReqDescription", ["command_makeexoquad"]))
    tail = norm(switch_part[e:])
    if not tail.endswith("return test;"):
        raise TranslatorError("checkSane: does not end with return test")
    if "fail_if" in tail:
        raise TranslatorError("checkSane: unexpected fail_if after the switch")
    return required


def parse_post_read(cpp, commands):
    body = function_body(cpp, r"bool\s+TasgridWrapper::checkSanePostRead\s*\(\s*\)\s*const\s*\{", "checkSanePostRead")
    nb = norm(body)
    for g in PINNED_POST_GUARDS:
        if norm(g) not in nb:
            raise TranslatorError("checkSanePostRead: guard changed: " + g)
    needs_loaded = needs_outputs = None
    seq = []
    for cond, _ in statements_fail_if(body):
        m = re.fullmatch(r"grid\.getNumLoaded\(\) ?== 0 and (com\.inside\(.*\))", cond)
        if m:
            needs_loaded = inside_lists(m.group(1), {}, commands)
            seq.append("@loaded")
            continue
        m = re.fullmatch(r"grid\.getNumOutputs\(\) ?== 0 and (com\.inside\(.*\))", cond)
        if m:
            needs_outputs = inside_lists(m.group(1), {}, commands)
            seq.append("@outputs")
            continue
        seq.append(cond)
    if seq != [norm(x) for x in PINNED_POST]:
        raise TranslatorError("checkSanePostRead: conditions changed:\n  found    %r\n  expected %r" % (seq, PINNED_POST))
    return needs_loaded, needs_outputs


def parse_execute(cpp, commands):
    body = function_body(cpp, r"bool\s+TasgridWrapper::executeCommand\s*\(\s*\)\s*\{", "executeCommand")
    nb = norm(body)
    if not nb.startswith(PINNED_EXEC_HEAD):
        raise TranslatorError("executeCommand: prologue changed")
    lists = {}
    for name in ("makecoms", "quadcoms", "constcoms"):
        m = re.search(r"CArr<(\d+)>\s+%s\s*=\s*\{([^}]*)\}\s*;" % name, body)
        if not m:
            raise TranslatorError("executeCommand: list %s not found" % name)
        xs = [x.strip() for x in m.group(2).split(",") if x.strip()]
        if len(xs) != int(m.group(1)):
            raise TranslatorError("executeCommand: %s has %d entries, declared %s" % (name, len(xs), m.group(1)))
        for x in xs:
            if x not in commands:
                raise TranslatorError("executeCommand: unknown command %s in %s" % (x, name))
        lists[name] = xs
    if PINNED_EXEC_READ not in nb:
        raise TranslatorError("executeCommand: read / post-read / make prologue changed")
    if PINNED_EXEC_AFTER_MAKE not in nb:
        raise TranslatorError("executeCommand: setTransform/setConformal section changed")
    if not nb.endswith(PINNED_OUTPUT_SECTION):
        raise TranslatorError("executeCommand: output section changed: ..." + nb[-500:])
    # the make dispatch (data only)
    a = nb.index(PINNED_EXEC_READ) + len(PINNED_EXEC_READ)
    b = nb.index(PINNED_EXEC_AFTER_MAKE)
    mk = nb[a:b]
    branches = [(m.group(1), m.group(2)) for m in MAKE_BRANCH_RE.finditer(mk)]
    melse = re.search(r"\}else\{grid\.(make\w+)\(", mk)
    if len(branches) != 4 or not melse:
        raise TranslatorError("executeCommand: make dispatch is not a 5-way if/else chain: " + mk[:300])
    branches.append(("else", melse.group(1)))
    make_args = re.findall(r"grid\.(make\w+)\(([^;]*)\);", mk)
    # the command dispatch switch
    s = body.index("switch(command){")
    e = balanced(body, body.index("{", s), "{", "}")
    sbody = body[body.index("{", s) + 1:e - 1]
    toks = re.split(r"\bcase\s+(command_\w+)\s*:|\bdefault\s*:", sbody)
    dispatch, pending = [], []
    i = 1
    while i < len(toks):
        name, cbody = toks[i], norm(toks[i + 1])
        if name is None:
            if cbody != "break;":
                raise TranslatorError("executeCommand: default case not empty")
        elif cbody == "":
            pending.append(name)
        else:
            if not cbody.endswith("break;"):
                raise TranslatorError("executeCommand: case %s falls through" % name)
            stmt = cbody[:-len("break;")].strip()
            if stmt not in HANDLERS:
                raise TranslatorError("executeCommand: unknown handler for %s: %s" % (name, stmt))
            for c in pending + [name]:
                dispatch.append((c, HANDLERS[stmt]))
            pending = []
        i += 2
    if pending:
        raise TranslatorError("executeCommand: trailing case labels")
    m = re.search(r"com\.inside\(std::array<TypeCommand,\s*4>\{([^}]*)\}\)", nb)
    needed_out = [x.strip() for x in m.group(1).split(",")]
    return lists, dispatch, branches, make_args, needed_out


def parse_options(main_cpp):
    body = function_body(main_cpp, r"int\s+main\s*\(\s*int\s+argc\s*,\s*const\s+char\s*\*\*\s*argv\s*\)\s*\{", "main")
    a = body.index("while(!args.empty()){", body.index("wrap.setCommand(command);"))
    e = balanced(body, body.index("{", a), "{", "}")
    loop = body[body.index("{", a) + 1:e - 1]
    nl = norm(loop)
    if not nl.startswith(norm("if (hasHelp(args.front())){ printHelp(help_command, command); return 0; }else if")):
        raise TranslatorError("main: option loop does not start with the help test")
    if not nl.endswith(norm("""}else if (command == command_summary || command == command_using_construct){
            wrap.setGridFilename(args.front());
        }else{
            cout << "WARNING: ignoring unknown option: " << args.front() << "\\n";
        }
        args.pop_front();""")):
        raise TranslatorError("main: tail of the option loop changed")
    opts = []
    nmatched = 0
    # every branch:  else if (args.front() == "-a" || args.front() == "-b"){ BODY }
    for m in re.finditer(r"else if\s*\(\s*(args\.front\(\)\s*==\s*\"[^\"]+\"(?:\s*\|\|\s*args\.front\(\)\s*==\s*\"[^\"]+\")*)\s*\)\s*\{", loop):
        names = re.findall(r'"([^"]+)"', m.group(1))
        nmatched += 1
        b = m.end() - 1
        be = balanced(loop, b, "{", "}")
        bb = loop[b + 1:be - 1]
        setters = re.findall(r"wrap\.(set\w+)\s*\(", bb)
        if len(setters) != 1:
            raise TranslatorError("main: option %s has %d setters" % (names, len(setters)))
        takes = "args.pop_front();" in bb
        if takes:
            if not re.search(r"args\.pop_front\(\);\s*if\s*\(args\.empty\(\)\)\s*\{[^}]*return 1;\s*\}", bb):
                raise TranslatorError("main: option %s pops without the empty test" % names)
            conv = re.search(r"wrap\.%s\s*\((.*)\);" % setters[0], bb).group(1).strip()
        else:
            conv = re.search(r"wrap\.%s\s*\((.*)\);" % setters[0], bb).group(1).strip()
            if conv != "true":
                raise TranslatorError("main: flag option %s does not pass true" % names)
        kind = {"args.front()": "VString", "std::stoi(args.front())": "VInt", "std::stof(args.front())": "VFloat32",
                "std::stod(args.front())": "VFloat64", "true": "VFlag", "depth_type": "VDepthType", "rule": "VRule",
                "conformal_type": "VConformal", "ref": "VRefType"}.get(conv)
        if kind is None:
            raise TranslatorError("main: option %s converts its value in an unknown way: %s" % (names, conv))
        for n_ in names:
            opts.append((n_, setters[0], kind))
    nbranches = len(re.findall(r"\belse if\b", loop))
    if nbranches != nmatched + 1:
        # one extra 'else if' = the summary/using_construct positional file
        raise TranslatorError("main: %d else-if branches but %d recognised option branches" % (nbranches, nmatched))
    return opts


MAIN_LEVEL = ["-help", "-version", "-log", "-cmakelog", "-listtypes", "-test"]


def parse_help(main_cpp):
    m = re.search(r"Commands\s+Shorthand\s+Action\n(.*?)\n\s*\nOptions\s+Shorthand", main_cpp, re.S)
    if not m:
        raise TranslatorError("generic help table not found")
    rows = []
    for line in m.group(1).split("\n"):
        if not line.strip():
            continue
        mm = re.match(r"^ (-[\w-]+)(\s+)(\S.*)$", line)
        if not mm:
            raise TranslatorError("help row of unknown shape: %r" % line)
        longname = mm.group(1)
        col = len(" " + longname + mm.group(2))
        short = None
        # the shorthand column starts at column 24 of the table
        if col == 24:
            first = mm.group(3).split()[0]
            if first.startswith("-"):
                short = first.split(",")[0]
        if longname in MAIN_LEVEL:
            continue
        rows.append((longname, short))
    if len(rows) < 20:
        raise TranslatorError("help table has only %d command rows" % len(rows))
    return rows


def parse_string_maps(io_hpp):
    out = {}
    for fn, enum_prefix in (("getStringRuleMap", "rule_"), ("getStringToDepthMap", "type_"), ("getStringToRefinementMap", "refine_")):
        m = re.search(r"%s\s*\(\s*\)\s*\{\s*return\s+std::initializer_list<[^;]*?>\s*\{(.*?)\}\s*;\s*\}" % fn, io_hpp, re.S)
        if not m:
            raise TranslatorError(fn + " not found")
        items = re.findall(r'\{\s*"([^"]+)"\s*,\s*(\w+)\s*\}', m.group(1))
        if not items or any(not v.startswith(enum_prefix) for _, v in items):
            raise TranslatorError(fn + ": unexpected entries")
        out[fn] = items
    return out


# ------------------------------------------------------------------------------------------------
def coq_list(items, per_line=4, indent="  "):
    if not items:
        return "[]"
    lines, cur = [], []
    for it in items:
        cur.append(it)
        if len(cur) == per_line:
            lines.append("; ".join(cur))
            cur = []
    if cur:
        lines.append("; ".join(cur))
    return "[ " + (";\n" + indent + "  ").join(lines) + " ]"


def generate(repo):
    rd = lambda rel: strip_comments(open(os.path.join(repo, rel), errors="replace").read())
    hpp = rd("Tasgrid/tasgridWrapper.hpp")
    cpp = rd("Tasgrid/tasgridWrapper.cpp")
    main_cpp = rd("Tasgrid/tasgrid_main.cpp")
    io_hpp = rd("SparseGrids/tsgIOHelpers.hpp")
    commands = parse_enum(hpp)
    table = parse_switch_table(cpp, commands)
    required = parse_check_sane(cpp, commands)
    needs_loaded, needs_outputs = parse_post_read(cpp, commands)
    lists, dispatch, branches, make_args, needed_out = parse_execute(cpp, commands)
    opts = parse_options(main_cpp)
    helprows = parse_help(main_cpp)
    smaps = parse_string_maps(io_hpp)
    setters = []
    for _n, s, _k in opts:
        if s not in setters:
            setters.append(s)
    q = lambda s: '"' + s.replace('"', '""') + '"'
    o = []
    o.append("(* GENERATED by translator/clitable.py from the working tree of the tasgrid tool — do not edit, never committed as truth.")
    o.append("   Sources: Tasgrid/tasgridWrapper.hpp (enum TypeCommand), Tasgrid/tasgridWrapper.cpp (hasCommand, checkSane,")
    o.append("   checkSanePostRead, executeCommand), Tasgrid/tasgrid_main.cpp (option chain, generic help), SparseGrids/tsgIOHelpers.hpp.")
    o.append("   Data only.  Conditions that depend on the rule/order/alpha... are pinned textually by the translator")
    o.append("   (PINNED_* in clitable.py) and implemented by hand in Model/Cli.v. *)")
    o.append("From Coq Require Import List String ZArith.")
    o.append("Import ListNotations.")
    o.append("Local Open Scope string_scope.")
    o.append("")
    o.append("Inductive command : Type :=\n  | " + "\n  | ".join(commands) + ".")
    o.append("")
    o.append("Scheme Equality for command.")
    o.append("")
    o.append("Definition all_commands : list command :=\n  " + coq_list(commands) + ".")
    o.append("")
    o.append("(* TasgridWrapper::hasCommand: the initialiser list of the std::map, in source order (std::map keeps the FIRST")
    o.append("   entry of a duplicated key) *)")
    o.append("Definition switch_table : list (string * command) :=\n  " + coq_list(["(%s, %s)" % (q(s), c) for s, c in table], 2) + ".")
    o.append("")
    o.append("(* the generic help text of tasgrid_main.cpp: (command switch, documented shorthand) *)")
    o.append("Definition help_table : list (string * option string) :=\n  " +
             coq_list(["(%s, %s)" % (q(l), "Some " + q(s) if s else "None") for l, s in helprows], 2) + ".")
    o.append("")
    o.append("Inductive req : Type :=\n  | " + "\n  | ".join(REQS) + ".")
    o.append("Scheme Equality for req.")
    o.append("")
    o.append("(* checkSane: requirement -> commands for which a violation is an error (before the grid file is read) *)")
    o.append("Definition required : list (req * list command) :=\n  [ " +
             ";\n    ".join("(%s, %s)" % (r, coq_list(cs, 4, "      ")) for r, cs in required) + " ].")
    o.append("")
    o.append("(* checkSanePostRead: commands that need loaded values / at least one output *)")
    o.append("Definition needs_loaded : list command :=\n  " + coq_list(needs_loaded) + ".")
    o.append("Definition needs_outputs : list command :=\n  " + coq_list(needs_outputs) + ".")
    o.append("")
    o.append("(* executeCommand *)")
    o.append("Definition make_commands : list command :=\n  " + coq_list(lists["makecoms"]) + ".")
    o.append("Definition quad_commands : list command :=\n  " + coq_list(lists["quadcoms"]) + ".")
    o.append("Definition const_commands : list command :=\n  " + coq_list(lists["constcoms"]) + ".")
    o.append("Definition needed_output_commands : list command :=\n  " + coq_list(needed_out) + ".")
    o.append("")
    hs = sorted(set(HANDLERS.values()))
    o.append("Inductive handler : Type :=\n  | " + "\n  | ".join(hs) + ".")
    o.append("Definition dispatch : list (command * handler) :=\n  " + coq_list(["(%s, %s)" % d for d in dispatch], 2) + ".")
    o.append("")
    o.append("(* the grid-family choice of the make section: (condition text, API method), source order *)")
    o.append("Definition make_dispatch : list (string * string) :=\n  " + coq_list(["(%s, %s)" % (q(c), q(f)) for c, f in branches], 1) + ".")
    o.append("Definition make_call_arguments : list (string * string) :=\n  " + coq_list(["(%s, %s)" % (q(f), q(a)) for f, a in make_args], 1) + ".")
    o.append("")
    o.append("(* tasgrid_main.cpp: option switch -> (setter of TasgridWrapper, how the value is converted) *)")
    o.append("Inductive setter : Type :=\n  | " + "\n  | ".join(setters) + ".")
    o.append("Scheme Equality for setter.")
    o.append("Inductive valkind : Type := VString | VInt | VFloat32 | VFloat64 | VFlag | VDepthType | VRule | VConformal | VRefType.")
    o.append("Definition option_table : list (string * (setter * valkind)) :=\n  " +
             coq_list(["(%s, (%s, %s))" % (q(n_), s, k) for n_, s, k in opts], 2) + ".")
    o.append("")
    o.append("(* SparseGrids/tsgIOHelpers.hpp string maps (keys only; \"none\" maps to rule_none and is rejected by the tool) *)")
    o.append("Definition rule_strings : list string :=\n  " + coq_list([q(s) for s, _ in smaps["getStringRuleMap"]], 5) + ".")
    o.append("Definition depth_type_strings : list string :=\n  " + coq_list([q(s) for s, _ in smaps["getStringToDepthMap"]], 6) + ".")
    o.append("Definition refinement_strings : list string :=\n  " + coq_list([q(s) for s, _ in smaps["getStringToRefinementMap"]], 6) + ".")
    o.append("")
    return "\n".join(o)


def write_if_changed(path, text):
    try:
        with open(path) as fh:
            if fh.read() == text:
                return False
    except OSError:
        pass
    os.makedirs(os.path.dirname(path), exist_ok=True)
    tmp = path + ".tmp%d" % os.getpid()
    with open(tmp, "w") as fh:
        fh.write(text)
    os.replace(tmp, path)
    return True


def main(argv):
    if len(argv) != 3:
        print(__doc__)
        return 2
    try:
        text = generate(argv[1])
    except TranslatorError as e:
        print("TRANSLATOR-ERROR: " + str(e), file=sys.stderr)
        return 2
    changed = write_if_changed(argv[2], text)
    print("clitable: %s %s" % (argv[2], "rewritten" if changed else "unchanged"))
    return 0


if __name__ == "__main__":
    sys.exit(main(sys.argv))
