#!/usr/bin/env python3
"""translator/footprint.py — regenerate coq/gen/ConstFootprint.v from the CURRENT sources of the sparse grid library (C12).

Method: every translation unit of SparseGrids/ that belongs to the library is parsed by
    clang++ -std=c++11 -fsyntax-only -Xclang -ast-dump=json -Xclang -ast-dump-filter=TasGrid
(the JSON AST of everything in namespace TasGrid; template bodies are present un-instantiated AND instantiated).
The classification below is SYNTACTIC and TRUSTED; it is restated in the header of the generated file.

 F1  mutable members      every FieldDecl with `mutable` of every class of namespace TasGrid.
 F2  const methods        CXXMethodDecl (incl. conversion operators, members of templates) whose function type ends in
                          `const`, with a body, of a class defined in SparseGrids/.
 F3  touches of a body    (a) every MemberExpr naming a mutable member (of any object);  it is a READ when it is the
                              object of a call of a const method (for smart-pointer / raw-pointer members only
                              `operator bool`), when its value is loaded (lvalue-to-rvalue) or when it is only converted
                              to a const-qualified type; EVERYTHING ELSE IS A WRITE (assignment, non-const method,
                              operator-> / operator* / get() of a pointer, address taken, bound to a reference, returned);
                          (b) every const_cast expression;
                          (c) every call of a NON-const method of a class defined in SparseGrids/ on an object expression
                              that is reached from `this` (through pointer members; the compiler rejects it otherwise).
 F4  locks                a touch or a call that comes, inside a compound statement, after the declaration of a
                          std::lock_guard / std::unique_lock variable is `under lock`.
 F5  acceleration mode    the property is about acceleration mode accel_none.  In `switch (acceleration->mode)` only the
                          sections `default:` and `case accel_none:` are followed (each pruned section must end in
                          break/return: anything else is an unknown shape).  `if` statements whose condition mentions
                          `acceleration` must have a condition text listed in PINNED_CONDITIONS (value under accel_none:
                          True / False / None = follow both branches); an unlisted text is an unknown shape.
 F6  reachability         entry points: the public const methods of TasGrid::TasmanianSparseGrid.  A call edge is every
                          reference to a method inside a followed statement; overloads are merged by (class, name);
                          a call of a virtual method of a base class also reaches the methods of that name of every
                          derived class; unresolved (dependent) member calls reach every method of that name of the class
                          of the caller and of its bases / derived classes.  Free functions are followed as well (their
                          bodies can only touch members through the const references they receive).
                          `unlocked` = reachable along a path on which no lock is held.
The generated list holds every reachable const method that has at least one touch, plus (for the record) the number of
reachable const methods without any touch and the const methods with touches that are NOT reachable under accel_none.

usage: footprint.py <repo> <out.v> [cfgdir]     (writes only when the content changes; exit 2 on unknown shapes)
"""
import concurrent.futures as cf
import hashlib
import json
import os
import re
import subprocess
import sys
import tempfile


class TranslatorError(Exception):
    pass


LIB_TUS = ["TasmanianSparseGrid.cpp", "tsgGridGlobal.cpp", "tsgGridSequence.cpp", "tsgGridLocalPolynomial.cpp",
           "tsgGridWavelet.cpp", "tsgGridFourier.cpp", "tsgLinearSolvers.cpp", "tsgIndexSets.cpp",
           "tsgCoreOneDimensional.cpp", "tsgRuleWavelet.cpp", "tsgAcceleratedDataStructures.cpp",
           "tsgHierarchyManipulator.cpp", "tsgIndexManipulator.cpp", "tsgSequenceOptimizer.cpp",
           "tsgDConstructGridGlobal.cpp", "tsgHardCodedTabulatedRules.cpp"]
NOT_BUILT = {"tsgDpcppKernels.cpp", "tsgHipKernels.hip.cpp"}   # GPU back-ends, not part of the build without CUDA/HIP/SYCL
ENTRY_CLASS = "TasGrid::TasmanianSparseGrid"
REQUIRED_CLASSES = ["TasGrid::TasmanianSparseGrid", "TasGrid::GridGlobal", "TasGrid::GridSequence", "TasGrid::GridLocalPolynomial",
                    "TasGrid::GridWavelet", "TasGrid::GridFourier", "TasGrid::BaseCanonicalGrid", "TasGrid::MultiIndexSet",
                    "TasGrid::StorageSet", "TasGrid::TasSparse::WaveletBasisMatrix", "TasGrid::AccelerationContext"]

# condition text (rendered from the AST, see render()) -> value under accel_none; None = follow both branches
PINNED_CONDITIONS = {
    "acceleration->on_gpu()": False,                       # engine is null unless a GPU mode is enabled
    "!acceleration->on_gpu()": True,
    "acceleration->blasCompatible()": False,               # mode == accel_cpu_blas or a GPU mode
    "acceleration->useKernels()": False,
    "acceleration->mode!=accel_none&&useDense(acceleration,num_rows)": False,
    "acceleration->mode!=accel_cpu_blas": None,
    "order==1&&useDense(acceleration,num_points)&&acceleration->useKernels()": False,   # useKernels(): cuda / magma only
    "acceleration->algorithm_select==algorithm_dense": None,
    "(acceleration->algorithm_select==algorithm_dense&&inter_matrix.isSparse())||(acceleration->algorithm_select==algorithm_sparse&&inter_matrix.isDense())": None,
    "isAccTypeGPU(acceleration->mode)": False,
    "new_gpu_id!=acceleration->device": None,
    "!((getAccelerationType()==accel_gpu_cuda)||(getAccelerationType()==accel_gpu_magma))": True,
}
PRUNED_CASES = {"accel_gpu_magma", "accel_gpu_cuda", "accel_gpu_cublas", "accel_cpu_blas", "accel_gpu_default", "accel_gpu_hip",
                "accel_gpu_rocblas", "accel_cpu_mkl"}
KEPT_CASES = {"accel_none"}
LOCK_TYPES = ("lock_guard", "unique_lock", "scoped_lock")


# ---------------------------------------------------------------------------------------------------- clang
def dump_tu(repo, cfgdir, src):
    cmd = ["clang++", "-std=c++11", "-fsyntax-only", "-DTASMANIAN_VERIF_HOOKS", "-I" + cfgdir,
           "-I" + os.path.join(repo, "SparseGrids"), "-I" + os.path.join(repo, "InterfaceTPL"),
           "-Xclang", "-ast-dump=json", "-Xclang", "-ast-dump-filter=TasGrid", os.path.join(repo, "SparseGrids", src)]
    with tempfile.TemporaryFile("w+") as out:
        p = subprocess.run(cmd, stdout=out, stderr=subprocess.PIPE, text=True, timeout=600)
        errs = [l for l in p.stderr.split("\n") if " error:" in l]
        if p.returncode != 0 or errs:
            raise TranslatorError("clang cannot parse %s: %s" % (src, "; ".join(errs[:3]) or p.stderr[-300:]))
        out.seek(0)
        txt = out.read()
    dec, i, objs = json.JSONDecoder(), 0, []
    n = len(txt)
    while True:
        while i < n and txt[i] in " \n\r\t":
            i += 1
        if i >= n:
            break
        o, i = dec.raw_decode(txt, i)
        objs.append(o)
    return objs


# ---------------------------------------------------------------------------------------------------- AST helpers
def inner(n):
    return n.get("inner", []) or []


def render(n):
    """compact source-like text of an expression (only used to recognise pinned conditions)"""
    k = n.get("kind")
    ch = inner(n)
    if k in ("ImplicitCastExpr", "ExprWithCleanups", "MaterializeTemporaryExpr", "CXXBindTemporaryExpr", "ConstantExpr",
             "CXXFunctionalCastExpr", "CXXStaticCastExpr", "CStyleCastExpr", "FullExpr", "SubstNonTypeTemplateParmExpr"):
        return render(ch[-1]) if ch else "?"
    if k == "ParenExpr":
        return "(" + render(ch[0]) + ")"
    if k == "CXXThisExpr":
        return "this" if not n.get("implicit") else ""
    if k == "MemberExpr":
        base = render(ch[0]) if ch else ""
        nm = n.get("name", "?")
        if base == "":
            return nm
        return base + ("->" if n.get("isArrow") else ".") + nm
    if k in ("CXXDependentScopeMemberExpr",):
        base = render(ch[0]) if ch else ""
        nm = n.get("member", "?")
        return nm if base == "" else base + ("->" if n.get("isArrow") else ".") + nm
    if k in ("DeclRefExpr",):
        rd = n.get("referencedDecl", {})
        nm = rd.get("name", "?")
        q = n.get("_qual")
        return nm
    if k in ("UnresolvedLookupExpr", "UnresolvedMemberExpr"):
        return n.get("name", "?")
    if k == "DependentScopeDeclRefExpr":
        return "?dep"
    if k in ("CXXMemberCallExpr", "CallExpr"):
        return render(ch[0]) + "(" + ",".join(render(a) for a in ch[1:] if a.get("kind") != "CXXDefaultArgExpr") + ")"
    if k == "CXXOperatorCallExpr":
        op = render(ch[0]).replace("operator", "")
        if len(ch) == 2:
            if op == "->":
                return render(ch[1])
            return op + render(ch[1]) if op != "()" else render(ch[1]) + op
        if len(ch) == 3:
            return render(ch[1]) + op + render(ch[2])
        return "?op"
    if k == "UnaryOperator":
        return (n.get("opcode", "?") + render(ch[0])) if not n.get("isPostfix") else (render(ch[0]) + n.get("opcode", "?"))
    if k == "BinaryOperator":
        return render(ch[0]) + n.get("opcode", "?") + render(ch[1])
    if k == "IntegerLiteral":
        return str(n.get("value"))
    if k == "FloatingLiteral":
        return str(n.get("value"))
    if k == "CXXBoolLiteralExpr":
        return "true" if n.get("value") else "false"
    if k == "ConditionalOperator":
        return render(ch[0]) + "?" + render(ch[1]) + ":" + render(ch[2])
    return "?" + str(k)


QUAL_RE = re.compile(r"\)\s*const\b")


def is_const_method_type(qt):
    return bool(QUAL_RE.search(qt or ""))


class TU:
    """facts of one translation unit"""

    def __init__(self, name):
        self.name = name
        self.classes = {}       # record id -> qualified name
        self.class_info = {}    # qualified name -> dict(fields=[(name, mutable, type)], bases=[names], file, line)
        self.methods = {}       # decl id -> dict(cls, name, const, static, virtual, access, line, file)
        self.defs = []          # dict(cls, name, const, node(body), line, file, access, ids)
        self.fields = {}        # field decl id -> (cls, name, mutable, type)
        self.funcs = {}         # free function decl id -> qualified name
        self.cur_file = None
        self.cur_line = 0

    # --- locations (the JSON dump only prints file / line when they change)
    def loc(self, n):
        for key in ("loc", "range"):
            d = n.get(key)
            if not d:
                continue
            for sub in ([d] if key == "loc" else [d.get("begin", {}), d.get("end", {})]):
                for cand in (sub.get("spellingLoc"), sub.get("expansionLoc"), sub):
                    if not cand:
                        continue
                    if "file" in cand:
                        self.cur_file = cand["file"]
                    if "line" in cand:
                        self.cur_line = cand["line"]
                if key == "loc" and "_line" not in n:
                    n["_file"], n["_line"] = self.cur_file, self.cur_line

    def scan_locs(self, n):
        self.loc(n)
        for c in inner(n):
            if isinstance(c, dict):
                self.scan_locs(c)

    # --- declarations
    def decl(self, n, scope, cls, access):
        k = n.get("kind")
        if k == "NamespaceDecl":
            sc = scope + [n["name"]] if n.get("name") else scope
            for c in inner(n):
                self.decl(c, sc, None, None)
        elif k in ("ClassTemplateDecl",):
            for c in inner(n):
                if c.get("kind") in ("CXXRecordDecl", "ClassTemplateSpecializationDecl"):
                    self.decl(c, scope, cls, access)
        elif k in ("CXXRecordDecl", "ClassTemplateSpecializationDecl", "ClassTemplatePartialSpecializationDecl"):
            if not n.get("name"):
                return
            q = "::".join(scope + [n["name"]])
            self.classes[n["id"]] = q
            if "previousDecl" in n:
                self.classes.setdefault(n["previousDecl"], q)
            if not n.get("completeDefinition"):
                return
            info = self.class_info.setdefault(q, {"fields": [], "bases": [], "file": n.get("_file"), "line": n.get("_line")})
            for b in n.get("bases", []):
                bt = b.get("type", {}).get("qualType", "")
                info["bases"].append(bt)
            acc = "private" if n.get("tagUsed") == "class" else "public"
            sc = scope + [n["name"]]
            for c in inner(n):
                ck = c.get("kind")
                if ck == "AccessSpecDecl":
                    acc = c.get("access", acc)
                elif ck == "FieldDecl":
                    f = (c.get("name", "?"), bool(c.get("mutable")), c.get("type", {}).get("qualType", "?"))
                    if f not in info["fields"]:
                        info["fields"].append(f)
                    self.fields[c["id"]] = (q,) + f
                else:
                    self.decl(c, sc, q, acc)
        elif k == "FunctionTemplateDecl":
            for c in inner(n):
                if c.get("kind") in ("CXXMethodDecl", "FunctionDecl", "CXXConversionDecl", "CXXConstructorDecl"):
                    self.decl(c, scope, cls, access)
        elif k in ("CXXMethodDecl", "CXXConversionDecl", "CXXConstructorDecl", "CXXDestructorDecl"):
            owner = cls
            if owner is None and "parentDeclContextId" in n:
                owner = self.classes.get(n["parentDeclContextId"])
            if owner is None:
                return
            qt = n.get("type", {}).get("qualType", "")
            m = {"cls": owner, "name": n.get("name", "?"), "const": is_const_method_type(qt) and k in ("CXXMethodDecl", "CXXConversionDecl"),
                 "static": n.get("storageClass") == "static", "virtual": bool(n.get("virtual")), "access": access,
                 "file": n.get("_file"), "line": n.get("_line"), "kind": k}
            if access is None and "previousDecl" in n and n["previousDecl"] in self.methods:
                m["access"] = self.methods[n["previousDecl"]]["access"]
                m["virtual"] = m["virtual"] or self.methods[n["previousDecl"]]["virtual"]
            self.methods[n["id"]] = m
            body = [c for c in inner(n) if c.get("kind") == "CompoundStmt"]
            if body:
                d = dict(m)
                d["body"] = body[0]
                d["ctor_inits"] = [c for c in inner(n) if c.get("kind") == "CXXCtorInitializer"]
                self.defs.append(d)
        elif k == "FunctionDecl":
            q = "::".join(scope + [n.get("name", "?")])
            self.funcs[n["id"]] = q
            if "previousDecl" in n:
                self.funcs.setdefault(n["previousDecl"], q)
            body = [c for c in inner(n) if c.get("kind") == "CompoundStmt"]
            if body:
                self.defs.append({"cls": None, "name": q, "const": False, "static": True, "virtual": False, "access": "public",
                                  "file": n.get("_file"), "line": n.get("_line"), "kind": k, "body": body[0], "ctor_inits": []})
        elif k in ("LinkageSpecDecl",):
            for c in inner(n):
                self.decl(c, scope, cls, access)


def in_repo_sparse(path, repo):
    return bool(path) and os.path.abspath(path).startswith(os.path.join(os.path.abspath(repo), "SparseGrids") + os.sep)


# ---------------------------------------------------------------------------------------------------- body analysis
class BodyFacts:
    def __init__(self):
        self.touches = []   # (kind, cls, field, is_write, locked) | ("constcast",..) | ("nonconst", callee, locked)
        self.calls = []     # (target key or ("name", n), locked)


def strip_casts(stack, idx):
    """index of the nearest ancestor (going up from idx) that is not a transparent wrapper; returns (ancestor index, saw_const_noop)"""
    i = idx
    saw_const = False
    while i >= 0:
        a = stack[i]
        k = a.get("kind")
        if k == "ParenExpr":
            i -= 1
            continue
        if k == "ImplicitCastExpr" and a.get("castKind") in ("NoOp", "UncheckedDerivedToBase", "DerivedToBase"):
            if a.get("type", {}).get("qualType", "").startswith("const "):
                saw_const = True
            i -= 1
            continue
        break
    return i, saw_const


def root_is_this(n):
    """does the object expression n start at `this` (through members, pointer dereferences, get()/operator->)?"""
    while True:
        k = n.get("kind")
        ch = inner(n)
        if k == "CXXThisExpr":
            return True
        if k in ("MemberExpr", "ImplicitCastExpr", "ParenExpr", "UnaryOperator", "ArraySubscriptExpr", "CXXDependentScopeMemberExpr",
                 "ExprWithCleanups", "MaterializeTemporaryExpr", "CXXBindTemporaryExpr") and ch:
            n = ch[0]
            continue
        if k == "CXXOperatorCallExpr" and len(ch) >= 2:
            n = ch[1]
            continue
        if k == "CXXMemberCallExpr" and ch:
            # a call that returns an object by value yields a temporary, not a part of the shared state
            if n.get("valueCategory") == "prvalue" and not n.get("type", {}).get("qualType", "").rstrip().endswith("*"):
                return False
            n = ch[0]
            continue
        return False


class Analyzer:
    def __init__(self, tu, repo, repo_classes):
        self.tu, self.repo, self.repo_classes = tu, repo, repo_classes
        self.unknown = []

    def classify_touch(self, stack, node, field):
        """READ shapes (F3a); anything else is a write"""
        cls, fname, mutable, ftype = field
        pointerish = ("unique_ptr" in ftype) or ("shared_ptr" in ftype) or ftype.rstrip().endswith("*")
        pi, saw_const = strip_casts(stack, len(stack) - 1)
        if pi < 0:
            return True
        par = stack[pi]
        pk = par.get("kind")
        if pk == "MemberExpr" and "referencedMemberDecl" in par:
            m = self.tu.methods.get(par["referencedMemberDecl"])
            nm = par.get("name", "")
            if pointerish:
                return nm != "operator bool"
            if m is not None:
                return not m["const"]
            # methods of std:: classes: const-ness from the bound member function type is not printed; use the object cast
            return not saw_const
        if pk == "ImplicitCastExpr" and par.get("castKind") == "LValueToRValue":
            return pointerish
        if saw_const and pk in ("CallExpr", "CXXMemberCallExpr", "CXXConstructExpr", "CXXOperatorCallExpr") and not pointerish:
            return False
        return True

    def walk(self, n, facts, locked, stack):
        if not isinstance(n, dict):
            return
        k = n.get("kind")
        ch = inner(n)
        if k == "CompoundStmt":
            lk = locked
            for c in ch:
                if self.walk(c, facts, lk, stack + [n]) == "dead":
                    return "dead"
                if c.get("kind") == "DeclStmt":
                    for v in inner(c):
                        if v.get("kind") == "VarDecl" and any(t in v.get("type", {}).get("qualType", "") for t in LOCK_TYPES):
                            lk = True
            return
        if k == "SwitchStmt":
            cond = [c for c in ch if c.get("kind") not in ("CompoundStmt", "DeclStmt")]
            text = render(cond[0]) if cond else "?"
            body = [c for c in ch if c.get("kind") == "CompoundStmt"]
            if text == "acceleration->mode":
                if not body:
                    raise TranslatorError("switch(acceleration->mode) without a compound body")
                self.walk_mode_switch(body[0], facts, locked, stack + [n])
                return
            if "acceleration" in text and "algorithm_select" not in text:
                raise TranslatorError("switch on an unknown acceleration expression: " + text)
        if k == "IfStmt":
            parts = [c for c in ch]
            # clang: [init?] [condvar?] cond then [else]; the condition is the first expression child
            ci = 0
            while ci < len(parts) and parts[ci].get("kind") in ("DeclStmt",):
                ci += 1
            cond = parts[ci] if ci < len(parts) else None
            text = render(cond) if cond is not None else "?"
            if "acceleration" in text or "getAccelerationType" in text:
                if text not in PINNED_CONDITIONS:
                    self.unknown.append(text)
                val = PINNED_CONDITIONS.get(text)
                self.walk(cond, facts, locked, stack + [n])
                rest = parts[ci + 1:]
                if val is True:
                    rest = rest[:1]
                elif val is False:
                    rest = rest[1:2]
                for c in rest:
                    self.walk(c, facts, locked, stack + [n])
                if val is not None and len(rest) == 1 and self.terminates(rest[0]):
                    return "dead"      # under accel_none this statement always leaves the function
                return
        if k == "CXXConstCastExpr":
            facts.touches.append(("constcast", "", "", True, locked))
        if k == "MemberExpr" and "referencedMemberDecl" in n:
            rid = n["referencedMemberDecl"]
            f = self.tu.fields.get(rid)
            if f is not None and f[2]:
                w = self.classify_touch(stack, n, f)
                facts.touches.append(("mutable", f[0], f[1], w, locked))
            m = self.tu.methods.get(rid)
            if m is not None:
                on_this = bool(ch) and root_is_this(ch[0])
                recv = "this" if on_this else ("other_const" if m["const"] or m["static"] else "other_nonconst")
                facts.calls.append(((m["cls"], m["name"]), locked, recv))
                if (not m["const"]) and (not m["static"]) and m["kind"] in ("CXXMethodDecl",) and m["cls"] in self.repo_classes \
                        and ch and root_is_this(ch[0]):
                    # object reached from `this`: only possible through a pointer-like member (or a mutable one, F3a)
                    facts.touches.append(("nonconst", m["cls"] + "::" + m["name"], "", True, locked))
        elif k == "DeclRefExpr":
            rd = n.get("referencedDecl", {})
            rid = rd.get("id")
            if rid in self.tu.funcs:
                facts.calls.append(((None, self.tu.funcs[rid]), locked, "this"))
            elif rd.get("kind") in ("CXXMethodDecl",) and rid in self.tu.methods:
                m = self.tu.methods[rid]
                facts.calls.append(((m["cls"], m["name"]), locked, "this"))
        elif k in ("UnresolvedMemberExpr", "CXXDependentScopeMemberExpr", "UnresolvedLookupExpr"):
            nm = n.get("name") or n.get("member")
            if nm:
                facts.calls.append((("?", nm), locked, "this"))
        elif k == "CXXConstructExpr":
            pass
        for c in ch:
            self.walk(c, facts, locked, stack + [n])

    def case_labels(self, n):
        """labels of a (possibly nested) CaseStmt chain and the final sub-statement"""
        labels = []
        while n.get("kind") in ("CaseStmt", "DefaultStmt"):
            ch = inner(n)
            if n["kind"] == "DefaultStmt":
                labels.append("default")
                n = ch[0] if ch else {}
            else:
                labels.append(render(ch[0]))
                n = ch[-1] if len(ch) > 1 else {}
        return labels, n

    def terminates(self, n):
        k = n.get("kind")
        if k in ("BreakStmt", "ReturnStmt", "CXXThrowExpr"):
            return True
        if k == "CompoundStmt" and inner(n):
            return self.terminates(inner(n)[-1])
        if k == "ExprWithCleanups" and inner(n):
            return self.terminates(inner(n)[0])
        return False

    def walk_mode_switch(self, body, facts, locked, stack):
        keep, last, last_keep = None, None, None
        for c in inner(body):
            if c.get("kind") in ("CaseStmt", "DefaultStmt"):
                labels, sub = self.case_labels(c)
                for lb in labels:
                    if lb != "default" and lb not in PRUNED_CASES and lb not in KEPT_CASES:
                        raise TranslatorError("switch(acceleration->mode): unknown case label " + lb)
                new_keep = any(lb == "default" or lb in KEPT_CASES for lb in labels)
                if keep is not None and last is not None and not self.terminates(last) and last_keep != new_keep:
                    raise TranslatorError("switch(acceleration->mode): a section falls through into a section of another class")
                keep = new_keep
                if keep:
                    self.walk(sub, facts, locked, stack + [body])
                last, last_keep = sub, keep
            else:
                if keep is None:
                    raise TranslatorError("switch(acceleration->mode): statement before the first label")
                if keep:
                    self.walk(c, facts, locked, stack + [body])
                last, last_keep = c, keep


# ---------------------------------------------------------------------------------------------------- whole library
def analyse_tu(args):
    repo, cfgdir, src = args
    objs = dump_tu(repo, cfgdir, src)
    tu = TU(src)
    for o in objs:
        tu.scan_locs(o)
    for o in objs:
        tu.decl(o, [], None, None)
    repo_classes = set(q for q, info in tu.class_info.items() if in_repo_sparse(info["file"], repo))
    an = Analyzer(tu, repo, repo_classes)
    out_methods = []
    for d in tu.defs:
        if not in_repo_sparse(d["file"], repo):
            continue
        facts = BodyFacts()
        an.walk(d["body"], facts, False, [])
        for ci in d.get("ctor_inits", []):
            an.walk(ci, facts, False, [])
        out_methods.append({"cls": d["cls"], "name": d["name"], "const": d["const"], "access": d["access"], "virtual": d["virtual"],
                            "file": os.path.relpath(d["file"], repo), "line": d["line"], "kind": d["kind"],
                            "touches": sorted(set(facts.touches)), "calls": sorted(set((str(a), str(b), l, r) for (a, b), l, r in facts.calls))})
    if an.unknown:
        raise TranslatorError("unknown acceleration-dependent condition(s) in %s (pin them in PINNED_CONDITIONS): %s"
                              % (src, " ;; ".join(sorted(set(an.unknown)))))
    classes = {}
    for q, info in tu.class_info.items():
        classes[q] = {"fields": info["fields"], "bases": info["bases"], "file": os.path.relpath(info["file"], repo) if in_repo_sparse(info["file"], repo) else None,
                      "line": info["line"]}
    decls = {}
    for m in tu.methods.values():
        decls.setdefault((m["cls"], m["name"]), {"virtual": False, "access": set(), "const": set()})
        e = decls[(m["cls"], m["name"])]
        e["virtual"] = e["virtual"] or m["virtual"]
        e["access"].add(m["access"])
        e["const"].add(m["const"])
    return {"tu": src, "methods": out_methods, "classes": classes,
            "decls": [(c, nme, e["virtual"], sorted(str(a) for a in e["access"]), sorted(e["const"])) for (c, nme), e in decls.items()]}


def collect(repo, cfgdir):
    for t in LIB_TUS:
        if not os.path.exists(os.path.join(repo, "SparseGrids", t)):
            raise TranslatorError("library source SparseGrids/%s is missing" % t)
    extra = sorted(f for f in os.listdir(os.path.join(repo, "SparseGrids")) if f.endswith(".cpp") and f.startswith(("tsg", "Tasmanian"))
                   and f not in LIB_TUS and f not in NOT_BUILT and "WrapC" not in f and "Wrapper" not in f and "Fortran" not in f)
    if extra:
        raise TranslatorError("library sources not known to the translator: " + ", ".join(extra))
    with cf.ProcessPoolExecutor(min(8, os.cpu_count() or 2)) as ex:
        res = list(ex.map(analyse_tu, [(repo, cfgdir, t) for t in LIB_TUS]))
    classes, methods, decls = {}, {}, {}
    for r in res:
        for q, info in r["classes"].items():
            if q not in classes or (classes[q]["file"] is None and info["file"] is not None):
                classes[q] = info
        for m in r["methods"]:
            key = (m["cls"], m["name"], m["const"], m["file"], m["line"])
            if key in methods:
                # the same definition seen from another translation unit (header) or another instantiation: merge
                methods[key]["touches"] = sorted(set(map(tuple, methods[key]["touches"])) | set(map(tuple, m["touches"])))
                methods[key]["calls"] = sorted(set(map(tuple, methods[key]["calls"])) | set(map(tuple, m["calls"])))
            else:
                methods[key] = m
        for c, nme, virt, acc, const in r["decls"]:
            e = decls.setdefault((c, nme), {"virtual": False, "access": set(), "const": set()})
            e["virtual"] = e["virtual"] or virt
            e["access"] |= set(acc)
            e["const"] |= set(const)
    return classes, list(methods.values()), decls


def base_name(bt):
    bt = bt.replace("class ", "").replace("struct ", "").strip()
    return bt if bt.startswith("TasGrid::") else "TasGrid::" + bt


def reach(classes, methods, decls):
    """-> dict id(method) -> (reachable, reachable_unlocked)"""
    for c in REQUIRED_CLASSES:
        if c not in classes:
            raise TranslatorError("class %s not found in the AST" % c)
    derived = {}
    for q, info in classes.items():
        for b in info["bases"]:
            derived.setdefault(base_name(b), set()).add(q)

    def family(c):
        out, todo = set(), [c]
        while todo:
            x = todo.pop()
            if x in out:
                continue
            out.add(x)
            todo += list(derived.get(x, ()))
            for b in classes.get(x, {}).get("bases", []):
                todo.append(base_name(b))
        return out

    by_name = {}
    for i, m in enumerate(methods):
        by_name.setdefault((m["cls"], m["name"]), []).append(i)
    by_plain = {}
    for i, m in enumerate(methods):
        by_plain.setdefault(m["name"], []).append(i)

    def targets(caller, a, b):
        if a == "None":
            return by_name.get((None, b), [])
        if a == "?":
            cl = family(caller["cls"]) if caller["cls"] else set()
            return [i for i in by_plain.get(b, []) if methods[i]["cls"] in cl or methods[i]["cls"] is None and b == methods[i]["name"].split("::")[-1]] + \
                   [i for i, m in enumerate(methods) if m["cls"] is None and m["name"].split("::")[-1] == b]
        out = list(by_name.get((a, b), []))
        if decls.get((a, b), {}).get("virtual") or not out:
            for d in derived_closure(a):
                out += by_name.get((d, b), [])
        return out

    def derived_closure(c):
        out, todo = set(), [c]
        while todo:
            x = todo.pop()
            for d in derived.get(x, ()):
                if d not in out:
                    out.add(d)
                    todo.append(d)
        return out

    # state: index -> set of (lock held, `this` is (part of) the shared grid)
    state = {}
    todo = []
    entries = set()
    for i, m in enumerate(methods):
        if m["cls"] == ENTRY_CLASS and m["const"] and m["access"] == "public":
            entries.add(i)
            state[i] = {(False, True)}
            todo.append((i, False, True))
    if len(entries) < 40:
        raise TranslatorError("only %d public const methods of TasmanianSparseGrid found" % len(entries))
    while todo:
        i, lk, sh = todo.pop()
        m = methods[i]
        for a, b, call_locked, recv in m["calls"]:
            nl = lk or call_locked
            # a call on `this` (or a member reached from it) keeps the mode of the caller; a const call on any other
            # object may alias the shared grid through a const reference; a non-const call on another object can only be a
            # call on an object that is local to the calling thread
            ns = sh if recv == "this" else (recv == "other_const")
            for t in targets(m, a, b):
                if (nl, ns) not in state.setdefault(t, set()):
                    state[t].add((nl, ns))
                    todo.append((t, nl, ns))
    return state, entries


def coq_str(s):
    return '"' + s.replace('"', '""') + '"'


def generate(repo, cfgdir):
    classes, methods, decls = collect(repo, cfgdir)
    state, entries = reach(classes, methods, decls)
    mut = []
    for q in sorted(classes):
        if classes[q]["file"] is None:
            continue
        for nme, mu, ty in classes[q]["fields"]:
            if mu:
                mut.append((q, nme, ty, classes[q]["file"]))
    if not any(f == "inter_matrix" for _, f, _, _ in mut) and not any("gpu_cache" == f for _, f, _, _ in mut):
        raise TranslatorError("no mutable member found at all: the AST scan is broken")
    rows, unreachable, clean = [], [], 0
    for i, m in enumerate(methods):
        if not m["const"]:
            continue
        st = set(lk for lk, sh in state.get(i, ()) if sh)
        if not st:
            if m["touches"]:
                unreachable.append(m)
            continue
        if not m["touches"]:
            clean += 1
            continue
        rows.append((m, False in st, i in entries))
    rows.sort(key=lambda r: (r[0]["cls"] or "", r[0]["name"], r[0]["file"], r[0]["line"]))
    unreachable.sort(key=lambda m: (m["cls"] or "", m["name"], m["file"], m["line"]))
    nreach_const = sum(1 for i, m in enumerate(methods) if m["const"] and any(sh for _, sh in state.get(i, ())))

    def touch_coq(t):
        kind, c, f, w, lk = t
        if kind == "mutable":
            return "TMutable %s %s %s %s" % (coq_str(c), coq_str(f), "true" if w else "false", "true" if lk else "false")
        if kind == "constcast":
            return "TConstCast"
        return "TNonConstCall %s" % coq_str(c)

    L = []
    L.append("(* GENERATED by translator/footprint.py from the working tree — do not edit.")
    L.append("   Source: clang JSON AST (-ast-dump=json -ast-dump-filter=TasGrid) of %d translation units of SparseGrids/." % len(LIB_TUS))
    L.append("   The classification is syntactic and trusted.  Rules:")
    doc = __doc__.split("\n")
    for line in doc[[i for i, l in enumerate(doc) if l.startswith(" F1")][0]:[i for i, l in enumerate(doc) if l.startswith("usage:")][0] - 1]:
        L.append("   " + line.replace("(*", "( *").replace("*)", "* )"))
    L.append("   Totals: %d const methods of library classes are reachable from the %d public const methods of TasmanianSparseGrid" % (nreach_const, len(entries)))
    L.append("   under accel_none; %d of them have no touch at all and are not listed; %d are listed below. *)" % (clean, len(rows)))
    L.append("From TV Require Import Common.Prelude Model.Footprint.")
    L.append("From Coq Require Import String.")
    L.append("Local Open Scope string_scope.")
    L.append("")
    L.append("(* every `mutable` data member of the library: (class, member, type, file) *)")
    L.append("Definition mutable_members : list (string * string * string * string) := [")
    L.append(";\n".join("  (%s, %s, %s, %s)" % (coq_str(a), coq_str(b), coq_str(c), coq_str(d)) for a, b, c, d in mut))
    L.append("].")
    L.append("")
    L.append("Definition reachable_const_methods_total : nat := %d." % nreach_const)
    L.append("Definition reachable_const_methods_without_touch : nat := %d." % clean)
    L.append("")
    L.append("(* const methods reachable from the public const API under accel_none whose bodies have a touch *)")
    L.append("Definition const_methods : list cmethod := [")
    L.append(";\n".join("  mkMethod %s %s %s %d %s %s\n    [%s]" % (
        coq_str(m["cls"] or ""), coq_str(m["name"]), coq_str(m["file"]), m["line"] or 0, "true" if ent else "false", "true" if unl else "false",
        "; ".join(touch_coq(t) for t in m["touches"])) for m, unl, ent in rows))
    L.append("].")
    L.append("")
    L.append("(* for the record: const methods with touches that are NOT reachable under accel_none (GPU / BLAS paths, helpers of")
    L.append("   non-const methods) *)")
    L.append("Definition unreachable_const_methods : list cmethod := [")
    L.append(";\n".join("  mkMethod %s %s %s %d false false\n    [%s]" % (
        coq_str(m["cls"] or ""), coq_str(m["name"]), coq_str(m["file"]), m["line"] or 0,
        "; ".join(touch_coq(t) for t in m["touches"])) for m in unreachable))
    L.append("].")
    text = "\n".join(L) + "\n"
    facts = {"mutable_members": mut, "reachable_const": nreach_const, "clean": clean, "entries": len(entries),
             "listed": [{"cls": m["cls"], "name": m["name"], "file": m["file"], "line": m["line"], "unlocked": unl, "entry": ent,
                         "touches": m["touches"]} for m, unl, ent in rows],
             "unreachable": [{"cls": m["cls"], "name": m["name"], "file": m["file"], "line": m["line"], "touches": m["touches"]} for m in unreachable]}
    return text, facts


def write_if_changed(path, text):
    try:
        with open(path) as fh:
            if fh.read() == text:
                return False
    except OSError:
        pass
    os.makedirs(os.path.dirname(path), exist_ok=True)
    with open(path + ".tmp", "w") as fh:
        fh.write(text)
    os.replace(path + ".tmp", path)
    return True


def main():
    if len(sys.argv) < 3:
        print(__doc__)
        return 2
    repo, out = sys.argv[1], sys.argv[2]
    cfg = sys.argv[3] if len(sys.argv) > 3 else None
    if cfg is None:
        sys.path.insert(0, os.path.join(os.path.dirname(os.path.dirname(os.path.abspath(__file__))), "tools"))
        import vlib
        cfg = vlib.build_lib("plain")["cfg"]
    try:
        text, facts = generate(repo, cfg)
    except TranslatorError as e:
        print("footprint.py: " + str(e), file=sys.stderr)
        return 2
    print("changed" if write_if_changed(out, text) else "unchanged", len(facts["listed"]), "listed methods")
    return 0


if __name__ == "__main__":
    sys.exit(main())
