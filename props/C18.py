"""C18 — parallel constructSurrogate and threaded loadNeededValues: race-free, exactly-once, bounded.

Decided by
 * the theorems of coq/Props/Properties_C18.v about the interleaving transition system coq/Model/Workers.v (sequentially
   consistent semantics of the mutex-protected steps, explicit wait sets for the two condition variables);
 * trace validation: when the guarded trace points of fixes/hooks-C18.diff are present in the tree (HOOKS 1) every run of
   harness/pardrv.cpp logs (ticket, thread, event, payload) records and the *extracted* model must accept the logged
   transition sequence with identical payloads (ocaml/workers_main.ml); when they are absent the check falls back to the
   black-box observations only and records hooks_present = false;
 * black-box evaluation of the statement on every run (model-callback log, final grid), under ThreadSanitizer.
Weak-memory effects, real scheduling and fairness are runtime behaviour: exercised, not proved."""
import concurrent.futures as cf
import hashlib
import json
import os
import subprocess
import time

import vlib

LEVEL = "proof"   # partial: see props/C18.manifest.json (weak memory, scheduling, fairness are runtime behaviour)
PID = "C18"

TRUSTED = [
    "Coq 8.16.1 kernel (vm_compute used in the non-vacuity Examples; no native_compute)",
    "axioms: none (Print Assumptions: Closed under the global context for every theorem)",
    "extraction: ExtrOcamlBasic (bool, option, list, prod, unit -> OCaml) and ExtrOcamlNatInt (nat -> OCaml int; used by the "
    "runner binary only: point/value names and counters stay below 2^40)",
    "OCaml glue ocaml/workers_main.ml + common.ml: maps logged events to labels of the extracted [step]; a thread parked inside "
    "cv.wait is not observable, its lock-and-test step is replayed when its wake event is logged",
    "C++ driver harness/pardrv.cpp (lock-free logging: one buffer per thread, tickets from one relaxed atomic counter), "
    "g++ -fsanitize=thread (ThreadSanitizer runtime), libstdc++ std::mutex / std::condition_variable / std::thread",
    "modelled, not verified: constructCommon<mode_parallel>, CandidateManager, CompleteStorage, the loadNeededValues work queue; "
    "the grid is abstract (its candidate oracle is the payload of the refresh labels, hypothesis H-CAND checked on every logged refresh)",
    "sequentially consistent interleaving of the mutex-protected steps is a modelling assumption; the C++ memory model, the "
    "scheduler and fairness are outside every theorem",
]

ENV = dict(os.environ, TSAN_OPTIONS="halt_on_error=0 exitcode=0 report_thread_leaks=0 history_size=4 second_deadlock_stack=1")
RUN_TIMEOUT = 12.0


# ---------------------------------------------------------------------------------------------
# configurations
def gen_config(r, idx):
    mode = r.choice(["cs"] * 7 + ["api"] + ["lnv"] * 2)
    c = {"idx": idx, "mode": mode, "seed": r.randrange(1, 1 << 30), "lat": r.choice([0, 0, 1, 2, 2]), "yield": r.choice([0, 1, 1, 2]),
         "jobs": r.choice([1, 2, 2, 3, 4, 4, 5, 6, 8]), "outs": r.choice([1, 1, 2])}
    if mode == "lnv":
        c["grid"] = r.choice(["localp", "sequence", "global", "semilocalp"])
        c["dims"] = r.choice([1, 2, 2, 3])
        c["depth"] = r.choice([0, 1, 2, 3, 4]) if c["grid"] in ("localp", "semilocalp") else r.choice([0, 1, 3, 5, 7])
        c["order"] = r.choice([1, 2])
        c["overwrite"] = r.choice([0, 0, 1])
        c["vecmodel"] = r.choice([0, 1])
        if r.random() < 0.15:
            c["jobs"] = r.choice([12, 16])     # more threads than samples on the small grids
        return c
    c["batch"] = r.choice([1, 1, 2, 3])
    c["guess"] = r.choice([0, 0, 1])
    c["preload"] = r.choice([0, 0, 0, 1])
    fam = r.choice(["localp"] * 5 + ["semilocalp", "localp0", "sequence", "global"])
    c["grid"] = fam
    if fam in ("sequence", "global"):
        c["cand"] = "aniso"
        c["dims"] = r.choice([1, 2, 2, 3])
        c["depth"] = r.choice([1, 2, 3])
        if fam == "sequence":     # level limit l: (l+1)^dims candidates at most
            c["limit"] = r.choice([-1, 3, 4, 5])
            pool = (c["limit"] + 1) ** c["dims"]
        else:                     # clenshaw-curtis, level limit l: (2^l+1)^dims candidates at most
            c["limit"] = r.choice([-1, 2, 3])
            pool = (2 ** c["limit"] + 1) ** c["dims"]
        if c["limit"] < 0:       # infinite candidate pool: the budget must end the run
            c["budget"] = r.choice([1, 2, 3, 5, 8, 13, 20, 40, 60])
        else:                    # budgets below / above the pool; no budget only when the pool is small
            c["budget"] = r.choice([1, 2, 4, 7, 15, 30, 80, 400] + ([-1] if pool <= 300 else [100]))
    else:
        c["cand"] = "surplus"
        c["dims"] = r.choice([1, 2, 2, 3])
        c["depth"] = r.choice([0, 1, 1, 2, 3])
        c["order"] = r.choice([1, 1, 2])
        c["tol"] = r.choice([0.3, 0.1, 3e-2, 1e-2, 3e-3, 1e-3])
        c["crit"] = r.choice(["classic", "parents", "direction", "fds", "stable"])
        c["limit"] = r.choice([-1, -1, 3, 5])
        # budgets smaller / equal / larger than what the tolerance asks for, and smaller than jobs*batch
        c["budget"] = r.choice([1, 2, 3, 5, 8, 13, 21, 34, 60, 100, 250, 1000, -1])
        # keep the candidate pool finite where the tolerance cannot end the run: no budget, a large budget, or zero-boundary basis
        # functions (localp0 never converges near the boundary for a function that does not vanish there and would refine until
        # the integer point indices overflow) -- such runs do not terminate by design, which is not what C18 is about
        if (c["budget"] == -1 or c["budget"] >= 250 or fam == "localp0") and c["limit"] < 0:
            c["limit"] = r.choice([4, 5, 6])
    return c


# budget smaller than the launch loop, preloaded grid at the budget: the launch loop of the parallel mode (witness)
CORPUS = [
    # a sample that is still being computed stops being a candidate (comment in CandidateManager::complete): lat=3 sets the scenario up
    {"idx": "w-running-job-dropped", "mode": "cs", "seed": 11, "lat": 3, "yield": 0, "jobs": 2, "outs": 1, "batch": 1, "guess": 0, "preload": 0,
     "grid": "localp", "cand": "surplus", "dims": 1, "depth": 1, "order": 1, "tol": 1e-2, "crit": "classic", "limit": -1, "budget": 25},
    {"idx": "w-running-job-dropped-api", "mode": "api", "seed": 12, "lat": 3, "yield": 0, "jobs": 2, "outs": 1, "batch": 1, "guess": 0, "preload": 0,
     "grid": "localp", "cand": "surplus", "dims": 1, "depth": 1, "order": 1, "tol": 1e-2, "crit": "classic", "limit": -1, "budget": 25},
    {"idx": "w-budget-lt-jobs", "mode": "cs", "seed": 7, "lat": 0, "yield": 0, "jobs": 4, "outs": 1, "batch": 1, "guess": 0, "preload": 0,
     "grid": "localp", "cand": "surplus", "dims": 2, "depth": 1, "order": 1, "tol": 1e-3, "crit": "classic", "limit": -1, "budget": 2},
    {"idx": "w-budget-preloaded", "mode": "api", "seed": 8, "lat": 0, "yield": 0, "jobs": 3, "outs": 1, "batch": 1, "guess": 0, "preload": 1,
     "grid": "localp", "cand": "surplus", "dims": 2, "depth": 1, "order": 1, "tol": 1e-3, "crit": "classic", "limit": -1, "budget": 5},
    {"idx": "w-batch-budget", "mode": "cs", "seed": 9, "lat": 2, "yield": 1, "jobs": 4, "outs": 1, "batch": 2, "guess": 0, "preload": 0,
     "grid": "localp", "cand": "surplus", "dims": 2, "depth": 2, "order": 1, "tol": 1e-3, "crit": "classic", "limit": -1, "budget": 3},
    {"idx": "w-many-workers", "mode": "cs", "seed": 10, "lat": 2, "yield": 2, "jobs": 8, "outs": 1, "batch": 3, "guess": 0, "preload": 0,
     "grid": "localp", "cand": "surplus", "dims": 3, "depth": 2, "order": 1, "tol": 1e-3, "crit": "classic", "limit": -1, "budget": 300},
    # thread-free witnesses of the grid behaviour behind key final-grid-not-interpolating-localpoly (mode seq = loadConstructedPoints one
    # point at a time in this order, no threads): (1,0,0) is loaded after (1,1,-1), whose parents (1,0,-1) and (1,1,0) are missing, and
    # the surplus of (1,1,-1) is never corrected; the second is the minimised load order of a parallel run whose FINAL point set was
    # parent-complete and still did not interpolate
    {"idx": "w-stale-surplus-localp3d", "mode": "seq", "seed": 1, "lat": 0, "yield": 0, "jobs": 1, "outs": 1, "batch": 1, "budget": -1, "grid": "localp",
     "dims": 3, "depth": 0, "order": 1, "seq": "0,0,0;0,1,0;0,1,-1;1,1,-1;1,0,0"},
    {"idx": "w-stale-surplus-semilocalp2d", "mode": "seq", "seed": 1, "lat": 0, "yield": 0, "jobs": 1, "outs": 1, "batch": 1, "budget": -1,
     "grid": "semilocalp", "dims": 2, "depth": 1, "order": 2, "seq": "0.0,0.0;1.0,0.0;1.0,1.0;-0.5,1.0;-0.5,-0.5;1.0,-0.5"},
    # getCandidateConstructionPoints re-proposing a delivered (parked) sample: schedule dependent (about 1 run in 5), four tries
] + [
    {"idx": "w-reproposed-%d" % i, "mode": "cs", "seed": 716580366 + i, "lat": 1, "yield": 0, "jobs": 3, "outs": 2, "batch": 1, "guess": 1, "preload": 0,
     "grid": "localp", "cand": "surplus", "dims": 2, "depth": 2, "order": 1, "tol": 1e-3, "crit": "stable", "limit": 6, "budget": -1} for i in range(4)
] + [
    {"idx": "w-lnv", "mode": "lnv", "seed": 11, "lat": 2, "yield": 1, "jobs": 4, "outs": 1, "grid": "sequence", "dims": 2, "depth": 5, "order": 1,
     "overwrite": 0, "vecmodel": 0},
]


def cfg_args(c):
    return ["%s=%s" % (k, c[k]) for k in sorted(c) if k != "idx"]


def cfg_key(c):
    return " ".join(cfg_args(c))


# ---------------------------------------------------------------------------------------------
# running one configuration; deadlock = every thread blocked (no CPU time consumed) while the process is alive
def _cpu_ticks(pid):
    try:
        with open("/proc/%d/stat" % pid) as fh:
            f = fh.read().rsplit(")", 1)[1].split()
        return int(f[11]) + int(f[12])
    except (OSError, IndexError, ValueError):
        return None


def _thread_states(pid):
    out = []
    try:
        for t in sorted(os.listdir("/proc/%d/task" % pid)):
            try:
                st = open("/proc/%d/task/%s/stat" % (pid, t)).read().rsplit(")", 1)[1].split()[0]
                try:
                    wch = open("/proc/%d/task/%s/wchan" % (pid, t)).read().strip()
                except OSError:
                    wch = "?"
                out.append("%s:%s:%s" % (t, st, wch))
            except OSError:
                pass
    except OSError:
        pass
    return out


def run_one(exe, c, timeout=RUN_TIMEOUT):
    """-> dict(rc, out, err, hang=None|'deadlock'|'timeout', threads=[...], wall)"""
    t0 = time.time()
    p = subprocess.Popen([exe] + cfg_args(c), stdout=subprocess.PIPE, stderr=subprocess.PIPE, text=True, errors="replace", env=ENV)
    hang, threads = None, []
    try:
        so, se = p.communicate(timeout=timeout)
    except subprocess.TimeoutExpired:
        a = _cpu_ticks(p.pid)
        time.sleep(1.0)
        b = _cpu_ticks(p.pid)
        if a is not None and b is not None and b - a <= 1 and p.poll() is None:
            hang = "deadlock"
            threads = _thread_states(p.pid)
        else:
            try:   # still computing: allow 10x before calling it a hang
                so, se = p.communicate(timeout=10 * timeout)
            except subprocess.TimeoutExpired:
                hang = "timeout"
                threads = _thread_states(p.pid)
        if hang:
            p.kill()
            so, se = p.communicate()
    return {"rc": p.returncode, "out": so, "err": se, "hang": hang, "threads": threads, "wall": time.time() - t0}


def parse_out(text):
    o = {"hooks": None, "points": {}, "init": [], "iv": {}, "calls": [], "T": [], "lp": {}, "lv": {}, "lnv": None, "result": None,
         "final": None, "complete": True, "missing_parents": 0, "refresh": [], "collect": []}
    for line in text.split("\n"):
        t = line.split()
        if not t:
            continue
        k = t[0]
        if k == "T":
            o["T"].append(line)
            if t[3] in ("refresh", "collect"):      # refresh: logged by the driver's candidates lambda (mode cs), hooks or not
                bar = t.index("|")
                o[t[3]].append((int(t[1]), set(int(v) for v in t[bar + 1:t.index("|", bar + 1)])))
        elif k == "CALL":
            bar = t.index("|")
            n = int(t[5])
            o["calls"].append({"thread": int(t[1]), "enter": int(t[2]), "exit": int(t[3]), "serial": int(t[4]),
                               "pts": [int(v) for v in t[6:bar]], "vals": [float.fromhex(v) for v in t[bar + 1:]], "n": n})
        elif k == "P":
            o["points"][int(t[1])] = t[2:]
        elif k == "HOOKS":
            o["hooks"] = t[1] == "1"
        elif k == "INIT":
            o["init"] = [int(v) for v in t[2:]]
        elif k == "IV":
            o["iv"][int(t[1])] = [float.fromhex(v) for v in t[2:]]
        elif k == "LP":
            bar = t.index("|")
            o["lp"][int(t[1])] = [float.fromhex(v) for v in t[2:bar]]
            o["lv"][int(t[1])] = [float.fromhex(v) for v in t[bar + 1:]]
        elif k == "COMPLETE":
            o["complete"] = t[1] == "1"
            o["missing_parents"] = int(t[2])
        elif k == "LNV":
            o["lnv"] = [int(v) for v in t[2:]]
        elif k == "YSIZE":
            o["ysize"] = [int(v) for v in t[1:4]]
        elif k == "FINAL":
            o["final"] = {"loaded": int(t[2]), "needed": int(t[4])}
        elif k == "RESULT":
            o["result"] = " ".join(t[1:])
    return o


def tsan_reports(err):
    """-> list of (kind, site) for every ThreadSanitizer report on stderr; site = source file of the innermost library frame"""
    import re
    reps = []
    blocks = err.split("WARNING: ThreadSanitizer: ")[1:]
    for b in blocks:
        kind = b.split("(")[0].strip().split("\n")[0].strip()
        site = "unknown"
        for line in b.split("\n"):
            line = line.strip()
            if not line.startswith("#"):
                continue
            m = re.search(r"/(?:Addons|SparseGrids|DREAM)/([A-Za-z0-9_]+\.(?:hpp|cpp)):\d+", line)
            if m:
                site = m.group(1)
                break
        if site == "unknown":      # frames of the header-only templates carry no file name
            for fn in ("constructCommon", "loadNeededValues", "CandidateManager", "CompleteStorage"):
                if fn in b:
                    site = fn
                    break
        reps.append((kind, site))
    return reps


# ---------------------------------------------------------------------------------------------
# black-box evaluation of the statement on one run
def close(a, b):
    return abs(a - b) <= 1e-9 * max(1.0, abs(a), abs(b))


def blackbox(c, o, stats):
    """-> list of (key, what)"""
    v = []
    outs = c["outs"]
    calls = o["calls"]
    jobs = max(1, c["jobs"])
    # never two concurrent calls with the same thread id; ids in range
    byt = {}
    for cl in calls:
        byt.setdefault(cl["thread"], []).append(cl)
        if cl["thread"] >= jobs:
            v.append(("thread-id-range", "model called with thread id %d >= %d" % (cl["thread"], jobs)))
    for t, cs in byt.items():
        cs.sort(key=lambda x: x["enter"])
        for a, b in zip(cs, cs[1:]):
            if b["enter"] < a["exit"]:
                v.append(("same-id-concurrency", "two concurrent model calls with thread id %d (tickets %d-%d and %d-%d)"
                          % (t, a["enter"], a["exit"], b["enter"], b["exit"])))
    # at most `jobs` calls in flight
    evs = sorted([(cl["enter"], 1) for cl in calls] + [(cl["exit"], -1) for cl in calls])
    fl = mx = 0
    for _t, d in evs:
        fl += d
        mx = max(mx, fl)
    stats["max_in_flight"] = max(stats.get("max_in_flight", 0), mx)
    if mx > jobs:
        v.append(("too-many-concurrent-calls", "%d model calls in flight with %d jobs" % (mx, jobs)))
    # the buffer handed to the model: without an initial guess it has the documented size outputs x samples (a longer one is stored whole and shifts later samples)
    ys = o.get("ysize") if isinstance(o, dict) else None
    if ys and ys[0] > 0:
        v.append(("model-buffer-size", "%d model calls received an output buffer of the wrong size without an initial guess, first: %d samples x %d outputs but y.size() = %d"
                  % (ys[0], ys[1], outs, ys[2])))
    # calls per point
    cnt, val = {}, {}
    for cl in calls:
        if len(set(cl["pts"])) != len(cl["pts"]) or not cl["pts"]:
            v.append(("bad-batch", "a model call with an empty batch or a repeated point: %s" % cl["pts"]))
        for i, p in enumerate(cl["pts"]):
            cnt[p] = cnt.get(p, 0) + 1
            val.setdefault(p, []).append(cl["vals"][i * outs:(i + 1) * outs])
    total = sum(cnt.values())
    stats["points_evaluated"] = stats.get("points_evaluated", 0) + total
    if c["mode"] == "lnv":
        if o["result"] != "ok":
            v.append(("exception", "run ended with: %s" % o["result"]))
            return v
        want = o["lnv"] or []
        bad = [p for p in want if cnt.get(p, 0) != 1] + [p for p in cnt if p not in set(want)]
        if bad:
            v.append(("queue-not-exactly-once", "loadNeededValues: samples not evaluated exactly once: %s" %
                      [(p, cnt.get(p, 0)) for p in bad[:5]]))
        if o["final"] and o["final"]["loaded"] != len(want):
            v.append(("lnv-loaded-count", "loaded %d of %d samples" % (o["final"]["loaded"], len(want))))
    else:
        dbl = [p for p, k in cnt.items() if k > 1]
        reproposed = []
        if dbl:
            stats["double_evaluations"] = stats.get("double_evaluations", 0) + len(dbl)
            for p in dbl:
                cp = sorted([cl for cl in calls if p in cl["pts"]], key=lambda x: x["enter"])
                # re-proposal by the grid: every later call starts after the earlier one returned AND (mode cs) a candidate list
                # containing p was delivered in between; anything else is the hand-out protocol's fault
                ok = True
                for a, b in zip(cp, cp[1:]):
                    if b["enter"] < a["exit"]:
                        ok = False
                    elif c["mode"] == "cs":
                        # with hooks: the sample of the earlier call must have been collected before the list that proposes p again
                        tcol = min([tk for tk, ps in o["collect"] if p in ps and tk > a["exit"]] or [a["exit"] if not o["hooks"] else None],
                                   key=lambda x: (x is None, x))
                        if tcol is None or not any(tcol < tk < b["enter"] and p in ps for tk, ps in o["refresh"]):
                            ok = False
                if ok:
                    reproposed.append(p)
                else:
                    v.append(("double-evaluation", "model called %d times for point %s (%s) without a new candidate list proposing it again"
                              % (cnt[p], p, " ".join(o["points"].get(p, [])))))
            if reproposed:
                p = reproposed[0]
                v.append(("candidate-reproposed-delivered-point",
                          "getCandidateConstructionPoints proposed point %s (%s) again after its sample had been computed and delivered; the model "
                          "was called %d times for it and the sample was loaded more than once (%d such points)"
                          % (p, " ".join(o["points"].get(p, [])), cnt[p], len(reproposed))))
                stats["runs_with_reproposed_points"] = stats.get("runs_with_reproposed_points", 0) + 1
                return v       # the grid has been fed the same point twice: its state is unreliable from here on, nothing else is judged
        if o["result"] != "ok":
            v.append(("exception", "run ended with: %s" % o["result"]))
            return v
        pre = [p for p in cnt if p in set(o["init"])]
        if pre:
            v.append(("reevaluated-loaded-point", "model called for the already loaded point %s" % pre[0]))
        for cl in calls:
            if cl["n"] > max(1, c["batch"]):
                v.append(("batch-size", "a model call with %d > max_samples_per_job=%d points" % (cl["n"], c["batch"])))
        # budget: launched = already loaded + evaluated
        n0 = len(o["init"])
        if c["budget"] >= 0:
            cap = max(c["budget"], n0)
            first = sum(cs[0]["n"] for cs in byt.values())
            if n0 + total > cap:
                if n0 + first > cap:
                    v.append(("budget-initial-launch",
                              "max_num_points=%d, %d already loaded, but the launch loop started %d samples (%d evaluated in total)"
                              % (c["budget"], n0, first, total)))
                if n0 + total > max(cap, n0 + first):
                    v.append(("budget-exceeded-main-loop", "max_num_points=%d, %d loaded before, %d samples evaluated, %d by the launch loop"
                              % (c["budget"], n0, total, first)))
    # (a) every value sits at the point it was computed for: the grid's loaded value at p is what the model returned for p
    # (b) the final surrogate reproduces the loaded values (hence the callback) at every loaded point
    nchk = 0
    if not o["complete"]:
        stats["final_grids_not_parent_complete"] = stats.get("final_grids_not_parent_complete", 0) + 1
    for p, gv in o["lp"].items():
        lv = o["lv"].get(p, gv)
        if p in val:
            if not any(all(close(a, b) for a, b in zip(lv, rv)) for rv in val[p]):
                v.append(("value-at-wrong-point", "loaded point %s (%s): grid holds the value %s, the model returned %s for it"
                          % (p, " ".join(o["points"].get(p, [])), lv, val[p])))
        elif p in o["iv"]:
            if not all(close(a, b) for a, b in zip(lv, o["iv"][p])):
                v.append(("preloaded-value-changed", "preloaded point %s: grid holds %s, loaded %s" % (p, lv, o["iv"][p])))
        else:
            v.append(("loaded-point-without-call", "point %s is loaded but the model was never called for it" % p))
        if not all(close(a, b) for a, b in zip(gv, lv)):
            # association is right (checked above); the grid's own surplus bookkeeping is off.  Observed for local polynomial grids
            # whose points arrived while the hierarchy was connected but not parent-complete (thread-free witnesses in CORPUS)
            key = "final-grid-not-interpolating-localpoly" if c["grid"] in ("localp", "semilocalp", "localp0") \
                else "final-grid-not-interpolating-" + c["grid"]
            v.append((key, "loaded point %s (%s): evaluate() gives %s but the loaded value is %s (final point set parent-complete: %s, "
                      "%d loaded points with a missing parent)" % (p, " ".join(o["points"].get(p, [])), gv, lv, o["complete"], o["missing_parents"])))
            break
        nchk += 1
    stats["loaded_points_checked"] = stats.get("loaded_points_checked", 0) + nchk
    stats["evaluated_not_loaded"] = stats.get("evaluated_not_loaded", 0) + sum(1 for p in cnt if p not in o["lp"])
    return v


def trace_case(name, c, o):
    """runner input for one run (hooks present)"""
    if c["mode"] == "cs":
        budget = c["budget"] if c["budget"] >= 0 else (1 << 40)
        head = "case %s cs %d %d %d %d | %s" % (name, c["jobs"], c["batch"], budget, len(o["init"]), " ".join(str(p) for p in o["init"]))
    elif c["mode"] == "lnv":
        head = "case %s lnv %d %d" % (name, len(o["lnv"] or []), c["jobs"])
    else:
        return None
    return "\n".join([head] + o["T"] + ["end"])


def trace_shape(o):
    h = hashlib.sha256()
    for line in o["T"]:
        t = line.split()
        h.update((" ".join(t[2:5])).encode())
    for cl in o["calls"]:
        h.update(("%d:%d" % (cl["thread"], cl["n"])).encode())
    return h.hexdigest()[:16]


# ---------------------------------------------------------------------------------------------
def run(res, tier, seed, replay_cfg=None, reps=1):
    props = vlib.coq_props(PID)
    vlib.proof_coverage(res, PID, props, "cd coq && make Props/Properties_C18.vo && coqc -Q . TV Props/Properties_C18.v", TRUSTED)
    ok_ext, elog = vlib.coq_make(["Extract/ExtractWorkers.vo"])
    proof_broken = (not props["ok"]) or bool(res.coverage["forbidden_tokens"])
    runner = vlib.ocaml_runner("workers") if ok_ext else None
    exe_tsan = vlib.build_driver("pardrv", "tsan")
    exe_plain = vlib.build_driver("pardrv", "plain")

    r = vlib.rng(seed, PID)
    nrun = {"quick": 100, "thorough": 3000}[tier]
    if proof_broken:
        nrun *= 2
    cfgs = []
    if replay_cfg is not None:
        for i in range(reps):
            c = dict(replay_cfg)
            c["idx"] = "replay%d" % i
            c["seed"] = int(replay_cfg.get("seed", 1)) + i
            cfgs.append(c)
    else:
        cfgs = [dict(c) for c in CORPUS]
        cdir = os.path.join(vlib.ROOT, "corpus", PID)
        if os.path.isdir(cdir):
            for f in sorted(os.listdir(cdir)):
                if f.endswith(".json"):
                    c = json.load(open(os.path.join(cdir, f)))
                    c["idx"] = "corpus-" + f[:-5]
                    cfgs.append(c)
        for i in range(nrun):
            cfgs.append(gen_config(r, i))
    # every configuration under ThreadSanitizer; every third one also with the uninstrumented build (different timing)
    jobs = []
    for i, c in enumerate(cfgs):
        jobs.append((c, "tsan", exe_tsan))
        if i % 3 == 0 or replay_cfg is not None:
            jobs.append((c, "plain", exe_plain))

    wd = os.path.join(vlib.BUILD, "work", PID)
    os.makedirs(wd, exist_ok=True)
    stats, dist, nkey = {}, {}, {}
    shapes, nontriv = set(), set()
    traces, trace_of = [], {}
    hooks_present = None
    n_tsan_reports = n_tsan_corrupted = 0
    hangs = 0
    t0 = time.time()
    with cf.ThreadPoolExecutor(max(2, vlib.NCPU // 3)) as ex:
        futs = [(c, var, ex.submit(run_one, exe, c)) for c, var, exe in jobs]
        for c, var, fu in futs:
            rr = fu.result()
            name = "%s.%s" % (c["idx"], var)
            rep = {"kind": "impl-counterexample", "config": c, "variant": var, "cmd": "pardrv " + cfg_key(c),
                   "note": "schedule dependent: --replay repeats the configuration 40 times"}
            k = "%s/%s/j%d" % (c["mode"], c["grid"], c["jobs"])
            dist[k] = dist.get(k, 0) + 1
            if rr["hang"]:
                hangs += 1
                res.violation("hang-" + c["mode"], "%s: run did not terminate (%s; thread states %s)" %
                              (name, "all threads blocked, no CPU time consumed" if rr["hang"] == "deadlock" else "still running after 10x the time limit",
                               " ".join(rr["threads"])[:400]), rep)
                continue
            o = parse_out(rr["out"]) if rr["rc"] == 0 else None
            bb = blackbox(c, o, stats) if o is not None else []
            corrupted = any(k == "candidate-reproposed-delivered-point" for k, _ in bb)
            for kind, site in tsan_reports(rr["err"]):
                if corrupted and (kind.startswith("heap-use-after-free") or site.startswith("tsg") or site.startswith("Tasmanian")):
                    n_tsan_corrupted += 1
                    continue      # grid internals after the same point was loaded twice (already reported for this run)
                n_tsan_reports += 1
                tk = "tsan-%s-%s" % (kind.replace(" ", "-"), site)
                nkey[tk] = nkey.get(tk, 0) + 1
                if nkey[tk] <= 3:
                    res.violation(tk, "%s: ThreadSanitizer: %s at %s\n%s" % (name, kind, site, rr["err"][:1500]), dict(rep, tsan=rr["err"][:6000]))
            if rr["rc"] != 0:
                res.violation("driver-crash-" + c["mode"], "%s: pardrv exited with %s: %s" % (name, rr["rc"], rr["err"][-600:]), rep)
                continue
            if hooks_present is None:
                hooks_present = o["hooks"]
            for key, what in bb:
                nkey[key] = nkey.get(key, 0) + 1
                if nkey[key] <= 3:      # a few replay files per key are enough
                    res.violation(key, "%s: %s" % (name, what), rep)
            sh = trace_shape(o)
            shapes.add((cfg_key(c), sh))
            started = len(set(cl["thread"] for cl in o["calls"]))
            if started >= 2 and len(o["calls"]) > started:
                nontriv.add((cfg_key(c), sh))
            if o["hooks"] and runner:
                tc = trace_case(name, c, o)
                if tc:
                    traces.append(tc)
                    trace_of[name] = (c, var)
    run_wall = time.time() - t0

    # trace validation
    tv = {"validated": 0, "mismatches": 0, "steps": 0, "events": 0, "guarded_both": 0, "guarded_yes": 0, "guarded_no": 0,
          "hcand_violated": 0}
    mism = []
    if traces and runner:
        tf = os.path.join(wd, "traces-%s-%d.txt" % (tier, seed))
        open(tf, "w").write("\n".join(traces) + "\n")
        rc, mo, me = vlib.run([runner, tf], timeout=1800)
        seen = set()
        for line in mo.split("\n"):
            t = line.split()
            if not t:
                continue
            if t[0] == "ok":
                tv["validated"] += 1
                seen.add(t[1])
                kv = dict(x.split("=", 1) for x in t[2:] if "=" in x)
                tv["steps"] += int(kv.get("steps", 0))
                tv["events"] += int(kv.get("events", 0))
                if "guarded" in kv:
                    tv["guarded_" + kv["guarded"]] += 1
                    c, var = trace_of[t[1]]
                    if kv["guarded"] == "no" and nkey.get("budget-initial-launch", 0) < 3:
                        nkey["budget-initial-launch"] = nkey.get("budget-initial-launch", 0) + 1
                        res.violation("budget-initial-launch", "%s: the logged launch loop is accepted only by the model of the unguarded loop "
                                      "(it hands out samples after the budget is exhausted)" % t[1],
                                      {"kind": "impl-counterexample", "config": c, "variant": var, "cmd": "pardrv " + cfg_key(c)})
                    if kv.get("hcand", "ok") != "ok":
                        tv["hcand_violated"] += 1
                        nkey["candidate-reproposed-delivered-point"] = nkey.get("candidate-reproposed-delivered-point", 0) + 1
                        res.violation("candidate-reproposed-delivered-point", "%s: getCandidateConstructionPoints returned a duplicate or a point whose "
                                      "sample was already delivered (hypothesis H-CAND of c18_at_most_once): %s" % (t[1], line[:300]),
                                      {"kind": "impl-counterexample", "config": c, "variant": var, "cmd": "pardrv " + cfg_key(c)})
            elif t[0] == "MISMATCH":
                seen.add(t[1])
                tv["mismatches"] += 1
                mism.append(line)
        if rc != 0 or len(seen) != len(traces):
            mism.append("runner exit %s, %d of %d cases reported: %s" % (rc, len(seen), len(traces), me[-300:]))
            tv["mismatches"] += 1
        for line in mism[:20]:
            t = line.split()
            c, var = trace_of.get(t[1], ({}, "?")) if len(t) > 1 else ({}, "?")
            # a logged transition sequence that the model rejects: the implementation left the proved protocol
            res.violation("trace-rejected", "the extracted model rejects the logged transition sequence: %s" % line[:400],
                          {"kind": "impl-counterexample", "config": c, "variant": var, "cmd": "pardrv " + cfg_key(c) if c else "",
                           "mismatch": line, "traces": tf})

    if proof_broken and not res.violations:
        res.violation("proof", "proof obligations of Properties_C18.v no longer check (%d/%d) %s" %
                      (props["discharged"], props["obligations"], res.coverage["forbidden_tokens"][:2]),
                      {"kind": "proof-break", "theorems": props["theorems"], "log": props["log"][-3000:]}, no_input=True)
    if not ok_ext and not res.violations:
        res.violation("extraction", "extraction of the model failed", {"kind": "proof-break", "log": elog[-2000:]}, no_input=True)

    res.coverage.update({
        "evaluations": len(jobs), "distinct_nontrivial": len(nontriv),
        "rule": "one evaluation = one process running parallel constructSurrogate / threaded loadNeededValues on a configuration "
                "(grid family, dims, outputs, depth, candidates, tolerance, criteria, level limit, jobs 1-8(16), batch 1-3, budget, "
                "initial guess, preloaded grid, model latency none/skewed/random, hook yield mode) from VERIF_SEED; distinct = distinct "
                "(configuration, observed schedule shape = sequence of (thread, event, id) records + call sizes); non-trivial = at least two "
                "workers ran and at least one worker received a second job",
        "samples": [cfg_key(c) for c in cfgs[:6]],
        "hooks_present": bool(hooks_present),
        "programs": len(cfgs), "distinct_schedules": len(shapes),
        "traces_validated_against_impl": tv["validated"], "disagreements_checked": tv["mismatches"],
        "trace_validation": tv, "tsan_runs": sum(1 for _c, v, _e in jobs if v == "tsan"), "tsan_reports": n_tsan_reports, "tsan_reports_attributed_to_twice_loaded_point": n_tsan_corrupted, "hangs": hangs,
        "blackbox": stats, "violations_by_key": nkey, "input_distribution": dist, "run_wall_s": round(run_wall, 1),
    })
    res.assumptions = [
        "theorems are about the sequentially consistent interleaving model of the mutex-protected steps; data-race freedom of the real "
        "code is exercised by ThreadSanitizer runs only (%d runs, %d reports)" % (res.coverage["tsan_runs"], n_tsan_reports),
        "deadlock freedom is an invariant (no reachable state in which every thread is blocked and no notify is pending); termination "
        "under a fair scheduler is NOT proved; hangs are searched for at run time (a run whose threads consume no CPU time is a deadlock)",
        "H-CAND (candidate lists are duplicate free and contain no loaded sample) is a hypothesis of c18_at_most_once about the grid; it is "
        "evaluated by the extracted predicate on every logged refresh" + ("" if hooks_present else " (NOT evaluated in this run: hooks absent)"),
        "the model callback writes all outputs and does not resize y beyond the batch",
    ]
    if not hooks_present:
        res.assumptions.append("hooks absent in this tree: no trace validation, the model is tied to the code by the black-box checks only")


def replay(path):
    rp = json.load(open(path))
    res = vlib.Result(PID, "quick", rp.get("seed", 1), LEVEL)
    if "config" in rp and rp["config"]:
        run(res, "quick", rp.get("seed", 1), replay_cfg=rp["config"], reps=40)
    else:
        run(res, "quick", rp.get("seed", 1))
    return res.finish()
