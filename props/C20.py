"""C20 — ParticleSwarm only evaluates inside the domain and tracks the true best.

Decided by: theorems of coq/Props/Properties_C20.v about the model coq/Model/Swarm.v (generic in the arithmetic),
tied to DREAM/Optimization/tsgParticleSwarm.{hpp,cpp} by a bit-exact correspondence after EVERY operation of a
scripted history (positions, velocities, best positions, the four caches, the four flags, the sequence of
inside()/f() invocations, the number of random draws), plus the direct evaluation of the property's statement on the
implementation's own observations (independent of the model; this is the failing-input search)."""
import json
import math
import os

import vlib

LEVEL = "proof"
PID = "C20"

TRUSTED = [
    "Coq 8.16.1 kernel (vm_compute used in the non-vacuity Examples and the refutation witnesses; no native_compute)",
    "axioms: none (Print Assumptions: Closed under the global context for every theorem)",
    "extraction: ExtrOcamlBasic only (bool, option, list, prod, unit, sumbool -> OCaml); nat/Z/positive stay Coq datatypes",
    "OCaml glue ocaml/swarm_main.ml + common.ml: instantiates the number type with OCaml floats (IEEE binary64: +. -. *. abs <), "
    "objective and domain = finite tables recorded by the C++ driver, random stream = the scripted list (0.5 when exhausted)",
    "C++ driver harness/optdrv.cpp (white-box read access to the cache fields by '#define private public'), "
    "g++ -O1 -ffp-contract=off (no FMA contraction), no OpenMP",
    "modelled, not verified: ParticleSwarmState (first constructor, vector setters, clearBestParticles, clearCache, "
    "initializeParticlesInsideBox vector overload) and ParticleSwarm(); the second constructor, the raw-pointer overloads, "
    "the C wrapper and the OpenMP build are not modelled",
]

# known-finding keys (history classes whose failures are genuine defects of the class, see fixes/C20-findings.txt)
K_F8 = "clearbest-stale-best-cache"
K_H2 = "setbest-after-run-without-clearcache"
K_H3 = "setpos-after-run-without-clearcache"
K_H4 = "clearcache-reevaluates-unset-best"
K_H5 = "setbest-inconsistent-swarm-slot"
TAINT_ORDER = [K_F8, K_H2, K_H3, K_H4, K_H5]

H = vlib.hexf
EPS = 2.0 ** -53


def hx(v):
    return " ".join(H(a) for a in v)


# ------------------------------------------------------------------------------------------------ generation
def gen_objective(r, d):
    kind = r.choice(["quad", "quad", "quartic", "rosen", "trig", "step", "step", "const", "l1", "l1"])
    if kind == "quad":
        coef = [r.choice([0.5, 1.0, 2.0, 4.0]) for _ in range(d)] + [r.choice([0.0, 1.0, -2.0, 0.5]) for _ in range(d)] + [r.choice([0.0, 0.5, -1.0])]
    elif kind == "quartic":
        coef = [r.choice([-1.0, -0.5, 1.0, 2.0]) for _ in range(d)] + [r.choice([0.0, 0.25, -0.5]) for _ in range(d)] + [r.choice([0.25, 1.0])]
    elif kind == "rosen":
        coef = [r.choice([1.0, 10.0, 100.0])]
    elif kind == "trig":
        coef = [r.uniform(-2, 2) for _ in range(d)] + [r.uniform(0.5, 3) for _ in range(d)]
    elif kind == "step":
        coef = [r.choice([0.0, 0.25, -1.0, 0.5]) for _ in range(d)] + [r.choice([1.0, 2.0, 4.0, 0.5])]
    elif kind == "const":
        coef = [r.choice([0.0, 1.0, -3.0])]
    else:
        coef = [r.choice([0.0, 0.25, -1.0, 0.5, r.uniform(-1, 1)]) for _ in range(d)]
    return kind, coef


def gen_domain(r):
    k = r.choice(["all", "all", "box", "box", "box", "halfspace", "halfspace", "shell", "shell", "none"])
    if k == "box":
        lo, hi = r.choice([(-1.0, 1.0), (0.0, 2.0), (-0.5, 0.25), (-2.0, 2.0), (0.5, 0.75), (-4.0, 4.0)])
        return "box %s %s" % (H(lo), H(hi)), (lo, hi)
    if k == "halfspace":
        c = r.choice([0.0, 0.5, -0.5, 1.0, 3.0])
        return "halfspace %s" % H(c), (c,)
    if k == "shell":
        a, b = r.choice([(0.5, 2.0), (1.0, 1.5), (0.0, 1.0), (2.0, 3.0), (0.25, 4.0)])
        return "shell %s %s" % (H(a), H(b)), (a, b)
    return k, ()


def gen_stream(r, n):
    """endpoint-heavy stream of n values in [0,1]"""
    mode = r.choice(["uniform", "ends", "mixed", "mixed", "zeros", "ones", "short"])
    out = []
    for _ in range(n):
        if mode == "uniform":
            out.append(r.random())
        elif mode == "ends":
            out.append(r.choice([0.0, 1.0]))
        elif mode == "zeros":
            out.append(0.0)
        elif mode == "ones":
            out.append(1.0)
        else:
            out.append(r.choice([0.0, 1.0, 0.5, EPS, 1.0 - EPS, r.random(), r.random(), r.random()]))
    if mode == "short":
        out = out[: max(0, n // 3)]
    return out


def gen_vec(r, n, scale=2.0):
    return [r.choice([0.0, 1.0, -1.0, 0.5, 2.0, -0.25, r.uniform(-scale, scale), r.uniform(-scale, scale)]) for _ in range(n)]


def gen_run(r, tier):
    kmax = 6 if tier == "quick" else 12
    it = r.choice([0, 0, 1, 1, 2, 3, 4, kmax, -1])
    w = r.choice([0.5, 0.5, 0.7, 1.0, 0.0, 0.25])
    c1 = r.choice([2.0, 1.0, 0.5, 0.0, 1.5])
    c2 = r.choice([2.0, 1.0, 0.5, 0.0, 1.5])
    return ["run", it, w, c1, c2]


def gen_script(r, idx, tier):
    """-> dict(id, d, np, header, ops=[list tokens], klass)"""
    d = r.choice([1, 1, 2, 2, 3])
    np_ = r.choice([1, 2, 2, 3, 4, 5, 6])
    kind, coef = gen_objective(r, d)
    dom, _ = gen_domain(r)
    klass = r.choices(["N", "S", "T"], weights=[60, 25, 15])[0]
    ops = []
    ops.append(["rng"] + gen_stream(r, r.choice([0, 8, 40, 200])))
    # initialisation
    if r.random() < 0.5:
        lo = [r.choice([-1.0, 0.0, -2.0, 0.5]) for _ in range(d)]
        hi = [l + r.choice([0.0, 1.0, 2.0, 0.5, -1.0]) for l in lo]
        ops.append(["init", lo, hi])
    else:
        ops.append(["setpos", gen_vec(r, d * np_)])
        if r.random() < 0.9:
            ops.append(["setvel", gen_vec(r, d * np_, 1.0)])
    if r.random() < 0.03:
        ops.insert(1, ["run", 1, 0.5, 1.0, 1.0])         # run on an uninitialised state: must throw and change nothing
    if klass in ("S", "T") and r.random() < 0.5:
        b = gen_vec(r, d * (np_ + 1))
        if r.random() < 0.6:                              # swarm slot = copy of one particle's strip
            j = r.randrange(np_)
            b[d * np_:] = b[d * j:d * (j + 1)]
        ops.append(["setbest", b])
    nseg = r.choice([1, 2, 2, 3, 4])
    for s in range(nseg):
        ops.append(gen_run(r, tier))
        if r.random() < 0.3:
            ops.append(gen_run(r, tier))
        if s == nseg - 1:
            break
        # edits between calls
        e = r.random()
        if klass == "N":
            c = r.choice(["clearbest", "reset", "reset2", "setvel", "resetpos", "none", "rng"])
        elif klass == "S":
            c = r.choice(["clearbest", "clearcache", "clearcache", "reset", "setvel", "cc-setbest", "cc-setpos", "none"])
        else:
            c = r.choice(["setpos", "setpos-clearbest", "setbest", "init", "clearbest", "clearcache", "setpos", "setbest"])
        if c == "clearbest":
            ops.append(["clearbest"])
        elif c == "clearcache":
            ops.append(["clearcache"])
        elif c == "reset":
            ops += [["clearcache"], ["clearbest"]]
        elif c == "reset2":
            ops += [["clearbest"], ["clearcache"]]
        elif c == "setvel":
            ops.append(["setvel", gen_vec(r, d * np_, 1.0)])
        elif c == "resetpos":
            ops += [["clearcache"], ["clearbest"], ["setpos", gen_vec(r, d * np_)]]
        elif c == "cc-setbest":
            ops += [["clearcache"], ["setbest", gen_vec(r, d * (np_ + 1))]]
        elif c == "cc-setpos":
            ops += [["clearcache"], ["setpos", gen_vec(r, d * np_)]]
        elif c == "rng":
            ops.append(["rng"] + gen_stream(r, r.choice([4, 30, 100])))
        elif c == "setpos":
            ops.append(["setpos", gen_vec(r, d * np_)])
        elif c == "setpos-clearbest":
            ops += [["setpos", gen_vec(r, d * np_)], ["clearbest"]]
        elif c == "setbest":
            ops.append(["setbest", gen_vec(r, d * (np_ + 1))])
        elif c == "init":
            lo = [r.choice([-1.0, 0.0]) for _ in range(d)]
            ops.append(["init", lo, [l + 1.0 for l in lo]])
    if r.random() < 0.04:
        ops.append(["setbest", gen_vec(r, d * np_)])      # wrong size: must throw and change nothing
    if r.random() < 0.03:                                 # wrong sizes somewhere in the middle: must throw and change nothing
        bad = r.choice([["setpos", gen_vec(r, d * np_ + 1)], ["setvel", gen_vec(r, max(0, d * np_ - 1))],
                        ["init", [0.0] * (d + 1), [1.0] * (d + 1)], ["init", [0.0] * d, [1.0] * (d - 1)]])
        ops.insert(r.randrange(1, len(ops) + 1), bad)
    return {"id": str(idx), "d": d, "np": np_, "obj": kind, "coef": coef, "dom": dom, "ops": ops, "klass": klass}


def op_line(o):
    k = o[0]
    if k == "rng":
        return "rng " + hx(o[1:])
    if k == "init":
        return "init lo: %s hi: %s" % (hx(o[1]), hx(o[2]))
    if k in ("setpos", "setvel", "setbest"):
        return "%s %s" % (k, hx(o[1]))
    if k == "run":
        return "run %d %s %s %s" % (o[1], H(o[2]), H(o[3]), H(o[4]))
    return k


def script_lines(sc, cid=None):
    out = ["case %s" % (cid or sc["id"]),
           "swarm %d %d %s %s coef: %s" % (sc["d"], sc["np"], sc["obj"], sc["dom"], hx(sc["coef"]))]
    out += [op_line(o) for o in sc["ops"]]
    out.append("endcase")
    return out


def split_variant(r, sc):
    """replace one 'run N' (N >= 1) by 'run n; run m' with n + m = N; returns (variant, index of the op) or None"""
    idxs = [i for i, o in enumerate(sc["ops"]) if o[0] == "run" and o[1] >= 1]
    if not idxs:
        return None
    i = r.choice(idxs)
    o = sc["ops"][i]
    n = r.randrange(0, o[1] + 1)
    v = dict(sc)
    v["ops"] = sc["ops"][:i] + [["run", n] + o[2:], ["run", o[1] - n] + o[2:]] + sc["ops"][i + 1:]
    return v, i


# corpus: the witnesses of the defects observed on the real code (always run first)
def corpus():
    base = {"d": 1, "np": 2, "obj": "quad", "coef": [1.0, 0.0, 0.0], "dom": "all", "klass": "corpus"}
    c = []
    c.append(dict(base, id="witnessF8", ops=[["setpos", [1.0, 2.0]], ["setvel", [-0.5, -0.5]], ["rng", 0.5, 0.5, 0.5, 0.5],
                                             ["run", 1, 0.5, 1.0, 1.0], ["clearbest"], ["run", 0, 0.5, 1.0, 1.0]]))
    c.append(dict(base, id="witnessH2", ops=[["setpos", [1.0, 2.0]], ["setvel", [-0.5, -0.5]], ["run", 1, 0.5, 1.0, 1.0],
                                             ["setbest", [7.0, 8.0, 9.0]], ["run", 0, 0.5, 1.0, 1.0]]))
    c.append(dict(base, id="witnessH3", ops=[["setpos", [1.0, 2.0]], ["setvel", [-0.5, -0.5]], ["run", 1, 0.5, 1.0, 1.0],
                                             ["setpos", [5.0, 6.0]], ["run", 0, 0.5, 1.0, 1.0]]))
    c.append(dict(base, id="witnessH3b", ops=[["setpos", [1.0, 2.0]], ["setvel", [-0.5, -0.5]], ["run", 1, 0.5, 1.0, 1.0],
                                              ["setpos", [5.0, 6.0]], ["clearbest"], ["run", 0, 0.5, 1.0, 1.0]]))
    c.append(dict(base, id="witnessH4", dom="box %s %s" % (H(-1.5), H(1.5)),
                  ops=[["setpos", [1.0, 2.0]], ["setvel", [0.0, 0.0]], ["run", 0, 0.5, 1.0, 1.0], ["clearcache"], ["run", 0, 0.5, 1.0, 1.0]]))
    c.append(dict(base, id="witnessH5", ops=[["setpos", [3.0, 4.0]], ["setvel", [0.0, 0.0]], ["setbest", [1.0, 4.0, 2.0]],
                                             ["run", 0, 0.5, 1.0, 1.0]]))
    return c


# ------------------------------------------------------------------------------------------------ log parsing
def fl(t):
    return float(t) if t in ("inf", "-inf", "nan", "-nan") else float.fromhex(t)


def parse_impl(text):
    """-> dict case id -> dict(params=[...], ops=[dict(toks, calls, rngcalls, exc, dump)])
    calls: ("I", point(tuple of tokens), bool) | ("F", [(point, value token)])"""
    out, cur, op, pend = {}, None, None, None
    for line in text.split("\n"):
        t = line.split()
        if not t:
            continue
        k = t[0]
        if k == "case":
            cur = {"params": [], "ops": [], "ended": False}
            out[t[1]] = cur
            op = pend = None
        elif cur is None:
            continue
        elif k == "params":
            cur["params"] = t[1:]
        elif k == "op":
            op = {"toks": t[1:], "calls": [], "rngcalls": None, "exc": None, "dump": {}}
            cur["ops"].append(op)
            pend = None
        elif k == "end":
            cur["ended"] = True
            op = pend = None
        elif op is None:
            continue
        elif k == "I":
            i = t.index("=")
            op["calls"].append(("I", tuple(t[1:i]), fl(t[i + 1]) != 0.0))
            pend = None
        elif k == "Fbatch":
            pend = []
            op["calls"].append(("F", pend))
        elif k == "F":
            i = t.index("=")
            if pend is not None:
                pend.append((tuple(t[1:i]), t[i + 1]))
        elif k == "rngcalls":
            op["rngcalls"] = int(t[1])
            pend = None
        elif k == "exception":
            op["exc"] = " ".join(t[1:])
        elif k == "endop":
            pend = None
        else:
            op["dump"][k] = t[1:]
    return out


def strips(tokens, d):
    return [tuple(tokens[i:i + d]) for i in range(0, len(tokens), d)]


FRESH_FLAGS = ["0", "0", "0", "0"]


# ------------------------------------------------------------------------------------------------ direct evaluation
class Direct:
    """Evaluates the statement of C20 on the implementation's observations of one case (no model involved)."""

    def __init__(self, sc, case):
        self.sc, self.case = sc, case
        self.d, self.np = sc["d"], sc["np"]
        self.fail = []          # (specific key, text, op index)
        self.taints = []
        self.skipped_nonfinite = False
        self.stats = {"runs": 0, "iterations": 0, "fpoints": 0, "ipoints": 0, "best_checks": 0, "min_checks": 0,
                      "excluded_all": 0, "excluded_some": 0, "excluded_none": 0}

    def taint(self, k):
        if k not in self.taints:
            self.taints.append(k)

    def untaint(self, ks):
        self.taints = [k for k in self.taints if k not in ks]

    def bad(self, key, text, k):
        self.fail.append((key, text, k, list(self.taints)))

    def evaluate(self):
        d, np_ = self.d, self.np
        ops = self.case["ops"]
        evaluated, insideres = {}, {}
        cands = [[] for _ in range(np_)]
        scands = []
        visited = [set() for _ in range(np_)]
        givenb = [set() for _ in range(np_)]
        sgiven = set()
        prev = None
        prev_swarm = None      # (value token) of the swarm best after the previous run of this epoch
        for k, op in enumerate(ops):
            name = op["toks"][0] if op["toks"] else "?"
            dump = op["dump"]
            if not all(t in dump for t in ("positions", "velocities", "bestpos", "pinside", "binside", "pfvals", "bfvals", "flags")):
                self.bad("no-dump", "no state dump after op %d (%s): %s" % (k, name, op["exc"]), k)
                return
            flags0 = prev["flags"] if prev else FRESH_FLAGS
            pin0 = prev["pinside"] if prev else ["0"] * np_
            bin0 = prev["binside"] if prev else ["0"] * (np_ + 1)
            pos0 = strips(prev["positions"], d) if prev else None
            pf0 = prev["pfvals"] if prev else None
            cinit0, binit0 = flags0[3] == "1", flags0[2] == "1"
            for tag in ("positions", "velocities", "bestpos", "pfvals", "bfvals"):
                for tok in dump[tag]:
                    if tok in ("inf", "-inf", "nan", "-nan"):
                        self.skipped_nonfinite = True
            same_state = prev is not None and all(prev[t] == dump[t] for t in prev if t in dump)

            if op["exc"] is not None:
                # a throwing call must not touch the state, the callbacks or the stream
                if prev is not None and not same_state:
                    self.bad("exception-changed-state", "op %d (%s) threw '%s' but changed the state" % (k, name, op["exc"]), k)
                if op["calls"] or (op["rngcalls"] or 0) > 0:
                    self.bad("exception-after-callbacks", "op %d (%s) threw after invoking callbacks / drawing random numbers" % (k, name), k)
                if name == "run" and flags0[0] == "1" and flags0[1] == "1":
                    self.bad("unexpected-exception", "run threw on an initialised state: %s" % op["exc"], k)
                prev = dump
                continue

            if name == "run":
                if not (flags0[0] == "1" and flags0[1] == "1"):
                    self.bad("missing-exception", "run on a state without positions/velocities did not throw", k)
                self.stats["runs"] += 1
                iters = max(0, int(op["toks"][1]))
                self.stats["iterations"] += iters
                # D1: f only on points whose inside() returned true, one batch = exactly those points
                pending, this_inside = [], {}
                for c in op["calls"]:
                    if c[0] == "I":
                        self.stats["ipoints"] += 1
                        insideres[c[1]] = c[2]
                        this_inside[c[1]] = c[2]
                        if c[2]:
                            pending.append(c[1])
                    else:
                        pts = [p for p, _ in c[1]]
                        self.stats["fpoints"] += len(pts)
                        for p, v in c[1]:
                            if this_inside.get(p) is not True:
                                self.bad("f-on-outside-point", "objective called on %s for which inside() did not return true (op %d)" % (" ".join(p), k), k)
                            evaluated[p] = v
                        if pts != pending:
                            self.bad("f-batch-not-the-inside-points", "objective batch of %d points is not the %d points accepted by inside() since the last batch (op %d)"
                                     % (len(pts), len(pending), k), k)
                        pending = []
                if pending:
                    self.bad("inside-point-not-evaluated", "%d points accepted by inside() were never passed to the objective (op %d)" % (len(pending), k), k)
                # attribute the inside() calls to particles: blocks of np (positions) / np+1 (best positions)
                sizes = []
                if not cinit0:
                    sizes.append(("pos", np_))
                    if binit0:
                        sizes.append(("best", np_ + 1))
                sizes += [("pos", np_)] * iters
                icalls = [c for c in op["calls"] if c[0] == "I"]
                if len(icalls) != sum(n for _, n in sizes):
                    self.bad("unexpected-callback-structure", "run made %d inside() calls, expected %d (cache %s, bests %s, %d iterations)"
                             % (len(icalls), sum(n for _, n in sizes), cinit0, binit0, iters), k)
                else:
                    j = 0
                    for kind, n in sizes:
                        blk = icalls[j:j + n]
                        j += n
                        nin = sum(1 for c in blk if c[2])
                        if kind == "pos":
                            self.stats["excluded_all" if nin == 0 else ("excluded_none" if nin == n else "excluded_some")] += 1
                        for i, c in enumerate(blk):
                            if not c[2] or c[1] not in evaluated:
                                continue
                            if kind == "pos":
                                cands[i].append((c[1], evaluated[c[1]]))
                                visited[i].add(c[1])
                            elif i < np_:
                                cands[i].append((c[1], evaluated[c[1]]))
                                givenb[i].add(c[1])
                            else:
                                scands.append((c[1], evaluated[c[1]]))
                                sgiven.add(c[1])
                        if kind == "best":
                            # are the user-provided / retained bests consistent (swarm slot = best of them)?
                            gv = [fl(evaluated[c[1]]) for c in blk[:np_] if c[2] and c[1] in evaluated]
                            sl = blk[np_]
                            if gv and (not sl[2] or any(v < fl(evaluated[sl[1]]) for v in gv)):
                                self.taint(K_H5 if K_H4 not in self.taints else K_H4)
                self.check_after_run(k, dump, evaluated, insideres, cands, scands, visited, givenb, sgiven, prev_swarm)
                prev_swarm = dump["bfvals"][np_] if dump["binside"][np_] == "1" else None
            elif name == "clearcache":
                if any(b != "0" for b in dump["pinside"] + dump["binside"]) or dump["flags"][3] != "0":
                    self.bad("clearcache-incomplete", "clearCache() left cache flags set: pinside %s binside %s flags %s"
                             % (dump["pinside"], dump["binside"], dump["flags"]), k)
                self.untaint([K_F8, K_H2, K_H3])
                if not binit0:
                    self.untaint([K_H4, K_H5])
                elif any(b == "0" for b in bin0):
                    self.taint(K_H4)
                cands = [[] for _ in range(np_)]
                scands, sgiven = [], set()
                visited = [set() for _ in range(np_)]
                givenb = [set() for _ in range(np_)]
                prev_swarm = None
            elif name == "clearbest":
                if any(b != "0" for b in dump["bestpos"] if fl(b) != 0.0) or dump["flags"][2] != "0":
                    self.bad("clearbest-incomplete", "clearBestParticles() did not zero the best positions / reset the flag", k)
                if any(b == "1" for b in dump["binside"]):
                    self.taint(K_F8)          # the code under study keeps the best caches: stale from here on
                else:
                    self.untaint([K_F8, K_H2, K_H4, K_H5])
                for i in range(np_):
                    if cinit0 and pin0[i] == "1" and pos0 is not None:
                        cands[i] = [(pos0[i], pf0[i])]
                        visited[i] = {pos0[i]}
                    else:
                        cands[i], visited[i] = [], set()
                    givenb[i] = set()
                scands, sgiven = [], set()
                prev_swarm = None
            elif name in ("setpos", "init"):
                if cinit0:
                    self.taint(K_H3)
            elif name == "setbest":
                if cinit0:
                    self.taint(K_H2)
            elif name in ("setvel", "rng", "dump"):
                if name != "setvel" and prev is not None and not same_state:
                    self.bad("state-changed", "op %s changed the state" % name, k)
            prev = dump

    def check_after_run(self, k, dump, evaluated, insideres, cands, scands, visited, givenb, sgiven, prev_swarm):
        d, np_ = self.d, self.np
        pos = strips(dump["positions"], d)
        best = strips(dump["bestpos"], d)
        pin, bins, pf, bf = dump["pinside"], dump["binside"], dump["pfvals"], dump["bfvals"]
        if dump["flags"][2] != "1" or dump["flags"][3] != "1":
            self.bad("flags-after-run", "after a run the best/cache flags are %s" % dump["flags"], k)
        # D0: the particle cache is coherent with the positions
        for i in range(np_):
            if pos[i] in insideres:
                ins = insideres[pos[i]]
                if (pin[i] == "1") != ins:
                    self.bad("cache-incoherent", "particle %d: cache_particle_inside=%s but inside(position)=%s (op %d)" % (i, pin[i], ins, k), k)
                elif ins and pos[i] in evaluated and pf[i] != evaluated[pos[i]]:
                    self.bad("cache-incoherent", "particle %d: cached value %s but the objective at its position is %s (op %d)" % (i, pf[i], evaluated[pos[i]], k), k)
            elif pin[i] == "1":
                self.bad("cache-incoherent", "particle %d: cache says inside but the position %s was never tested (op %d)" % (i, " ".join(pos[i]), k), k)
        # D2: best positions are evaluated in-domain points visited by the particle, cached values are the objective there
        allvis = set().union(*visited) | set().union(*givenb) | sgiven
        for i in range(np_ + 1):
            if bins[i] != "1":
                continue
            self.stats["best_checks"] += 1
            who = "swarm" if i == np_ else "particle %d" % i
            b = best[i]
            if b not in evaluated or insideres.get(b) is not True:
                self.bad("best-not-an-evaluated-inside-point", "%s: best position %s was never passed to the objective inside the domain (op %d)"
                         % (who, " ".join(b), k), k)
                continue
            if bf[i] != evaluated[b]:
                self.bad("best-cache-value-mismatch", "%s: cached best value %s but the objective at the best position is %s (op %d)"
                         % (who, bf[i], evaluated[b], k), k)
            own = allvis if i == np_ else (visited[i] | givenb[i])
            if b not in own:
                self.bad("best-not-visited", "%s: best position %s is not a point this particle visited (or was given) (op %d)" % (who, " ".join(b), k), k)
        if self.skipped_nonfinite:
            return
        # D3: bests are minima over the in-domain evaluations since the last clear
        for i in range(np_ + 1):
            cs = (scands + [c for l in cands for c in l]) if i == np_ else cands[i]
            who = "swarm" if i == np_ else "particle %d" % i
            self.stats["min_checks"] += 1
            if not cs:
                if bins[i] == "1":
                    self.bad("best-without-evaluation", "%s reports a best although nothing was evaluated for it since the last clear (op %d)" % (who, k), k)
                continue
            vals = [fl(v) for _, v in cs]
            m = min(vals)
            if bins[i] != "1":
                self.bad("best-lost", "%s has %d in-domain evaluations (min %r) but reports no best (op %d)" % (who, len(cs), m, k), k)
                continue
            bv = fl(bf[i])
            if bv != m:
                key = "swarm-best-not-min" if i == np_ else "particle-best-not-min"
                self.bad(key, "%s: best value %r but the minimum over its %d in-domain evaluations is %r (op %d)" % (who, bv, len(cs), m, k), k)
            elif best[i] not in {p for p, v in cs if fl(v) == m}:
                self.bad("best-not-argmin", "%s: best position is not a point where the minimum %r was observed (op %d)" % (who, m, k), k)
        # D4: the swarm best never increases from run to run
        if prev_swarm is not None:
            if bins[np_] != "1":
                self.bad("swarm-best-lost", "the swarm best disappeared between two runs (op %d)" % k, k)
            elif fl(bf[np_]) > fl(prev_swarm):
                self.bad("swarm-best-increased", "swarm best went from %r to %r (op %d)" % (fl(prev_swarm), fl(bf[np_]), k), k)


def compare_split(base, var, i):
    """run n+m at op i of base  vs  run n, run m at ops i, i+1 of var; returns a text or None"""
    bo, vo = base["ops"], var["ops"]
    if len(vo) != len(bo) + 1:
        return "different number of ops"
    for j in range(i):
        if bo[j]["dump"] != vo[j]["dump"] or bo[j]["calls"] != vo[j]["calls"] or bo[j]["rngcalls"] != vo[j]["rngcalls"]:
            return "prefix differs at op %d" % j
    a, b1, b2 = bo[i], vo[i], vo[i + 1]
    if (a["exc"] is None) != (b1["exc"] is None) or (a["exc"] is None) != (b2["exc"] is None):
        return "exception behaviour differs"
    if a["dump"] != b2["dump"]:
        diff = [t for t in a["dump"] if a["dump"][t] != b2["dump"].get(t)]
        return "state after run n; run m differs from run n+m in %s: %s vs %s" % (diff, [a["dump"][t] for t in diff][:2], [b2["dump"].get(t) for t in diff][:2])
    if a["calls"] != b1["calls"] + b2["calls"]:
        return "callback sequence differs (%d vs %d+%d calls)" % (len(a["calls"]), len(b1["calls"]), len(b2["calls"]))
    if (a["rngcalls"] or 0) != (b1["rngcalls"] or 0) + (b2["rngcalls"] or 0):
        return "random draws differ (%s vs %s+%s)" % (a["rngcalls"], b1["rngcalls"], b2["rngcalls"])
    for j in range(i + 1, len(bo)):
        x, y = bo[j], vo[j + 1]
        if x["dump"] != y["dump"] or x["calls"] != y["calls"] or x["rngcalls"] != y["rngcalls"]:
            return "later op %d differs after the split" % j
    return None


# ------------------------------------------------------------------------------------------------ the check
def run_cases(drv, runner, scripts, wd, tag, variant=None):
    """runs the driver (and the model runner) on the scripts; returns (impl dict, runner lines, variant)"""
    import concurrent.futures as cf
    nchunk = max(1, min(vlib.NCPU, len(scripts) // 40 + 1))
    chunks = [scripts[i::nchunk] for i in range(nchunk)]

    def one(ci):
        cfn = os.path.join(wd, "%s-cases-%d.txt" % (tag, ci))
        lines = []
        for sc in chunks[ci]:
            lines += script_lines(sc)
        open(cfn, "w").write("\n".join(lines) + "\n")
        rc, so, se = vlib.run([drv, cfn], timeout=1500)
        ofn = os.path.join(wd, "%s-impl-%d.out" % (tag, ci))
        open(ofn, "w").write(so)
        return ci, rc, so, se, ofn
    impl, outs, errs = {}, [], []
    with cf.ThreadPoolExecutor(nchunk) as ex:
        for ci, rc, so, se, ofn in ex.map(one, range(nchunk)):
            impl.update(parse_impl(so))
            outs.append(ofn)
            if rc != 0:
                errs.append("optdrv exited with %d on chunk %d: %s" % (rc, ci, se[-400:]))
    if variant is None:
        # which clearBestParticles() does the tree have?  (witness F8: stale best flags after clearbest)
        w = impl.get("witnessF8")
        variant = "fixed"
        if w:
            for op in w["ops"]:
                if op["toks"][:1] == ["clearbest"] and any(b == "1" for b in op["dump"].get("binside", [])):
                    variant = "orig"
    mlines = []
    if runner:
        def two(ofn):
            rc, so, se = vlib.run([runner, ofn, variant], timeout=1500)
            return rc, so, se
        with cf.ThreadPoolExecutor(nchunk) as ex:
            for rc, so, se in ex.map(two, outs):
                mlines += [l for l in so.split("\n") if l.strip()]
                if rc != 0:
                    mlines.append("MISMATCH runner exit %d %s" % (rc, se[-300:]))
    return impl, mlines, variant, errs


def script_key(sc):
    import hashlib
    return hashlib.sha256("\n".join(script_lines(sc, "x")).encode()).hexdigest()


ALWAYS_KEYS = ("f-on-outside-point", "f-batch-not-the-inside-points", "inside-point-not-evaluated", "exception-changed-state",
               "exception-after-callbacks", "unexpected-exception", "missing-exception", "no-dump", "clearcache-incomplete",
               "clearbest-incomplete", "state-changed", "unexpected-callback-structure", "flags-after-run")


class Acc:
    """what the batches accumulate"""

    def __init__(self):
        self.okc, self.mism, self.first_mism_script = 0, [], None
        self.cstats, self.stats, self.known, self.perkey = {}, {}, {}, {}
        self.nviol, self.nsplit, self.skipped_nf, self.ncases = 0, 0, 0, 0
        self.nontriv, self.dist, self.opdist, self.samples = set(), {}, {}, []
        self.variant = None


def process_batch(res, acc, drv, runner, scripts, pairs, wd, tag):
    byid = {s["id"]: s for s in scripts}
    impl, mlines, variant, errs = run_cases(drv, runner, scripts, wd, tag, acc.variant)
    acc.variant = variant
    acc.ncases += len(scripts)
    for e in errs:
        res.violation("driver-crash", e, {"kind": "impl-counterexample", "workdir": wd})
    # correspondence
    for line in mlines:
        t = line.split()
        if t[0] == "ok":
            acc.okc += 1
            for kv in t[2:]:
                x, y = kv.split("=")
                acc.cstats[x] = acc.cstats.get(x, 0) + int(y)
        elif t[0] == "MISMATCH":
            acc.mism.append(line)
            if acc.first_mism_script is None and len(t) > 1 and t[1] in byid:
                acc.first_mism_script = byid[t[1]]
    # direct evaluation of the property on the implementation
    for sc in scripts:
        kk = "%s/%s/d%d/np%d/%s" % (sc["obj"], sc["dom"].split()[0], sc["d"], sc["np"], sc["klass"])
        acc.dist[kk] = acc.dist.get(kk, 0) + 1
        for o in sc["ops"]:
            acc.opdist[o[0]] = acc.opdist.get(o[0], 0) + 1
        case = impl.get(sc["id"])
        if sc.get("detect_only"):
            continue
        if case is None or not case["ended"]:
            res.violation("no-result", "the driver produced no complete output for case %s" % sc["id"],
                          {"kind": "impl-counterexample", "script": sc, "lines": script_lines(sc)})
            acc.nviol += 1
            continue
        dchk = Direct(sc, case)
        dchk.evaluate()
        for x, y in dchk.stats.items():
            acc.stats[x] = acc.stats.get(x, 0) + y
        acc.skipped_nf += dchk.skipped_nonfinite
        if dchk.stats["iterations"] >= 1 and dchk.stats["fpoints"] >= 1 and len(sc["ops"]) >= 3:
            acc.nontriv.add(script_key(sc))
        seen_keys = set()
        for key, text, k, taints in dchk.fail:
            always = key in ALWAYS_KEYS
            tk = next((t for t in TAINT_ORDER if t in taints), None)
            rkey = key if (always or tk is None) else tk
            if rkey in seen_keys:
                continue
            seen_keys.add(rkey)
            if any(fd["key"] == rkey for fd in res.findings) or acc.perkey.get(rkey, 0) < 3:
                if res.violation(rkey, "%s [history class: %s; case %s]" % (text, tk or "untainted", sc["id"]),
                                 {"kind": "impl-counterexample", "script": sc, "lines": script_lines(sc), "failed_check": key, "op_index": k}):
                    acc.nviol += 1
                    acc.perkey[rkey] = acc.perkey.get(rkey, 0) + 1
                else:
                    acc.known[rkey] = acc.known.get(rkey, 0) + 1
            else:
                acc.nviol += 1
                acc.perkey[rkey] = acc.perkey.get(rkey, 0) + 1
    # resumability: run n; run m == run n+m, bit for bit
    for a, b, k in pairs:
        if a in impl and b in impl and impl[a]["ended"] and impl[b]["ended"]:
            acc.nsplit += 1
            why = compare_split(impl[a], impl[b], k)
            if why:
                acc.nviol += 1
                if acc.perkey.get("split-differs", 0) < 3:
                    sv = dict(byid[b], split_at=k)
                    res.violation("split-differs", "run n; run m differs from run n+m (case %s, op %d): %s" % (a, k, why),
                                  {"kind": "impl-counterexample", "script": byid[a], "script2": sv, "lines": script_lines(byid[a]),
                                   "lines2": script_lines(byid[b])})
                acc.perkey["split-differs"] = acc.perkey.get("split-differs", 0) + 1
    if len(acc.samples) < 3:
        acc.samples += [script_lines(s) for s in scripts[-2:]]


def run(res, tier, seed, replay_scripts=None):
    props = vlib.coq_props(PID)
    vlib.proof_coverage(res, PID, props, "cd coq && make Props/Properties_C20.vo && coqc -Q . TV Props/Properties_C20.v", TRUSTED)
    ok_ext, elog = vlib.coq_make(["Extract/ExtractSwarm.vo"])
    proof_broken = (not props["ok"]) or bool(res.coverage["forbidden_tokens"])
    runner = vlib.ocaml_runner("swarm") if ok_ext else None
    drv = vlib.build_driver("optdrv")
    wd = os.path.join(vlib.BUILD, "work", PID)
    os.makedirs(wd, exist_ok=True)
    acc = Acc()

    # corpus first (it also tells which clearBestParticles() the tree has)
    scripts = corpus()
    cdir = os.path.join(vlib.ROOT, "corpus", PID)
    if os.path.isdir(cdir):
        for fn in sorted(os.listdir(cdir)):
            if fn.endswith(".json"):
                sc = json.load(open(os.path.join(cdir, fn)))
                if sc["id"] not in [s["id"] for s in scripts]:
                    scripts.append(sc)
    if replay_scripts is not None:
        scripts = [dict(s, detect_only=True) for s in scripts if s["id"] == "witnessF8"] + \
                  [dict(s, id="r" + s["id"]) for s in replay_scripts]
        ids = [s["id"] for s in scripts]
        pairs = [(s["id"][:-1], s["id"], s["split_at"]) for s in scripts if s.get("split_at") is not None and s["id"][:-1] in ids]
        process_batch(res, acc, drv, runner, scripts, pairs, wd, "replay")
        nscripts = 0
    else:
        process_batch(res, acc, drv, runner, scripts, [], wd, "corpus")
        nscripts = {"quick": 2500, "thorough": 100000}[tier]
        if proof_broken:
            nscripts *= 2
    r = vlib.rng(seed, PID)
    bsize, done, bi = 2500, 0, 0
    while done < nscripts:
        scripts, pairs = [], []
        for i in range(done, min(nscripts, done + bsize)):
            sc = gen_script(r, i, tier)
            scripts.append(sc)
            if r.random() < 0.5:
                sv = split_variant(r, sc)
                if sv:
                    v, k = sv
                    v["id"] = "%ss" % sc["id"]
                    scripts.append(v)
                    pairs.append((sc["id"], v["id"], k))
        process_batch(res, acc, drv, runner, scripts, pairs, wd, "b%d" % (bi % 2))
        done += bsize
        bi += 1

    if acc.mism and not res.violations:
        sc = acc.first_mism_script
        res.violation("correspondence", "model (clearBestParticles variant '%s') and implementation disagree on %d cases, e.g. %s"
                      % (acc.variant, len(acc.mism), acc.mism[0][:300]),
                      {"kind": "correspondence-break", "correspondence": "Model.Swarm.apply_op vs ParticleSwarmState/ParticleSwarm()",
                       "examples": acc.mism[:10], "script": sc, "lines": script_lines(sc) if sc else None},
                      no_input=True)
    if proof_broken and not res.violations:
        res.violation("proof", "proof obligations of Properties_C20.v no longer check (%d/%d) %s" %
                      (props["discharged"], props["obligations"], res.coverage["forbidden_tokens"][:2]),
                      {"kind": "proof-break", "theorems": props["theorems"], "log": props["log"][-3000:]}, no_input=True)
    if not ok_ext and not res.violations:
        res.violation("extraction", "extraction of the model failed", {"kind": "proof-break", "log": elog[-2000:]}, no_input=True)

    res.coverage.update({
        "evaluations": acc.ncases, "distinct_nontrivial": len(acc.nontriv),
        "rule": "scripts = (dimension 1-3, 1-6 particles, objective family with coefficients, domain all/none/box/halfspace/shell, "
                "random stream (uniform / endpoints 0 and 1 / 2^-53 and 1-2^-53 / too short), initialisation by box or by hand, 1-4 run segments "
                "with iteration counts -1..12 and coefficients, edits between the calls) from VERIF_SEED; history classes N (no user-provided bests; "
                "clearBestParticles, clearCache+clearBestParticles, setParticleVelocities, new positions after a reset), S (setBestParticlePositions "
                "before the first run / after clearCache, clearCache alone) and T (setters after a run without clearCache); half of the scripts also "
                "run with one 'run n+m' replaced by 'run n; run m' (counted as separate cases). non-trivial = at least one performed iteration, at "
                "least one point evaluated inside the domain and at least 3 ops; distinct by the hash of the script text; corpus witnesses run first",
        "samples": acc.samples[:4],
        "programs": acc.ncases, "traces_validated_against_impl": acc.okc, "disagreements_checked": len(acc.mism),
        "correspondence": dict(acc.cstats, cases_agreeing_bit_exact=acc.okc, mismatches=len(acc.mism), clearbest_variant_of_the_tree=acc.variant,
                               compared_after_every_op="positions velocities bestpos pinside binside pfvals bfvals flags callbacks rngcalls exception"),
        "direct": dict(acc.stats, split_pairs_compared=acc.nsplit, cases_skipped_min_checks_nonfinite=acc.skipped_nf,
                       failures_in_known_history_classes=acc.known, failures_per_new_key=acc.perkey),
        "input_distribution": dict(sorted(acc.dist.items(), key=lambda kv: -kv[1])[:60]), "op_distribution": acc.opdist,
        "direct_property_violations": acc.nviol,
    })
    res.assumptions = [
        "the order theorems (swarm best = minimum, never increases) assume the comparison is a strict weak order: proved for Q, true of binary64 '<' "
        "on non-NaN values; cases whose state contains inf/NaN are excluded from the min/monotone checks (counted) but not from the others",
        "the objective and the domain are pure functions of the point (the driver's are)",
        "coherence theorems hold for histories that call setParticlePositions / setBestParticlePositions / initializeParticlesInsideBox only while "
        "the cache is not initialised; this precondition is NOT in the class documentation (known-finding keys %s, %s)" % (K_H2, K_H3),
        "white-box reads of cache_particle_* / cache_best_particle_* through '#define private public' do not change the layout of the class",
    ]


def replay(path):
    rp = json.load(open(path))
    res = vlib.Result(PID, "quick", rp.get("seed", 1), LEVEL)
    scs = []
    if rp.get("script"):
        scs.append(rp["script"])
    if rp.get("script2"):
        s2 = dict(rp["script2"])
        s2["id"] = (scs[0]["id"] + "s") if scs else s2["id"]
        scs.append(s2)
    if scs:
        run(res, "quick", rp.get("seed", 1), replay_scripts=scs)
    else:
        run(res, "quick", rp.get("seed", 1))
    return res.finish()
