"""C01, Global grids with NESTED one-dimensional rules: the combination-technique surrogate on a lower tensor set reproduces the
loaded values at every grid point, for every dimension, every duplicate-free lower set, every nested node sequence with pairwise
distinct nodes and strictly increasing point counts (unbounded; field Qc).

Theorems: coq/Props/Properties_C01_global.v (proofs coq/Proofs/GlobalNestedInterp.v, on top of Proofs/LagrangeExact.v and the
sumf / box / lower toolbox of Proofs/CombinationProofs.v).
  A f (x) = sum_{s in Theta} sum_{p : p_j < n(s_j)} f p * prod_j (ell (s_j) - ell (s_j - 1)) (p_j) (x_j)
is the mathematical form of GridGlobal::evaluate (getInterpolationWeights / computeBasisValues with the tensor weights) with the
values stored by loadNeededValues.  There is NO executable tie of this sub-part: the nodes of most nested Global rules are irrational
(Clenshaw-Curtis, Fejer, Leja, ...), so the Qc model cannot be run on the implementation's nodes; the link to the code is the numeric
part of props/C01.py (evaluate at the loaded points of Global grids) and the tensor-set ties of C08 (lower sets).  This module only
re-checks the theorems and records them in the proof coverage of C01.

Used by props/C01.py through run(res); stand-alone:  python3 props/c01global.py   (exit 0/1, nothing written under evidence/)."""
import json
import os
import re
import sys
import time

sys.path.insert(0, os.path.join(os.path.dirname(os.path.dirname(os.path.abspath(__file__))), "tools"))
import vlib  # noqa: E402

PID = "C01"
SUB = "C01_global"
WORK = "gnest"
FILES = ["coq/Proofs/GlobalNestedInterp.v", "coq/Props/Properties_C01_global.v"]
REQUIRED = ["c01_global_1d_telescope", "c01_global_1d_cardinal", "c01_global_1d_difference_vanishes",
            "c01_global_nested_reproduces", "c01_global_nested_reproduces_tensor", "c01_global_nested_reproduces_loaded",
            "c01_global_grid_points_characterised", "c01_global_values_unique"]
REQUIRED_EXAMPLES = ["c01_global_hyps_inhabited", "c01_global_ex_Theta_ok", "c01_global_ex_by_computation", "c01_global_ex_by_theorem",
                     "c01_global_not_lower_refuted"]
FORBIDDEN = re.compile(r"\b(Axiom|Axioms|Parameter|Parameters|Conjecture|Admitted|admit|Abort|Unset\s+Guard|Unset\s+Positivity|bypass_check)\b")

TRUSTED = [
    "Coq 8.16.1 kernel (vm_compute in the Examples only); axioms: none (Print Assumptions: closed under the global context)",
    "the reading of GridGlobal::evaluate as the operator Aop (sum over the tensors of Theta of the tensor products of one-dimensional "
    "differences of Lagrange interpolants on the first n(l) nodes of a nested sequence); exact arithmetic (Qc), not binary64",
    "hypotheses of the theorems: pairwise distinct nodes, n(0) >= 1, n strictly increasing, Theta duplicate free, of one dimension, lower "
    "(CombinationProofs.lower); non-nested rules (Gauss, Chebyshev) are NOT covered",
    "no executable tie for this sub-part (irrational nodes): see the module docstring",
]


def strip_comments(txt):
    out, depth, i = [], 0, 0
    while i < len(txt):
        if txt.startswith("(*", i):
            depth += 1
            i += 2
        elif txt.startswith("*)", i) and depth:
            depth -= 1
            i += 2
        else:
            if depth == 0:
                out.append(txt[i])
            elif txt[i] == "\n":
                out.append("\n")
            i += 1
    return "".join(out)


def forbidden_tokens():
    hits = []
    for rel in FILES:
        p = os.path.join(vlib.ROOT, rel)
        if not os.path.exists(p):
            hits.append(rel + ": missing")
            continue
        for i, line in enumerate(strip_comments(open(p, errors="replace").read()).split("\n"), 1):
            if FORBIDDEN.search(line):
                hits.append("%s:%d: %s" % (rel, i, line.strip()[:120]))
    return hits


def run(res, tier="quick", seed=1):
    t0 = time.time()
    cov = {}
    res.coverage["global_nested_interpolation"] = cov
    props = vlib.coq_props(SUB)
    src = strip_comments(open(os.path.join(vlib.ROOT, FILES[1])).read())
    examples = re.findall(r"^\s*Example\s+(\w+)", src, re.M)
    bad_axioms = {k: v for k, v in props["assumptions"].items() if not v.startswith("Closed under the global context")}
    missing = [t for t in REQUIRED if t not in props["theorems"]] + [e for e in REQUIRED_EXAMPLES if e not in examples]
    unprinted = [t for t in props["theorems"] if t not in props["assumptions"]] if props["ok"] else []
    forb = forbidden_tokens()
    # statements only in the Props file: every Theorem is closed by  Proof. exact <lemma>. Qed.
    not_exact = [m.group(1) for m in re.finditer(r"Theorem\s+(\w+)\b(.*?)\bQed\.", src, re.S)
                 if not re.search(r"Proof\.\s*exact\s+[\w.']+\.\s*$", m.group(2).strip())]
    cov.update({"props_file": FILES[1], "proof_file": FILES[0], "obligations": props["obligations"], "discharged": props["discharged"],
                "theorems": props["theorems"], "examples": examples, "print_assumptions": props["assumptions"],
                "forbidden_tokens": forb, "trusted_base": TRUSTED,
                "checker_cmd": "cd coq && make Props/Properties_C01_global.vo && coqc -Q . TV Props/Properties_C01_global.v",
                "executable_tie": "none (irrational nodes); tied through the numeric part of C01 and the tensor sets of C08"})
    broken = (not props["ok"]) or bool(bad_axioms) or bool(missing) or bool(unprinted) or bool(forb) or bool(not_exact) \
        or props["discharged"] != props["obligations"]
    if broken:
        why = []
        if not props["ok"]:
            why.append("Properties_C01_global.v does not compile (%d/%d)" % (props["discharged"], props["obligations"]))
        if bad_axioms:
            why.append("not closed under the global context: %s" % sorted(bad_axioms)[:3])
        if missing:
            why.append("missing statements: %s" % missing[:4])
        if unprinted:
            why.append("no Print Assumptions for: %s" % unprinted[:4])
        if forb:
            why.append("forbidden constructs: %s" % forb[:3])
        if not_exact:
            why.append("theorems not closed by `exact`: %s" % not_exact[:3])
        res.violation("global-nested-theorems-broken", "the theorems of the Global nested interpolation property no longer check: " + "; ".join(why),
                      {"kind": "proof-break", "theorems": props["theorems"], "log": props["log"][-3000:]}, no_input=True)
    cov["wall_s"] = round(time.time() - t0, 1)
    return not broken


def main():
    res = vlib.Result(PID, "quick", int(os.environ.get("VERIF_SEED", "1") or 1), "proof")
    try:
        run(res)
    except vlib.BuildError as e:
        res.violation("global-nested-theorems-broken", "build failed: " + str(e)[:1500], {"kind": "build-failure", "detail": str(e)}, no_input=True)
    cov = res.coverage.get("global_nested_interpolation", {})
    wd = os.path.join(vlib.BUILD, "work", WORK)
    os.makedirs(wd, exist_ok=True)
    with open(os.path.join(wd, "evidence-standalone.json"), "w") as fh:
        json.dump({"property_id": PID, "part": "global_nested_interpolation", "coverage": cov, "violations": len(res.violations),
                   "known": [k for k, _ in res.known_hit]}, fh, indent=1, default=str)
    for key, text in res.known_hit:
        print("KNOWN-FINDING: property=%s key=%s %s" % (PID, key, text))
    for v in res.violations:
        print("DETAIL property=%s key=%s %s" % (PID, v["key"], v["what"][:600].replace("\n", " ")))
        print("VIOLATION property=%s replay=%s%s" % (PID, v["replay"], " no-failing-input-found" if v["no_input"] else ""))
    print("SUMMARY " + json.dumps({k: cov.get(k) for k in ("obligations", "discharged", "theorems", "examples", "forbidden_tokens", "wall_s")}, default=str))
    print("closed: %d/%d" % (sum(1 for v in cov.get("print_assumptions", {}).values() if v.startswith("Closed under the global context")),
                             cov.get("obligations", 0)))
    sys.stdout.flush()
    return 1 if res.violations else 0


if __name__ == "__main__":
    sys.exit(main())
