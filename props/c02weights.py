"""C02 / C03, the tensor weights of the combination technique (MultiIndexManipulations::computeTensorWeights + resortIndexes).

Theorems: coq/Props/Properties_C02_weights.v about the model coq/Model/TensorWeights.v: the in-place backward sweep on a line gives
b_i = a_i - a_{i+1}; for every dimension and every lower, lexicographically sorted set the computed weight of t is the
inclusion-exclusion value  sum_{e in {0,1}^D, t+e in Theta} (-1)^|e|; the weights of a non-empty lower set sum to 1; inactive tensors
(t + (1,..,1) in Theta) have weight 0; sum_t w(t) V(t) = sum_t (mixed backward difference of V)(t) for every integer family V.
Tie (exact comparison of integers): harness/twdrv.cpp calls the real computeTensorWeights(MultiIndexSet) on generated sets and on the
`tensors` / `active_tensors` members of constructed Global and Fourier grids; the extracted models (ocaml/tensorweights_main.ml)
recompute the weights: tw_cpp (mirror of the C++ control flow: sorted position maps, runs, in-place sweeps) and tw_lines (the model of
the theorems) - both must agree with the implementation on every set, lower or not.
Direct evaluation: on every lower set the implementation's weights are compared with the inclusion-exclusion formula computed here in
Python (independent of the model), their sum with 1, and the grid's active_w with the non-zero weights.

Stand-alone:  python3 props/c02weights.py quick 1   (exit 0/1, evidence under _build/work/tw/)."""
import itertools
import json
import os
import sys
import time

sys.path.insert(0, os.path.join(os.path.dirname(os.path.dirname(os.path.abspath(__file__))), "tools"))
import vlib  # noqa: E402

PID = "C02"
SUB = "C02_weights"
WORK = "tw"
PART = "tensor_weights"

TRUSTED = [
    "Coq 8.16.1 kernel (vm_compute in Examples only); axioms: none",
    "extraction: ExtrOcamlBasic only; OCaml glue ocaml/tensorweights_main.ml; C++ driver harness/twdrv.cpp (white-box, read-only: members "
    "tensors / active_tensors / active_w of GridGlobal and GridFourier; computeTensorWeights is a public function of the namespace)",
    "the theorems are about tw_lines (lines = the indexes that agree outside d, in the order of the set); tw_cpp mirrors the C++ "
    "(std::sort of positions with the comparator of resortIndexes, run boundaries, in-place sweeps by position); tw_cpp = tw_lines on "
    "sorted duplicate-free sets is NOT proved, it is checked by running both on every case of the tie",
    "NOT modelled: overflow of int, the empty set (the C++ reads weights.back() / map[d][0]), the order of the omp-parallel lines "
    "(they are disjoint)",
]


# ------------------------------------------------------------------------------------------------ case generation
def closure(tops, d):
    s = set()
    for t in tops:
        for p in itertools.product(*[range(x + 1) for x in t]):
            s.add(p)
    return s


def gen_lower(r, d, cap):
    kind = r.choice(["simplex", "simplex", "box", "hyper", "closure", "closure"])
    if kind == "simplex":
        w = [r.choice([1, 1, 2, 3]) for _ in range(d)]
        L = r.randint(0, {1: 12, 2: 9, 3: 7, 4: 5, 5: 4}[d])
        top = [L // x for x in w]
        s = set(p for p in itertools.product(*[range(x + 1) for x in top]) if sum(a * b for a, b in zip(w, p)) <= L)
    elif kind == "box":
        top = [r.randint(0, {1: 12, 2: 6, 3: 4, 4: 2, 5: 2}[d]) for _ in range(d)]
        s = set(itertools.product(*[range(x + 1) for x in top]))
    elif kind == "hyper":
        L = r.randint(1, {1: 12, 2: 12, 3: 8, 4: 6, 5: 4}[d])
        s = set()
        for p in itertools.product(*[range(L) for _ in range(d)]):
            v = 1
            for x in p:
                v *= x + 1
            if v <= L:
                s.add(p)
    else:
        m = {1: 10, 2: 7, 3: 4, 4: 3, 5: 2}[d]
        tops = [tuple(r.randint(0, m) for _ in range(d)) for _ in range(r.randint(1, 5))]
        s = closure(tops, d)
    if len(s) > cap:
        srt = sorted(s, key=lambda p: (sum(p), p))      # a prefix in a graded order is lower
        s = set(srt[:cap])
    return kind, sorted(s)


def gen_any(r, d):
    """a sorted duplicate-free set that in general is not lower: a random subset of a lower set, or random indexes"""
    if r.random() < 0.6:
        _, s = gen_lower(r, d, 120)
        keep = [p for p in s if r.random() < r.choice([0.5, 0.8])]
        s = keep or s[:1]
    else:
        m = r.choice([1, 2, 3, 5])
        s = sorted(set(tuple(r.randint(0, m) for _ in range(d)) for _ in range(r.randint(1, 40))))
    return s


def set_line(cid, d, s):
    return "set %s %d : %s" % (cid, d, " ".join(str(x) for p in s for x in p))


RULES = ["clenshaw-curtis", "leja", "gauss-legendre", "rleja", "fejer2", "gauss-patterson", "chebyshev"]
TYPES = ["level", "iptotal", "qptotal", "tensor", "iptensor", "qptensor", "curved", "hyperbolic", "iphyperbolic"]


def gen_grid(r, cid):
    fam = r.choice(["global", "global", "fourier"])
    d = r.choice([1, 2, 2, 3, 3, 4])
    ty = r.choice(TYPES)
    rule = r.choice(RULES) if fam == "global" else "fourier"
    depth = r.randint(0, {1: 6, 2: 5, 3: 4, 4: 3}[d])
    if rule == "gauss-patterson":
        depth = min(depth, 3)
    if "hyperbolic" in ty:
        depth = min(depth, 3)
    k = r.random()
    w = [] if k < 0.5 else [r.choice([1, 1, 2, 3]) for _ in range(d)]
    if ty.endswith("tensor"):       # full tensor grids: the top level is weight * depth in every direction and the rules grow exponentially
        depth, w = min(depth, 2 if d <= 3 else 1), []
    if ty in ("curved",):
        w = w + [r.choice([0, 1]) for _ in range(d)] if w else []
    return "grid %s %s %s %s %d %d w: %s" % (cid, fam, rule, ty, d, depth, " ".join(map(str, w)))


FIXED = [
    ("f1", 1, [(0,)]), ("f2", 1, [(0,), (1,), (2,), (3,)]), ("f3", 2, [(0, 0)]),
    ("f4", 2, [(0, 0), (0, 1), (0, 2), (1, 0), (1, 1), (2, 0)]),
    ("f5", 3, [(0, 0, 0), (0, 0, 1), (0, 1, 0), (1, 0, 0)]),
    ("f6", 3, sorted(itertools.product(range(2), range(3), range(2)))),
    ("f7", 5, sorted(p for p in itertools.product(range(3), repeat=5) if sum(p) <= 2)),
]
FIXED_ANY = [
    ("g1", 2, [(0, 0), (0, 2), (2, 0), (2, 2)]), ("g2", 2, [(0, 0), (0, 3), (1, 1), (3, 0)]), ("g3", 1, [(2,), (5,)]),
    ("g4", 3, [(0, 0, 0), (0, 0, 2), (0, 1, 1), (1, 0, 2), (2, 0, 0), (2, 0, 2)]), ("g5", 2, [(1, 1)]),
]


def is_lower(s):
    ss = set(s)
    for p in s:
        for j in range(len(p)):
            if p[j] > 0 and (p[:j] + (p[j] - 1,) + p[j + 1:]) not in ss:
                return False
    return True


def incl_excl(s):
    """sum over e in {0,1}^d with t+e in the set of (-1)^|e|, for every t of the set"""
    ss = set(s)
    d = len(s[0])
    cube = list(itertools.product((0, 1), repeat=d))
    return [sum((-1) ** sum(e) for e in cube if tuple(a + b for a, b in zip(t, e)) in ss) for t in s]


# ------------------------------------------------------------------------------------------------ run
def run(res, tier, seed, replay_cases=None):
    t0 = time.time()
    cov = {}
    res.coverage[PART] = cov
    props = vlib.coq_props(SUB)
    bad_axioms = {k: v for k, v in props["assumptions"].items() if not v.startswith("Closed under the global context")}
    cov.update({"props_file": "coq/Props/Properties_C02_weights.v", "obligations": props["obligations"], "discharged": props["discharged"],
                "theorems": props["theorems"], "print_assumptions": props["assumptions"], "trusted_base": TRUSTED})
    proof_broken = (not props["ok"]) or bool(bad_axioms) or len(props["assumptions"]) != props["obligations"]
    ok_ext, elog = vlib.coq_make(["Extract/ExtractTensorWeights.vo"])
    runner = None
    if ok_ext:
        try:
            runner = vlib.ocaml_runner("tensorweights")
        except vlib.BuildError as e:
            ok_ext, elog = False, str(e)
    drv, derr = vlib.try_build_driver("twdrv")
    wd = os.path.join(vlib.BUILD, "work", WORK)
    os.makedirs(wd, exist_ok=True)
    r = vlib.rng(seed, SUB)
    nv0 = len(res.violations)

    kinds = {}
    if replay_cases:
        lines = list(replay_cases)
    else:
        lines = []
        cdir = os.path.join(vlib.ROOT, "corpus", "C02")
        for f in sorted(os.listdir(cdir)) if os.path.isdir(cdir) else []:
            try:
                w = json.load(open(os.path.join(cdir, f)))
            except (OSError, ValueError):
                continue
            if isinstance(w, dict) and w.get("driver") == "twdrv":
                lines += [l for l in w.get("cases", []) if l.startswith(("set ", "grid "))]
        for cid, d, s in FIXED + FIXED_ANY:
            lines.append(set_line(cid, d, s))
        n_lower, n_any, n_grid = {"quick": (170, 90, 40), "thorough": (2800, 1600, 600)}[tier]
        if proof_broken:
            n_lower, n_any = 2 * n_lower, 2 * n_any
        cap = 250 if tier == "quick" else 400
        for i in range(n_lower):
            d = r.choice([1, 2, 2, 3, 3, 4, 5])
            kind, s = gen_lower(r, d, cap)
            kinds[kind] = kinds.get(kind, 0) + 1
            lines.append(set_line("l%d" % i, d, s))
        for i in range(n_any):
            d = r.choice([1, 2, 2, 3, 3, 4, 5])
            lines.append(set_line("a%d" % i, d, gen_any(r, d)))
        for i in range(n_grid):
            lines.append(gen_grid(r, "q%d" % i))
    by_id = {l.split()[1]: l for l in lines}
    cf = os.path.join(wd, "cases.txt")
    with open(cf, "w") as fh:
        fh.write("\n".join(lines) + "\n")

    stats = {"ok": 0, "skipped_exception": 0, "lower": 0, "not_lower": 0, "nontrivial": 0, "by_dim": {}, "grid_sets": 0, "active_w": 0,
             "max_n": 0, "neg_weights": 0}
    mism, agree, formula_bad = [], 0, []

    def case_of(rid):
        base = rid[:-2] if rid.endswith((".t", ".a")) and rid not in by_id else rid
        return by_id.get(base, "")

    if drv is None:
        res.violation("correspondence-weights", "white-box driver twdrv no longer compiles/links against the source: " + (derr or "")[-600:],
                      {"kind": "correspondence-break", "correspondence": "twdrv (computeTensorWeights, tensors, active_tensors, active_w)"}, no_input=True)
    else:
        rc, so, se = vlib.run([drv, cf], timeout=300 if tier == "quick" else 2000)
        of = os.path.join(wd, "cases.out")
        with open(of, "w") as fh:
            fh.write(so)
        seen_ids = set()
        grid_w = {}
        for line in so.split("\n"):
            t = line.split()
            if not t:
                continue
            if t[0] == "x":
                seen_ids.add(t[1])
            elif t[0] == "r":
                rid, d = t[1], int(t[2])
                seen_ids.add(rid[:-2] if rid.endswith((".t", ".a")) and rid not in by_id else rid)
                wi = t.index("w:")
                flat = list(map(int, t[4:wi]))
                w = list(map(int, t[wi + 1:]))
                s = [tuple(flat[i:i + d]) for i in range(0, len(flat), d)]
                stats["max_n"] = max(stats["max_n"], len(s))
                stats["by_dim"][d] = stats["by_dim"].get(d, 0) + 1
                if rid.endswith((".t", ".a")):
                    stats["grid_sets"] += 1
                if rid.endswith(".t"):
                    grid_w[rid[:-2]] = w
                if len(w) != len(s):
                    formula_bad.append((rid, "computeTensorWeights returned %d weights for %d indexes" % (len(w), len(s))))
                    continue
                if is_lower(s):
                    stats["lower"] += 1
                    ie = incl_excl(s)
                    if any(v < 0 for v in w):
                        stats["neg_weights"] += 1
                    if len(s) > 1 and d > 1 and any(v < 0 for v in ie):
                        stats["nontrivial"] += 1
                    if ie != w:
                        k = next(i for i in range(len(s)) if ie[i] != w[i])
                        formula_bad.append((rid, "lower set, d=%d, %d indexes: weight of %s is %d, inclusion-exclusion gives %d" % (d, len(s), s[k], w[k], ie[k])))
                    elif sum(w) != 1:
                        formula_bad.append((rid, "lower set, d=%d: the weights sum to %d, not 1" % (d, sum(w))))
                else:
                    stats["not_lower"] += 1
            elif t[0] == "g":
                aw = list(map(int, t[3:]))
                stats["active_w"] += 1
                w = grid_w.get(t[1])
                if w is not None and [v for v in w if v != 0] != aw:
                    formula_bad.append((t[1], "active_w of the grid %s is not the non-zero weights of its tensors %s" % (aw[:20], [v for v in w if v != 0][:20])))
        if rc != 0:
            nxt = next((l for l in lines if l.split()[1] not in seen_ids), "")
            res.violation("twdrv-crash", "twdrv exited with %d (%s) at case: %s" % (rc, se[-300:].strip(), nxt[:300]),
                          {"kind": "impl-counterexample", "driver": "twdrv", "cases": [nxt] if nxt else lines[-5:]})
        else:
            missing = [l for l in lines if l.split()[1] not in seen_ids]
            if missing:
                mism.append("MISMATCH %s driver-produced-no-result-line-for %d cases" % (missing[0].split()[1], len(missing)))
        if runner:
            rc2, mo, me = vlib.run([runner, cf, of], timeout=900 if tier == "quick" else 3000)
            with open(os.path.join(wd, "runner.out"), "w") as fh:
                fh.write(mo)
            for line in mo.split("\n"):
                t = line.split()
                if line.startswith("MISMATCH"):
                    mism.append(line)
                elif line.startswith("agree"):
                    agree += int(t[1])
                elif line.startswith("skip"):
                    stats["skipped_exception"] += 1
                elif line.startswith("ok "):
                    stats["ok"] += 1
            if rc2 != 0:
                mism.append("MISMATCH - runner-failed " + me[-300:])

    # the implementation's weights are not the inclusion-exclusion values on a lower set: a failing input of C02/C03
    if formula_bad:
        formula_bad.sort(key=lambda x: len(case_of(x[0])) if case_of(x[0]).startswith("set ") else 10 ** 6)     # smallest failing set first
        rid, what = formula_bad[0]
        case = case_of(rid)
        res.violation("tensor-weights-not-inclusion-exclusion",
                      "computeTensorWeights: %s (%d sets affected) [%s]" % (what, len(formula_bad), case[:400]),
                      {"kind": "impl-counterexample", "driver": "twdrv", "cases": [case], "detail": [w for _, w in formula_bad[:5]]})
    seen = set()
    mism.sort(key=len)                                                                                        # smallest failing set first
    for mline in mism:
        t = mline.split()
        cid = t[1] if len(t) > 1 else "-"
        case = case_of(cid)
        if len(t) > 3 and t[2] == "tensor-weights":
            key = "tensor-weights-differ"
            what = "computeTensorWeights does not return the weights of the model (%s)" % t[3]
        else:
            key, what = "correspondence-weights", "tensor-weights model could not be evaluated"
        if key in seen:
            continue
        seen.add(key)
        if key == "correspondence-weights":
            res.violation(key, what + ": " + mline[:300], {"kind": "correspondence-break", "correspondence": "TensorWeights model vs twdrv",
                                                          "examples": mism[:5], "cases": [case]}, no_input=True)
        else:
            res.violation(key, "%s: %s [%s]" % (what, mline[:600], case[:300]),
                          {"kind": "impl-counterexample", "driver": "twdrv", "cases": [case], "detail": mline[:4000]})
    if proof_broken and len(res.violations) == nv0:
        res.violation("proof-weights", "proof obligations of Properties_C02_weights.v no longer check (%d/%d) %s" %
                      (props["discharged"], props["obligations"], list(bad_axioms)[:2]),
                      {"kind": "proof-break", "theorems": props["theorems"], "log": props["log"][-3000:]}, no_input=True)
    if not ok_ext and len(res.violations) == nv0:
        res.violation("extraction-weights", "extraction / build of the tensor-weights model failed", {"kind": "proof-break", "log": elog[-2000:]}, no_input=True)
    cov.update({
        "cases": len(lines), "sets_compared": stats["ok"], "comparisons_agree_exactly": agree, "disagreements": len(mism),
        "formula_failures": len(formula_bad), "skipped_exception": stats["skipped_exception"], "lower_sets": stats["lower"],
        "non_lower_sets": stats["not_lower"], "sets_from_grids": stats["grid_sets"], "active_w_compared": stats["active_w"],
        "lower_sets_with_negative_weights": stats["neg_weights"], "distinct_nontrivial": stats["nontrivial"], "by_dim": stats["by_dim"],
        "generated_lower_kinds": kinds, "largest_set": stats["max_n"], "wall_s": round(time.time() - t0, 1),
        "rule": "lower sets in d = 1..5: anisotropic simplices (weights 1-3), boxes, hyperbolic-cross sets prod(t_j+1) <= L, downward closures "
                "of 1-5 random indexes (capped by a graded prefix); tensors and active_tensors of Global / Fourier grids (9 depth types, "
                "anisotropic weights); non-lower sorted sets: random subsets of lower sets and random indexes; fixed small sets; every set: "
                "implementation = tw_cpp = tw_lines exactly; every lower set: implementation = inclusion-exclusion formula (Python) and sum = 1; "
                "non-trivial = lower, d > 1, more than one index and at least one negative weight",
        "sample": lines[len(lines) // 2][:300] if lines else "",
    })
    return cov


def replay(path):
    rp = json.load(open(path))
    res = vlib.Result(PID, "quick", rp.get("seed", 1), "proof")
    run(res, "quick", rp.get("seed", 1), replay_cases=rp.get("cases"))
    return finish_standalone(res)


def finish_standalone(res):
    """print the outcome like Result.finish() but write the evidence under _build/work/tw/ (never evidence/C02.json)"""
    wd = os.path.join(vlib.BUILD, "work", WORK)
    os.makedirs(wd, exist_ok=True)
    cov = res.coverage.get(PART, {})
    with open(os.path.join(wd, "evidence-standalone.json"), "w") as fh:
        json.dump({"property_id": PID, "part": PART, "tier": res.tier, "seed": res.seed, "coverage": cov,
                   "violations": len(res.violations), "known": [k for k, _ in res.known_hit]}, fh, indent=1, default=str)
    for key, text in res.known_hit:
        print("KNOWN-FINDING: property=%s key=%s %s" % (PID, key, text))
    seen = set()
    for v in res.violations:
        if v["key"] in seen:
            continue
        seen.add(v["key"])
        print("DETAIL property=%s key=%s %s" % (PID, v["key"], v["what"][:700].replace("\n", " ")))
        print("VIOLATION property=%s replay=%s%s" % (PID, v["replay"], " no-failing-input-found" if v["no_input"] else ""))
    short = {k: cov.get(k) for k in ("obligations", "discharged", "cases", "sets_compared", "comparisons_agree_exactly", "disagreements",
                                      "formula_failures", "skipped_exception", "lower_sets", "non_lower_sets", "sets_from_grids",
                                      "active_w_compared", "distinct_nontrivial", "by_dim", "largest_set", "wall_s")}
    print("SUMMARY " + json.dumps(short, default=str))
    sys.stdout.flush()
    return 1 if res.violations else 0


def main():
    if len(sys.argv) >= 3 and sys.argv[1] == "--replay":
        return replay(sys.argv[2])
    tier = sys.argv[1] if len(sys.argv) > 1 and sys.argv[1] in ("quick", "thorough") else "quick"
    seed = int(sys.argv[2]) if len(sys.argv) > 2 else int(os.environ.get("VERIF_SEED", "1") or 1)
    res = vlib.Result(PID, tier, seed, "proof")
    try:
        run(res, tier, seed)
    except vlib.BuildError as e:
        res.violation("build", "build failed: " + str(e)[:1500], {"kind": "build-failure", "detail": str(e)}, no_input=True)
    return finish_standalone(res)


if __name__ == "__main__":
    sys.exit(main())
