"""C04 — all documented routes to the same quantity agree.

Theorems (coq/Props/Properties_C04.v): the dual identity behind "weights times values" (any ring, any basis matrix),
uniqueness of hierarchical coefficients (set/get round trip, equality of surrogates), the local-polynomial basis
vanishes beyond the reported support radius (all points, all orders).  Direct evaluation of every pair of routes named in
the statement on the implementation, for all five families over load / refine / merge / construction / setCoefficients
histories, at random points, at nodes and exactly at node +- support."""
import os

import gridlib as gl
import vlib
import c04treewalk

LEVEL = "proof"
PID = "C04"

TRUSTED = [
    "Coq 8.16.1 kernel; no native_compute; axioms: none",
    "Python orchestration, C++ driver harness/tsgdrv.cpp (probe points generated inside the driver from the grid's own nodes and supports)",
    "modelled: RuleLocal support/scaled coordinate (tied exhaustively by C07/C01), generic hierarchical algebra; "
    "NOT modelled: the sparse block assembly, the evaluation tree walk, Global/Wavelet/Fourier routes - for those the statement itself is evaluated on the implementation",
]

TOL = 1e-9


def gen_case(r, cid, tier):
    fam = r.choice(gl.FAMILIES)
    spec = gl.rand_spec(r, family=fam, max_dims=3)
    if spec["outs"] == 0:
        spec["outs"] = 1
    if fam == "global" and spec["rule"] in gl.GLOBAL_NONNESTED and r.random() < 0.5:
        spec["rule"] = r.choice(gl.GLOBAL_NESTED)
        spec.pop("ab", None)
    lines = ["case " + cid, gl.make_cmd(spec)]
    if r.random() < 0.25:
        lines.append(gl.trans_cmd(gl.rand_transform(r, spec)))
    fn = lambda: r.choice(["smooth", "poly", "hash", "affine"])

    def observe(tag):
        pr = "probe g %d %d" % (r.randint(2, 5), r.randint(1, 10 ** 6))
        if r.random() < 0.12:
            pr = "probe g %d %d only" % (r.choice([32, 64, 31, 33]), r.randint(1, 10 ** 6))   # block boundaries of the sparse matrix assembly
        return [pr, "dump g meta points values coef qw hsupport hint", "integ g",
                "eval g x: @", "evalb g x: @", "hbasis g x: @", "hsparse g x: @", "hsparsenz g x: @", "weights g", "diffall g"]
    lines += ["load g " + fn()] + observe("loaded")
    nested = not (fam == "global" and spec["rule"] in gl.GLOBAL_NONNESTED)
    for _ in range(r.randint(0, 3)):
        k = r.random()
        if k < 0.35 and nested:
            lines += [gl.refine_cmds(r, spec)] + observe("pending")
            if r.random() < 0.7:
                lines += ["load g " + fn()] + observe("loaded")
            elif r.random() < 0.5:
                lines += ["merge g"] + observe("merged")
        elif k < 0.6:
            lines += ["setcoef g " + fn(), "evalpts g"] + observe("setcoef")
        elif k < 0.68 and fam == "localp":
            # removing points by coefficient can leave points without parents (extra roots of the evaluation tree)
            # (documented: after a removal only get/evaluate/IO calls are defined, and the surrogate keeps the retained coefficients,
            #  it no longer interpolates the stored values: the history ends here and only the coefficient-based routes are compared)
            lines += [r.choice(["remtol g %s -1" % vlib.hexf(r.choice([1e-3, 1e-2, 1e-1])), "remcount g %d -1" % r.randint(2, 12)])] + observe("removed")
            break
        elif k < 0.75 and nested and fam != "global":
            lines += ["begin g"]
            if fam in ("localp", "wavelet"):
                lines.append("cand g surp %s stable -1" % vlib.hexf(0.0))
            else:
                lines.append("cand g aw level aw: %s" % " ".join(["1"] * spec["dims"]))
            lines.append("deliver g %s idx: %s" % (fn(), " ".join(map(str, r.sample(range(6), r.randint(1, 5))))))
            lines += observe("construction") + ["finish g"] + observe("finished")
        else:
            lines += ["load g " + fn()] + observe("reloaded")
    return spec, lines


def relerr(a, b, scale):
    return abs(a - b) / scale


def check_obs(res, cid, spec, script, obs, stats, setcoef_expect):
    fam, d, outs = spec["family"], spec["dims"], spec["outs"]
    m = obs.get("meta")
    if not m:
        return
    n = int(m["points"])
    nl = int(m["loaded"])
    X = obs.get("probe", [])
    nx = len(X) // d if d else 0
    stats["observations"] += 1
    replay = {"kind": "impl-counterexample", "script": script}

    def viol(key, what):
        stats["violations"] += 1
        res.violation(key + ":" + fam, "%s [%s]" % (what, script[1]), dict(replay, detail=what))

    vals, coef = obs.get("values", []), obs.get("coef", [])
    ev, evb = obs.get("eval"), obs.get("evalb")
    scale = max([1.0] + [abs(v) for v in vals] + [abs(v) for v in (ev or [])])
    # (1) evaluate == row of evaluateBatch
    if ev is not None and evb is not None and len(ev) == len(evb):
        e = max([relerr(a, b, scale) for a, b in zip(ev, evb)] + [0.0])
        stats["max"]["eval-batch"] = max(stats["max"].get("eval-batch", 0), e)
        if e > TOL:
            viol("evaluate-vs-batch", "evaluate and evaluateBatch differ by %.3g" % e)
    loaded_all = (nl == n and nl > 0 and outs > 0)
    interpolating = loaded_all and not obs.get("removed")     # after removePointsByHierarchicalCoefficient the surrogate is not the interpolant of the values
    hb = obs.get("hbasis")
    # (2) evaluate == interpolation weights . values
    iw = obs.get("iwall")
    if ev is not None and iw is not None and interpolating and len(iw) == nx * n and len(vals) == n * outs:
        for xi in range(nx):
            for k in range(outs):
                s = sum(iw[xi * n + i] * vals[i * outs + k] for i in range(n))
                cond = sum(abs(iw[xi * n + i] * vals[i * outs + k]) for i in range(n))
                e = abs(s - ev[xi * outs + k]) / max(scale, cond)
                stats["max"]["eval-weights"] = max(stats["max"].get("eval-weights", 0), e)
                if e > TOL:
                    viol("evaluate-vs-weights", "evaluate(x) and interpolation weights x values differ by %.3g at x=%s" % (e, X[xi * d:(xi + 1) * d]))
                    return
    # (3) evaluate == coefficients . hierarchical functions
    if ev is not None and hb is not None and loaded_all and coef:
        if fam == "fourier":
            ok_shape = len(hb) == 2 * nx * n and len(coef) == 2 * n * outs
        else:
            ok_shape = len(hb) == nx * n and len(coef) == n * outs
        if ok_shape:
            for xi in range(nx):
                for k in range(outs):
                    if fam == "fourier":
                        s = sum(coef[i * outs + k] * hb[2 * (xi * n + i)] - coef[n * outs + i * outs + k] * hb[2 * (xi * n + i) + 1] for i in range(n))
                        cond = sum(abs(coef[i * outs + k] * hb[2 * (xi * n + i)]) + abs(coef[n * outs + i * outs + k] * hb[2 * (xi * n + i) + 1]) for i in range(n))
                    else:
                        s = sum(coef[i * outs + k] * hb[xi * n + i] for i in range(n))
                        cond = sum(abs(coef[i * outs + k] * hb[xi * n + i]) for i in range(n))
                    e = abs(s - ev[xi * outs + k]) / max(scale, cond)
                    stats["max"]["eval-coeff"] = max(stats["max"].get("eval-coeff", 0), e)
                    if e > TOL:
                        viol("evaluate-vs-coefficients", "evaluate(x) and coefficients x hierarchical functions differ by %.3g at x=%s" % (e, X[xi * d:(xi + 1) * d]))
                        return
    # (4) sparse == dense
    pn, ix, sv = obs.get("hsp_pntr"), obs.get("hsp_indx"), obs.get("hsp_vals")
    if hb is not None and pn is not None and fam != "fourier" and len(hb) == nx * n and len(pn) == nx + 1:
        for xi in range(nx):
            row = {}
            for t in range(pn[xi], pn[xi + 1]):
                row[ix[t]] = sv[t]
            for j in range(n):
                dv = hb[xi * n + j]
                spv = row.get(j, 0.0)
                if dv.hex() != spv.hex() and not (dv == 0.0 and spv == 0.0):
                    viol("sparse-vs-dense", "hierarchical basis %d at x=%s: dense %r sparse %r" % (j, X[xi * d:(xi + 1) * d], dv, spv))
                    return
        stats["sparse_rows"] += nx
    # (5) zero beyond the reported support
    sup, pts = obs.get("hsupport"), obs.get("points", [])
    allp = pts
    if hb is not None and sup is not None and fam in ("localp", "wavelet") and len(sup) == n * d and len(hb) == nx * n and nl == n:
        for xi in range(nx):
            for j in range(n):
                far = any(abs(X[xi * d + k] - allp[j * d + k]) > sup[j * d + k] * (1 + 1e-12) + 1e-14 for k in range(d))
                if far and hb[xi * n + j] != 0.0:
                    stats["violations"] += 1
                    key = "nonzero-beyond-support:" + fam
                    if fam == "localp" and spec.get("rule") == "semi-localp" and spec.get("order", 0) >= 2:
                        # which 1-d point? (global quadratics of the semi-local rule are points 1 and 2)
                        key = "nonzero-beyond-support:semi-localp"
                    res.violation(key, "basis function %d (node %s, reported support %s) is %r at x=%s [%s]" % (
                        j, allp[j * d:(j + 1) * d], sup[j * d:(j + 1) * d], hb[xi * n + j], X[xi * d:(xi + 1) * d], script[1]),
                                  dict(replay, basis=j))
                    return
        stats["support_checks"] += nx * n
    # (5b) the sparse basis through its three entry points at the same points: GetNZ count = vector overload = what Static fills
    hz = obs.get("hsnz")
    if hz is not None and len(hz) == 4:
        stats["sparse_counts"] = stats.get("sparse_counts", 0) + 1
        if not (hz[0] == hz[1] == hz[2] and hz[3] == 1):
            viol("sparse-getnz-vs-static", "evaluateSparseHierarchicalFunctionsGetNZ announces %d non-zeros, the vector overload returns %d, Static fills %d (same entries: %s)"
                 % (hz[0], hz[1], hz[2], bool(hz[3])))
            return
    # (6) integrate == qw . values == coef . hint
    ig, qw, hint = obs.get("integ"), obs.get("qw"), obs.get("hint")
    if ig is not None and qw is not None and loaded_all and len(qw) == n and len(ig) == outs:
        for k in range(outs):
            s = sum(qw[i] * vals[i * outs + k] for i in range(n))
            cond = sum(abs(qw[i] * vals[i * outs + k]) for i in range(n))
            e = abs(s - ig[k]) / max(1.0, cond) if interpolating else 0.0
            stats["max"]["integ-qw"] = max(stats["max"].get("integ-qw", 0), e)
            if e > TOL:
                viol("integrate-vs-quadrature", "integrate() and quadrature weights x values differ by %.3g" % e)
                return
        if hint is not None and fam != "fourier" and len(hint) == n and len(coef) == n * outs:
            for k in range(outs):
                s = sum(hint[i] * coef[i * outs + k] for i in range(n))
                cond = sum(abs(hint[i] * coef[i * outs + k]) for i in range(n))
                e = abs(s - ig[k]) / max(1.0, cond)
                stats["max"]["integ-hint"] = max(stats["max"].get("integ-hint", 0), e)
                if e > TOL:
                    viol("integrate-vs-basis-integrals", "integrate() and coefficients x integrateHierarchicalFunctions differ by %.3g" % e)
                    return
    # (7) differentiate == differentiation weights . values
    dw, da = obs.get("dwall"), obs.get("diffall")
    if dw is not None and da is not None and interpolating and len(dw) == nx * n * d and len(da) == nx * outs * d:
        for xi in range(nx):
            for k in range(outs):
                for j in range(d):
                    s = sum(dw[(xi * n + i) * d + j] * vals[i * outs + k] for i in range(n))
                    cond = sum(abs(dw[(xi * n + i) * d + j] * vals[i * outs + k]) for i in range(n))
                    e = abs(s - da[(xi * outs + k) * d + j]) / max(scale, cond)
                    stats["max"]["diff-weights"] = max(stats["max"].get("diff-weights", 0), e)
                    if e > TOL:
                        key = "differentiate-vs-weights"
                        if fam == "fourier":
                            # the closed-form Fourier weights divide by (1-cos(2 pi (x - node)))^2: cancellation close to a node (periodic distance)
                            pts_ = obs.get("points", [])
                            ta, tb = obs.get("ta"), obs.get("tb")
                            width = [(tb[q] - ta[q]) if ta else 1.0 for q in range(d)]

                            def pdist(a, b, w):
                                t = abs(a - b) / w
                                t = t - int(t)
                                return min(t, 1.0 - t)
                            delta = min(pdist(X[xi * d + q], pts_[i * d + q], width[q]) for i in range(n) for q in range(d))
                            if delta < 1e-2:
                                if e <= 1e-6:
                                    stats["skipped_ill_conditioned"] = stats.get("skipped_ill_conditioned", 0) + 1
                                    return
                                key = "fourier-differentiation-weights-unstable-near-node"
                        viol(key, "differentiate(x) and differentiation weights x values differ by %.3g at x=%s" % (e, X[xi * d:(xi + 1) * d]))
                        return


def gen_conformal_case(r, cid, fam):
    """integrate() against the grid's own quadrature weights x values under a conformal (arcsin) map, optionally with a linear transform: every
    family has its own integrate(); the coefficient route (integrateHierarchicalFunctions) does not carry the conformal correction and is not compared"""
    spec = gl.rand_spec(r, family=fam, max_dims=2)
    if spec["outs"] == 0:
        spec["outs"] = 1
    if fam == "global":
        spec["rule"] = r.choice(gl.GLOBAL_NESTED)
        spec.pop("ab", None)
    lines = ["case " + cid, gl.make_cmd(spec)]
    if r.random() < 0.4:
        lines.append(gl.trans_cmd(gl.rand_transform(r, spec)))
    lines.append("conformal g " + " ".join(str(r.randint(1, 6)) for _ in range(spec["dims"])))
    lines += ["load g " + r.choice(["smooth", "poly", "affine"]), "probe g 2 %d" % r.randint(1, 10 ** 6), "dump g meta points values qw", "integ g", "diffall g"]
    return spec, lines


def run(res, tier, seed, replay_script=None):
    props = vlib.coq_props(PID)
    vlib.proof_coverage(res, PID, props, "cd coq && make Props/Properties_C04.vo && coqc -Q . TV Props/Properties_C04.v", TRUSTED)
    proof_broken = (not props["ok"]) or bool(res.coverage["forbidden_tokens"])
    drv = vlib.build_driver("tsgdrv")
    wd = os.path.join(vlib.BUILD, "work", PID)
    os.makedirs(wd, exist_ok=True)
    r = vlib.rng(seed, PID)
    n = {"quick": 160, "thorough": 2500}[tier] * (3 if proof_broken else 1)
    specs, scripts = {}, {}
    # corpus: the semi-local rule's global quadratics (points 1, 2) and the reported support
    corpus = [("corpusSemi", {"family": "localp", "dims": 1, "outs": 1, "depth": 2, "order": 2, "rule": "semi-localp", "ll": []},
               ["case corpusSemi", "make localp g 1 1 2 2 semi-localp", "load g smooth", "probe g 6 7",
                "dump g meta points values coef qw hsupport hint", "integ g", "eval g x: @", "evalb g x: @", "hbasis g x: @", "hsparse g x: @", "weights g", "diffall g"])]
    if replay_script:
        cid = replay_script[0].split()[1]
        scripts[cid] = list(replay_script)
        mk = [l for l in replay_script if l.startswith("make")][0].split()
        specs[cid] = {"family": mk[1], "dims": int(mk[3]), "outs": int(mk[4]), "rule": mk[7] if mk[1] == "localp" else "", "order": int(mk[6]) if mk[1] in ("localp", "wavelet") else 0}
    else:
        for cid, spec, ls in corpus:
            specs[cid], scripts[cid] = spec, ls
        for i in range(n):
            cid = "q%d" % i
            specs[cid], scripts[cid] = gen_case(r, cid, tier)
        rc_ = vlib.rng(seed, PID + "-conformal")
        for i in range({"quick": 24, "thorough": 200}[tier]):
            cid = "cf%d" % i
            specs[cid], scripts[cid] = gen_conformal_case(rc_, cid, ["sequence", "global", "localp", "wavelet"][i % 4])
    lines = [l for cid in scripts for l in scripts[cid]]
    rc, cases, so, se = gl.run_scripts(drv, lines, wd, "hist", timeout=1500, case_timeout=30)
    if rc != 0:
        res.violation("tsgdrv-crash", "tsgdrv exited with %d: %s" % (rc, se[-400:]), {"kind": "impl-counterexample", "script": lines[-40:]})
    stats = {"observations": 0, "violations": 0, "max": {}, "sparse_rows": 0, "support_checks": 0, "setcoef": 0}
    fam_count, nontrivial = {}, 0
    for cid, steps in cases.items():
        spec = specs[cid]
        fam, d, outs = spec["family"], spec["dims"], spec["outs"]
        fam_count[fam] = fam_count.get(fam, 0) + 1
        obs, nobs, pend_setcoef, removed = {}, 0, None, False
        for st in steps:
            t = st.cmd.split()
            if st.exc is not None and st.exc[0] == "hang":
                # the statement says nothing about running time or termination (that is C08's clause): the case ends here, counted
                stats["slow_calls_skipped"] = stats.get("slow_calls_skipped", 0) + 1
                break
            if st.exc is not None and (st.exc[0] == "hang" or st.exc[0].startswith("crash") or st.exc[0].startswith("other")):
                stats["violations"] += 1
                res.violation(("no-return:" if st.exc[0] == "hang" else "crash:") + t[0], "%s -> %s [%s]" % (st.cmd, st.exc, scripts[cid][1]),
                              {"kind": "impl-counterexample", "script": scripts[cid]})
                break
            if t[0] in ("remtol", "remcount") and st.exc is None:
                removed = True
                stats["removals"] = stats.get("removals", 0) + 1
            if t[0] == "probe":
                obs = {"probe": st.obs.get("probe", []), "removed": removed}
            elif t[0] == "setcoef" and st.exc is None:
                pend_setcoef = t[2]
            elif t[0] == "evalpts" and pend_setcoef is not None:
                obs_sc = dict(st.obs)
                pend = pend_setcoef
                pend_setcoef = ("eval", obs_sc, pend)
            elif t[0] in ("dump", "integ", "eval", "evalb", "hbasis", "hsparse", "hsparsenz", "weights"):
                if st.exc is None:
                    obs.update(st.obs)
            elif t[0] == "diffall":
                if st.exc is None:
                    obs.update(st.obs)
                if "meta" in obs:
                    # (8) setHierarchicalCoefficients: get returns the input; values = surrogate at the nodes (not for Global grids)
                    if isinstance(pend_setcoef, tuple) and fam not in ("global",):
                        _, sc, fnname = pend_setcoef
                        pts = obs.get("points", [])
                        npt = len(pts) // d
                        coef = obs.get("coef", [])
                        want = [gl.fn_value(fnname, pts[i * d:(i + 1) * d], k) for i in range(npt) for k in range(outs)]
                        if fam == "fourier":
                            want = want + [0.25 * v for v in want]
                        if fnname != "smooth" and len(coef) == len(want) and [v.hex() for v in coef] != [v.hex() for v in want]:
                            stats["violations"] += 1
                            res.violation("setcoef-getcoef:" + fam, "getHierarchicalCoefficients does not return what setHierarchicalCoefficients stored [%s]" % scripts[cid][1],
                                          {"kind": "impl-counterexample", "script": scripts[cid]})
                        vals = obs.get("values", [])
                        y = sc.get("evalb", [])
                        if len(y) == len(vals) and vals:
                            sc_ = max([1.0] + [abs(v) for v in vals])
                            e = max(abs(a - b) for a, b in zip(y, vals)) / sc_
                            stats["max"]["setcoef-values"] = max(stats["max"].get("setcoef-values", 0), e)
                            if e > (1e-7 if fam == "wavelet" else TOL):
                                stats["violations"] += 1
                                key = "setcoef-values:" + fam
                                ta, tb = obs.get("ta"), obs.get("tb")
                                if fam == "wavelet" and ta and len(pts) == npt * d:
                                    # which nodes fail?  (known finding shared with C01: nodes on the boundary of a transformed domain)
                                    bad = [i for i in range(npt) if max(abs(y[i * outs + k] - vals[i * outs + k]) for k in range(outs)) / sc_ > 1e-7]
                                    if bad and all(any(pts[i * d + j] in (ta[j], tb[j]) for j in range(d)) for i in bad):
                                        key = "setcoef-values-wavelet-boundary-node-under-transform"
                                res.violation(key, "after setHierarchicalCoefficients the stored values differ from the surrogate at the nodes by %.3g [%s]" % (e, scripts[cid][1]),
                                              {"kind": "impl-counterexample", "script": scripts[cid]})
                        stats["setcoef"] += 1
                    pend_setcoef = None
                    check_obs(res, cid, spec, scripts[cid], obs, stats, None)
                    nobs += 1
                obs = {}
        if nobs >= 2:
            nontrivial += 1
    # the tree walk behind evaluate / sparse basis of Local Polynomial grids: forest and visited sequences vs the extracted model (props/c04treewalk.py)
    if not replay_script:
        c04treewalk.run(res, tier, seed)
    if proof_broken and not res.violations:
        res.violation("proof", "proof obligations of Properties_C04.v no longer check (%d/%d) %s" % (props["discharged"], props["obligations"], res.coverage["forbidden_tokens"][:2]),
                      {"kind": "proof-break", "theorems": props["theorems"], "log": props["log"][-3000:]}, no_input=True)
    res.coverage["calls_not_returning_within_the_case_limit_not_judged"] = stats.get("slow_calls_skipped", 0)
    res.coverage.update({
        "evaluations": stats["observations"], "distinct_nontrivial": nontrivial,
        "rule": "case = make (random family/rule/dims/depth/order/limits/transform), load, then up to 3 of: refinement left pending / loaded / merged, "
                "setHierarchicalCoefficients, partial dynamic construction, reload; at each observation the driver picks probe points (random, nodes, node +- support) "
                "and every route of the statement is compared; non-trivial = at least 2 observations in the case",
        "samples": [scripts[c] for c in list(scripts)[1:3]],
        "programs": len(cases), "family_distribution": fam_count, "max_relative_difference_by_route": stats["max"], "tolerance": TOL,
        "sparse_rows_compared_entrywise": stats["sparse_rows"], "support_radius_checks": stats["support_checks"], "setcoef_round_trips": stats["setcoef"],
        "direct_property_violations": stats["violations"], "skipped_ill_conditioned": stats.get("skipped_ill_conditioned", 0),
    })
    res.assumptions = ["Fourier differentiation weights within 1e-2 (periodic, relative) of a node are ill-conditioned: differences up to 1e-6 there are skipped and counted",
                       "sums computed by different routes are compared relative to max(scale, sum of |terms|) with tolerance 1e-9",
                       "sparse vs dense hierarchical matrices and the support radius are compared exactly"]


def replay(path):
    import json
    rp = json.load(open(path))
    res = vlib.Result(PID, "quick", rp.get("seed", 1), LEVEL)
    if rp.get("driver") == "walkdrv":
        c04treewalk.run(res, "quick", rp.get("seed", 1), replay_script=rp.get("script"))
        return res.finish()
    run(res, "quick", rp.get("seed", 1), replay_script=rp.get("script"))
    return res.finish()
