"""C19 — GradientDescent returns its best accepted iterate within the iteration cap.

Decided by: theorems of coq/Props/Properties_C19.v about the model coq/Model/GradDesc.v (generic in the
arithmetic), tied to DREAM/Optimization/tsgGradientDescent.cpp by a bit-exact correspondence: the extracted model,
instantiated with IEEE binary64, must reproduce the implementation's callback sequence, iteration count, residual,
step size and final state on every generated case.  The statement of the property is also evaluated directly on
the implementation's observations (this is the failing-input search)."""
import math
import os

import vlib

LEVEL = "proof"
PID = "C19"

TRUSTED = [
    "Coq 8.16.1 kernel (vm_compute used in one Example; no native_compute)",
    "axioms: none (Print Assumptions: Closed under the global context for all 9 theorems)",
    "extraction: ExtrOcamlBasic only (bool, option, list, prod, unit, sumbool -> OCaml); nat/Z/positive stay Coq datatypes",
    "OCaml glue ocaml/gd_main.ml + common.ml: instantiates the number type with OCaml floats (IEEE binary64: +. -. *. /. sqrt >), "
    "callbacks = finite tables recorded by the C++ driver",
    "C++ driver harness/optdrv.cpp, g++ -O1 -ffp-contract=off (no FMA contraction), libm sqrt correctly rounded",
    "modelled, not verified: GradientDescent() adaptive/projected and constant-step variants; the C wrapper is not modelled",
]

OBJ = ["quad", "quartic", "rosen", "trig", "badgrad"]


def gen_problem(r, idx):
    d = r.choice([1, 2, 2, 3, 4])
    kind = r.choice(OBJ)
    if kind in ("quad", "badgrad"):
        coef = [r.choice([0.5, 1.0, 2.0, 25.0, 100.0, 0.01]) for _ in range(d)] + \
               [r.choice([0.0, 1.0, -2.0, 0.5]) for _ in range(d)] + [r.choice([0.0, 0.5, -1.0])]
    elif kind == "quartic":
        coef = [r.choice([-1.0, -0.5, 1.0, 2.0]) for _ in range(d)] + [r.choice([0.0, 0.25, -0.5]) for _ in range(d)] + [r.choice([0.25, 1.0])]
    elif kind == "rosen":
        coef = [r.choice([1.0, 10.0, 100.0])]
    else:
        coef = [r.uniform(-2, 2) for _ in range(d)] + [r.uniform(0.5, 3) for _ in range(d)]
    proj = r.choice(["none", "none", "box", "ball"])
    inside_start = True
    if proj == "box":
        lo, hi = r.choice([(-1.0, 1.0), (0.0, 2.0), (-0.5, 0.25)])
        pa = [lo, hi]
        x = [r.uniform(lo, hi) for _ in range(d)]
        if r.random() < 0.2:
            x = [hi + 1.0 for _ in range(d)]
            inside_start = False
    elif proj == "ball":
        rad = r.choice([0.5, 1.0, 2.0])
        pa = [rad]
        x = [r.uniform(-rad, rad) / math.sqrt(d) for _ in range(d)]
        if r.random() < 0.2:
            x = [rad * 2 for _ in range(d)]
            inside_start = False
    else:
        pa = []
        x = [r.choice([1.0, -1.0, 0.5, 2.0, r.uniform(-2, 2)]) for _ in range(d)]
    inc = r.choice([1.25, 2.0, 4.0, 1.0, 8.0])
    dec = r.choice([1.5, 2.0, 1.25, 4.0])
    tol = r.choice([1e-6, 1e-3, 0.0, 1e-9, 0.5])
    step0 = r.choice([0.01, 0.1, 1.0, 10.0, 1e-4])
    return {"kind": "gd", "d": d, "obj": kind, "coef": coef, "proj": proj, "pa": pa, "x": x, "inc": inc, "dec": dec,
            "tol": tol, "step0": step0, "inside_start": inside_start, "idx": idx}


def gen_const(r, idx):
    d = r.choice([1, 2, 3])
    kind = r.choice(["quad", "quartic", "trig"])
    if kind == "quad":
        coef = [r.choice([0.5, 1.0, 2.0, 4.0]) for _ in range(d)] + [r.choice([0.0, 1.0, -2.0]) for _ in range(d)] + [r.choice([0.0, 0.5])]
    elif kind == "quartic":
        coef = [r.choice([-1.0, 1.0]) for _ in range(d)] + [0.0] * d + [0.25]
    else:
        coef = [r.uniform(-2, 2) for _ in range(d)] + [r.uniform(0.5, 3) for _ in range(d)]
    return {"kind": "gdc", "d": d, "obj": kind, "coef": coef, "x": [r.uniform(-2, 2) for _ in range(d)],
            "tol": r.choice([1e-1, 1e-3, 1e-6, 0.0, 2.0]), "step": r.choice([0.1, 0.01, 0.25, 0.5]), "idx": idx}


WITNESS = {"kind": "gd", "d": 2, "obj": "quad", "coef": [25.0, 0.5, 0.0, 0.0, 0.0], "proj": "none", "pa": [], "x": [1.0, 1.0],
           "inc": 4.0, "dec": 1.5, "tol": 1e-6, "step0": 0.01, "inside_start": True, "idx": "witnessF6"}


# extremely stiff problems: the backtracking drives the adaptive step size down to 1e-13 and below (anything that is keyed to a small step
# size, e.g. the numerical tolerance of the step-size test, only shows here); run with a long ladder of caps
STIFF = [
    {"kind": "gd", "d": 2, "obj": "quad", "coef": [0.5, 5e13, 0.0, 0.0, 0.0], "proj": "none", "pa": [], "x": [1.0, 1.0],
     "inc": 1.25, "dec": 2.0, "tol": 1e-6, "step0": 1.0, "inside_start": True, "idx": "stiffA", "caps": [0, 1, 10, 39, 40, 41, 46, 50, 60, 80, 120]},
    {"kind": "gd", "d": 2, "obj": "quad", "coef": [1.0, 1e12, 0.0, 0.0, 0.0], "proj": "ball", "pa": [2.0], "x": [1.0, 0.5],
     "inc": 2.0, "dec": 4.0, "tol": 0.0, "step0": 0.1, "inside_start": True, "idx": "stiffB", "caps": [0, 5, 15, 19, 20, 21, 25, 40, 80]},
]

# exact ties of the constant-step stopping test (residual == tolerance) and exactly reached stationary points (tolerance 0)
TIES = [
    {"kind": "gdc", "d": 1, "obj": "quad", "coef": [1.0, 0.0, 0.0], "x": [1.0], "tol": 0.0, "step": 0.5, "idx": "tieA"},     # x -> 0 exactly, residual 0 == tol 0
    {"kind": "gdc", "d": 1, "obj": "quad", "coef": [1.0, 0.0, 0.0], "x": [1.0], "tol": 1.0, "step": 0.25, "idx": "tieB"},    # gradient norm 1.0 == tol after one step
    {"kind": "gdc", "d": 2, "obj": "quad", "coef": [1.0, 1.0, 0.0, 0.0, 0.0], "x": [3.0, 4.0], "tol": 5.0, "step": 0.25, "idx": "tieC"},  # |(3,4)| = 5 exactly
    {"kind": "gdc", "d": 2, "obj": "quad", "coef": [0.5, 0.5, 0.0, 0.0, 0.0], "x": [3.0, 4.0], "tol": 0.0, "step": 1.0, "idx": "tieD"},   # stationary after one step
    {"kind": "gdc", "d": 1, "obj": "quad", "coef": [2.0, 0.0, 0.0], "x": [0.5], "tol": 0.5, "step": 0.125, "idx": "tieE"},
]


def case_line(p, cap):
    h = vlib.hexf
    if p["kind"] == "gd":
        pr = p["proj"] + ("" if not p["pa"] else " " + " ".join(h(v) for v in p["pa"]))
        return "gd %d %s %s %d %s %s %s %s x: %s coef: %s" % (
            p["d"], p["obj"], pr, cap, h(p["inc"]), h(p["dec"]), h(p["tol"]), h(p["step0"]),
            " ".join(h(v) for v in p["x"]), " ".join(h(v) for v in p["coef"]))
    return "gdc %d %s %d %s %s x: %s coef: %s" % (
        p["d"], p["obj"], cap, h(p["tol"]), h(p["step"]), " ".join(h(v) for v in p["x"]), " ".join(h(v) for v in p["coef"]))


def parse_impl(text):
    """-> dict id -> dict(log=[(kind,arg,res)], result=dict or None, exception=str)"""
    out, cur = {}, None
    for line in text.split("\n"):
        t = line.split()
        if not t:
            continue
        if t[0] == "case":
            cur = {"log": [], "result": None, "exception": None}
            out[t[1]] = cur
        elif t[0] in ("F", "G", "P") and cur is not None:
            k = t.index("=")
            cur["log"].append((t[0], [float.fromhex(v) if v not in ("inf", "-inf", "nan", "-nan") else float(v) for v in t[1:k]],
                               [float.fromhex(v) if v not in ("inf", "-inf", "nan", "-nan") else float(v) for v in t[k + 1:]]))
        elif t[0] == "result" and cur is not None:
            fl = lambda v: float(v) if v in ("inf", "-inf", "nan", "-nan") else float.fromhex(v)
            cur["result"] = {"iters": int(t[2]), "resid": fl(t[4]), "step": fl(t[6]), "x": [fl(v) for v in t[8:]]}
        elif t[0] == "exception" and cur is not None:
            cur["exception"] = " ".join(t[1:])
    return out


def direct_checks(res, problems, caps_of, impl):
    """Evaluate the statement of C19 on the implementation's observations."""
    nviol = 0
    for p in problems:
        pid = str(p["idx"])
        fvals = {}
        for cap in caps_of[pid]:
            cid = "%s.%d" % (pid, cap)
            c = impl.get(cid)
            replay = {"kind": "impl-counterexample", "case": case_line(p, cap), "problem": p}
            if c is None or c["result"] is None:
                res.violation("no-result", "GradientDescent produced no result for %s (%s)" % (cid, c and c["exception"]), replay)
                nviol += 1
                continue
            r = c["result"]
            capn = max(cap, 0)
            if r["iters"] > capn:
                res.violation("cap-exceeded", "performed_iterations=%d > max_iterations=%d" % (r["iters"], cap), replay)
                nviol += 1
            if p["kind"] == "gd":
                nf = sum(1 for k, _, _ in c["log"] if k == "F")
                if nf > capn + 1:
                    res.violation("objective-calls", "%d objective evaluations with cap %d" % (nf, cap), replay)
                    nviol += 1
                gargs = [a for k, a, _ in c["log"] if k == "G"]
                # the state must be the last point that passed the descent test = the point of the last gradient call
                if gargs and [x.hex() for x in gargs[-1]] != [x.hex() for x in r["x"]]:
                    replay2 = dict(replay, observed_state=r["x"], last_accepted=gargs[-1])
                    res.violation("state-not-last-accepted",
                                  "returned state %s is not the last iterate that passed the descent test %s (cap %d)"
                                  % (r["x"], gargs[-1], cap), replay2)
                    nviol += 1
                # origin: start or a value returned by the projection (an objective argument when there is no projection)
                srcs = [p["x"]] + [rr for k, _, rr in c["log"] if k == "P"] + [a for k, a, _ in c["log"] if k == "F"]
                if not any([x.hex() for x in s] == [x.hex() for x in r["x"]] for s in srcs):
                    res.violation("state-origin", "returned state is neither the start nor a projected point", replay)
                    nviol += 1
                ftab = {tuple(x.hex() for x in a): v[0] for k, a, v in c["log"] if k == "F"}
                fx = ftab.get(tuple(x.hex() for x in r["x"]))
                if fx is not None:
                    fvals[cap] = fx
            else:
                # constant step: residual sequence from the logged gradients
                gl = [g for k, _, g in c["log"] if k == "G"]
                resids = [p["tol"] + 1.0]
                for g in gl[1:]:
                    acc = 0.0
                    for v in g:
                        acc += v * v
                    resids.append(math.sqrt(acc))
                exp = capn
                for t, rv in enumerate(resids):
                    if not (rv > p["tol"]):
                        exp = t
                        break
                if r["iters"] != min(exp, capn):
                    res.violation("const-step-count", "constant-step variant performed %d steps, expected min(cap=%d, first step reaching tol=%d)"
                                  % (r["iters"], cap, exp), replay)
                    nviol += 1
        # not worse than the start, monotone in the cap (only where the projection hypothesis holds: start inside the set)
        if p["kind"] == "gd" and p.get("inside_start", True):
            caps = sorted(fvals)
            f0 = fvals.get(0) if 0 in fvals else None
            for i, c1 in enumerate(caps):
                for c2 in caps[i + 1:]:
                    slack = (c2 - c1) * 1e-12 + 1e-9 * max(1.0, abs(fvals[c1]))
                    if fvals[c2] > fvals[c1] + slack:
                        replay = {"kind": "impl-counterexample", "case": case_line(p, c1), "case2": case_line(p, c2), "problem": p,
                                  "f_cap1": fvals[c1], "f_cap2": fvals[c2]}
                        res.violation("not-monotone-in-cap", "cap %d returns f=%r but the larger cap %d returns f=%r"
                                      % (c1, fvals[c1], c2, fvals[c2]), replay)
                        nviol += 1
                        break
                else:
                    continue
                break
    return nviol


def run(res, tier, seed, replay_problem=None):
    props = vlib.coq_props(PID)
    vlib.proof_coverage(res, PID, props, "cd coq && make Props/Properties_C19.vo && coqc -Q . TV Props/Properties_C19.v", TRUSTED)
    ok_ext, elog = vlib.coq_make(["Extract/ExtractGD.vo"])
    proof_broken = not props["ok"] or res.coverage["forbidden_tokens"]
    runner = vlib.ocaml_runner("gd") if ok_ext else None
    drv = vlib.build_driver("optdrv")

    r = vlib.rng(seed, PID)
    nprob = {"quick": 60, "thorough": 1500}[tier]
    ncon = {"quick": 20, "thorough": 300}[tier]
    kmax = {"quick": 10, "thorough": 40}[tier]
    if proof_broken:
        nprob *= 3
    problems = [dict(WITNESS)] + [dict(t) for t in STIFF] + [dict(t) for t in TIES]
    if replay_problem is not None:
        problems = [replay_problem]
        nprob = ncon = 0
    for i in range(nprob):
        problems.append(gen_problem(r, i))
    for i in range(ncon):
        problems.append(gen_const(r, "c%d" % i))
    caps_of, lines = {}, []
    for p in problems:
        pid = str(p["idx"])
        caps = list(range(0, kmax + 1)) + [-1] if p["kind"] == "gd" else sorted(set([0, 1, 2, 3, 5, 8, kmax, 4 * kmax, -2]))
        if tier == "quick" and p["kind"] == "gd" and pid != "witnessF6":
            caps = sorted(set([-1, 0, 1, 2, 3, 4, 6, kmax]))
        if p.get("caps"):
            caps = list(p["caps"])
        caps_of[pid] = caps
        for cap in caps:
            lines.append("case %s.%d" % (pid, cap))
            lines.append(case_line(p, cap))
    wd = os.path.join(vlib.BUILD, "work", PID)
    os.makedirs(wd, exist_ok=True)
    cf_ = os.path.join(wd, "cases.txt")
    open(cf_, "w").write("\n".join(lines) + "\n")
    rc, so, se = vlib.run([drv, cf_], timeout=1200)
    open(os.path.join(wd, "impl.out"), "w").write(so)
    impl = parse_impl(so)
    if rc != 0:
        res.violation("driver-crash", "optdrv exited with %d: %s" % (rc, se[-500:]), {"kind": "impl-counterexample", "cases": cf_})

    # correspondence
    mism, okc, stats = [], 0, {"early": 0, "accepted_total": 0}
    if runner:
        rc2, mo, me = vlib.run([runner, os.path.join(wd, "impl.out")], timeout=1200)
        for line in mo.split("\n"):
            t = line.split()
            if not t:
                continue
            if t[0] == "ok":
                okc += 1
                kv = dict(x.split("=") for x in t[2:])
                stats["early"] += kv.get("early") == "true"
                stats["accepted_total"] += int(kv.get("accepted", 0))
            elif t[0] == "MISMATCH":
                mism.append(line)
        if rc2 != 0:
            mism.append("runner exit %d %s" % (rc2, me[-300:]))

    nviol = direct_checks(res, problems, caps_of, impl)

    if mism and not res.violations:
        # correspondence broke but the property itself was not seen to fail
        res.violation("correspondence", "model and implementation disagree on %d cases, e.g. %s" % (len(mism), mism[0][:300]),
                      {"kind": "correspondence-break", "correspondence": "Model.GradDesc.run/run_const vs GradientDescent()",
                       "examples": mism[:10], "cases": cf_}, no_input=True)
    if proof_broken and not res.violations:
        res.violation("proof", "proof obligations of Properties_C19.v no longer check (%d/%d) %s" %
                      (props["discharged"], props["obligations"], res.coverage["forbidden_tokens"][:2]),
                      {"kind": "proof-break", "theorems": props["theorems"], "log": props["log"][-3000:]}, no_input=True)
    if not ok_ext and not res.violations:
        res.violation("extraction", "extraction of the model failed", {"kind": "proof-break", "log": elog[-2000:]}, no_input=True)

    ncases = len(lines) // 2
    nontriv = sum(1 for cid, c in impl.items() if c["result"] and c["result"]["iters"] >= 2)
    dist = {}
    for p in problems:
        k = "%s/%s/d%d" % (p["obj"], p.get("proj", "const"), p["d"])
        dist[k] = dist.get(k, 0) + 1
    res.coverage.update({
        "evaluations": ncases, "distinct_nontrivial": nontriv,
        "rule": "problems = (objective family, coefficients, projection none/box/ball, start, inc, dec, tol, step) from VERIF_SEED; "
                "each problem is run with a ladder of iteration caps (-1,0,1,...); non-trivial = at least 2 performed iterations; "
                "cases are distinct by (problem, cap)",
        "samples": lines[1:8:2],
        "programs": len(problems), "traces_validated_against_impl": okc, "disagreements_checked": len(mism),
        "correspondence": {"cases_agreeing_bit_exact": okc, "mismatches": len(mism), "early_returns_in_line_search": stats["early"],
                           "accepted_iterates_total": stats["accepted_total"]},
        "input_distribution": dist, "direct_property_violations": nviol,
    })
    res.assumptions = [
        "order theorems (not worse than start, monotone in cap) are over exact rationals and need the projection's variational inequality; "
        "in binary64 they are checked on the implementation with slack 1e-9*max(1,|f|) and only for starts inside the convex set",
        "callbacks write every entry of their output vector",
    ]


def replay(path):
    import json
    rp = json.load(open(path))
    res = vlib.Result(PID, "quick", rp.get("seed", 1), LEVEL)
    if "problem" in rp:
        run(res, "quick", rp.get("seed", 1), replay_problem=rp["problem"])
    else:
        run(res, "quick", rp.get("seed", 1))
    return res.finish()
