"""C07, selection part for ALL FIVE refinement criteria of Local Polynomial grids (classic, parents_first,
direction_selective, fds, stable).

Theorems: coq/Props/Properties_C07_strategies.v about the model coq/Model/SelectionAll.v (`candidates`).
Tie: harness/seldrv.cpp dumps the loaded multi-indexes, the update map of the private buildUpdateMap<rule>(tol, criteria,
output, scale) (white-box), the effective level limits and the needed set after setSurplusRefinement; the extracted model
(ocaml/selall_main.ml) recomputes the needed set from points + map + limits and must agree EXACTLY.
Direct evaluation on the implementation: needed/loaded disjoint and duplicate free, tolerance 0 flags everything, nothing
flagged => nothing proposed, documented meaning of the map for the isotropic criteria (row all ones iff
max_k c_k |s_k| / norm_k > tol, recomputed in binary64, ratios within 1e-12 of the tolerance skipped), a flagged direction
of the anisotropic criteria needs a large isotropic coefficient.

Used by props/C07.py through run(res, tier, seed); stand-alone:  python3 props/c07strategies.py quick 1"""
import json
import os
import re
import sys
import time

sys.path.insert(0, os.path.join(os.path.dirname(os.path.dirname(os.path.abspath(__file__))), "tools"))
import gridlib as gl  # noqa: E402
import vlib  # noqa: E402

PID = "C07"
SUB = "C07_strategies"
CRITS = ["classic", "parents", "direction", "fds", "stable"]
ERULE = {0: "pwc", 1: "localp", 2: "semilocalp", 3: "localp0", 4: "localpb"}
ISOTROPIC = ("classic", "parents")
KINDS = [("localp", None), ("semi-localp", None), ("localp-zero", None), ("localp-boundary", None), ("localp", 0)]
FNS = ["hash", "smooth", "peak", "poly"]

TRUSTED = [
    "Coq 8.16.1 kernel (vm_compute in Examples and in the refuted-variant witness)",
    "extraction: ExtrOcamlBasic only; OCaml glue ocaml/selall_main.ml; C++ driver harness/seldrv.cpp (white-box, read-only: points, needed, "
    "private template buildUpdateMap)",
    "modelled, not verified: getRefinementCanidates (serial branch), addParent/addChild/addChildLimited, completeToLower, the sorting constructor; "
    "the update map itself is taken from the implementation (its arithmetic is only checked for the isotropic criteria)",
]


def doc_says_stable_isotropic():
    """the one-line description of refine_stable in SparseGrids/tsgEnumerates.hpp"""
    try:
        t = vlib.repo_file("SparseGrids/tsgEnumerates.hpp")
    except OSError:
        return None
    m = re.search(r"//!\s*\\brief\s*([^\n]*)\n\s*refine_stable\s*,", t)
    if not m:
        return None
    return "isotropic" in m.group(1).lower() and "anisotropic" not in m.group(1).lower()


# ------------------------------------------------------------------------------------------------ case generation
def rand_ll(r, d):
    return [r.choice([-1, -1, 0, 1, 2, 3]) for _ in range(d)]


def tail(r, d, outs, p_ll, p_scale):
    out = r.choice([-1] + list(range(outs)))
    s = " %d" % out
    if r.random() < p_ll:
        s += gl.kv("ll:", rand_ll(r, d))
    if r.random() < p_scale:
        s += " scale: " + r.choice(["ones", "half", "rand", "rand"])
    return s


def sel_tol(r):
    k = r.random()
    if k < 0.25:
        return "0"
    if k < 0.55:
        return "q0.5"
    if k < 0.8:
        return "q%.2f" % r.uniform(0.05, 0.95)
    if k < 0.9:
        return "e%.2f" % r.uniform(0.2, 0.8)
    return vlib.hexf(r.choice([1e-3, 1e-2, 1e-1, 1.0]))


def gen_case(r, cid, tier):
    d = r.choice([1, 2, 2, 3, 3, 4])
    rule, order = r.choice(KINDS)
    if order is None:
        order = r.choice([2, 3, -1]) if rule == "semi-localp" else r.choice([1, 1, 2, 3, -1])
        cap = {1: 7, 2: 5, 3: 4, 4: 3}[d]
        if rule == "localp-zero":
            cap = {1: 6, 2: 4, 3: 3, 4: 2}[d]
    else:
        cap = {1: 4, 2: 3, 3: 2, 4: 1}[d]
    depth = r.randint(1, cap)
    outs = r.choice([1, 1, 2, 3])
    lines = ["case " + cid, "cap %d" % (700 if tier == "quick" else 1500),
             "make %d %d %d %d %s%s" % (d, outs, depth, order, rule, gl.kv("ll:", rand_ll(r, d)) if r.random() < 0.08 else ""),
             "load " + r.choice(FNS)]
    for _ in range(r.randint(0, 4)):
        if r.random() < 0.75:
            lo = {1: 0.2, 2: 0.35, 3: 0.5, 4: 0.6}[d]
            lines.append("ref q%.2f %s%s" % (r.uniform(lo, 0.97), r.choice(CRITS), tail(r, d, outs, 0.08, 0.2)))
            lines.append("load " + r.choice(FNS))
        else:
            lines.append("rem %.2f" % r.uniform(0.4, 0.9))
    for crit in r.sample(CRITS, r.randint(2, 4)):
        lines.append("sel %s %s%s" % (sel_tol(r), crit, tail(r, d, outs, 0.2, 0.3)))
    return lines


def matrix_cases():
    """every rule x every criterion x {tolerance 0, median}, after one parents-free refinement round and a removal (so that the
    loaded set has holes), with and without limits: always exercised, whatever the seed"""
    out = []
    i = 0
    for rule, order in KINDS:
        for d in (1, 2):
            o = 0 if order == 0 else (2 if rule == "semi-localp" else 1)
            depth = (2 if d == 1 else 1) if order == 0 else (3 if d == 1 else 2)
            cid = "mx%d" % i
            i += 1
            ls = ["case " + cid, "make %d 2 %d %d %s" % (d, depth, o, rule), "load peak", "ref q0.6 direction -1", "load peak", "rem 0.7"]
            for crit in CRITS:
                ls.append("sel 0 %s -1" % crit)
                ls.append("sel q0.5 %s 0 ll: %s" % (crit, " ".join(["2"] * d)))
                ls.append("sel q0.3 %s 1 ll: %s scale: rand" % (crit, " ".join(["-1"] + ["1"] * (d - 1))))
            out.append(ls)
    return out


# ------------------------------------------------------------------------------------------------ evaluation
def scale_value(sc, j):
    if sc in ("none", "ones"):
        return 1.0
    if sc == "half":
        return 0.5
    return float(gl.mix(j + 17) % 1000) / 500.0


def check_sel(res, st, cid, script, stats, sa_lines, sa_info, isotropic_doc):
    """direct evaluation of the property on one `sel` observation; emits the line for the model runner"""
    t = st.cmd.split()
    crit = t[2]
    out = int(t[3])
    sc = t[t.index("scale:") + 1] if "scale:" in t else "none"
    m = st.obs["meta"]
    d, outs, n = int(m["dims"]), int(m["outs"]), int(m["loaded"])
    rule = ERULE[int(m["erule"])]
    tol = st.obs["tol"][0]
    pidx, nidx = st.obs.get("pidx", []), st.obs.get("nidx", [])
    pmap = [int(v) for v in st.obs.get("pmap", [])]
    limits = st.obs.get("limits", [])
    replay = {"kind": "impl-counterexample", "driver": "seldrv", "script": script, "step": st.cmd}

    def viol(key, what):
        stats["violations"] += 1
        if key in stats["keys"]:      # one replay per key
            return
        stats["keys"].add(key)
        res.violation(key, "%s [case %s: %s ; %s]" % (what, cid, script[1] if script[1].startswith("make") else script[2], st.cmd), dict(replay, detail=what))

    prow = [tuple(pidx[i * d:(i + 1) * d]) for i in range(n)]
    nrow = [tuple(nidx[i * d:(i + 1) * d]) for i in range(len(nidx) // d)]
    rows = [pmap[i * d:(i + 1) * d] for i in range(n)]
    stats["sel"] += 1
    stats["by_crit"][crit] = stats["by_crit"].get(crit, 0) + 1
    stats["by_rule"][rule] = stats["by_rule"].get(rule, 0) + 1
    stats["by_dim"][d] = stats["by_dim"].get(d, 0) + 1
    if limits and any(v != -1 for v in limits):
        stats["with_limits"] += 1
    if sc != "none":
        stats["with_scale"] += 1
    if nrow:
        stats["nonempty"] += 1
    if len(pmap) != n * d:
        viol("update-map-size", "buildUpdateMap returned %d entries for %d points x %d dimensions" % (len(pmap), n, d))
        return
    if len(set(nrow)) != len(nrow) or nrow != sorted(nrow):
        viol("needed-not-a-sorted-set:" + crit, "needed set is not strictly sorted")
    if set(nrow) & set(prow):
        viol("strategy-proposes-loaded-point:" + crit, "needed and loaded sets overlap: %s" % sorted(set(nrow) & set(prow))[:3])
    if tol == 0.0 and not all(v == 1 for v in pmap):
        viol("update-map-not-all-ones-at-tolerance-0:" + crit, "tolerance 0 must flag every direction of every point")
    if not any(pmap) and nrow:
        viol("proposes-without-flag:" + crit, "no direction of any point is flagged but %d points are proposed" % len(nrow))
    # -- documented meaning of the map (binary64 recomputation)
    if tol != 0.0:
        vals, coef = st.obs.get("values", []), st.obs.get("coef", [])
        act = outs if out == -1 else 1
        norm = [max([abs(vals[i * outs + k]) for i in range(n)] + [0.0]) for k in range(outs)]
        mixed, stable_bad = 0, []
        for i in range(n):
            big, border = False, False
            for kk, k in enumerate(range(outs) if out == -1 else [out]):
                if norm[k] == 0.0:
                    border = True
                    continue
                ratio = scale_value(sc, i * act + kk) * abs(coef[i * outs + k]) / norm[k]
                if ratio != ratio or abs(ratio - tol) <= 1e-12 * max(1.0, tol):
                    border = True
                elif ratio > tol:
                    big = True
            uniform = all(v == rows[i][0] for v in rows[i])
            if not uniform:
                mixed += 1
            if border:
                stats["map_points_skipped_borderline"] += 1
                continue
            stats["map_points_checked"] += 1
            if crit in ISOTROPIC:
                if not uniform or (rows[i][0] == 1) != big:
                    viol("update-map-differs-from-documented-flags:" + crit,
                         "point %s: map row %s, but max_k c_k|s_k|/norm_k %s tolerance %s" % (prow[i], rows[i], ">" if big else "<=", tol.hex()))
                    break
            elif any(rows[i]) and not big:
                viol("direction-flagged-with-small-coefficient:" + crit,
                     "point %s: map row %s although every scaled coefficient is <= tolerance %s" % (prow[i], rows[i], tol.hex()))
                break
            elif crit == "stable" and isotropic_doc and (not uniform or (rows[i][0] == 1) != big):
                stable_bad.append((prow[i], rows[i], big))
        if crit == "stable" and mixed:
            stats["stable_mixed_rows"] += 1
        if stable_bad:
            # documented: "isotropic" (enum comment and the Refinement Types paragraph of tsgEnumerates.hpp); the code sends refine_stable
            # through the one-directional surplus branch of buildUpdateMap, like direction_selective
            viol("stable-map-anisotropic:localp",
                 "refine_stable is documented as isotropic (tsgEnumerates.hpp) but buildUpdateMap uses the direction-selective indicator: %d of %d "
                 "points have a map row that is not (all ones iff scaled coefficient > tolerance), e.g. point %s row %s coefficient %s tolerance %s"
                 % (len(stable_bad), n, stable_bad[0][0], stable_bad[0][1], ">" if stable_bad[0][2] else "<=", tol.hex()))
    up = 1 if crit in ("parents", "fds") else 0
    stb = 1 if crit == "stable" else 0
    sid = "%s#%d" % (cid, len([1 for k in sa_info if k.startswith(cid + "#")]))
    sa_info[sid] = (cid, crit, st.cmd)
    sa_lines.append("sa %s %s %d %d %d limits: %s pidx: %s pmap: %s nidx: %s" % (
        sid, rule, d, up, stb, " ".join(map(str, limits)), " ".join(map(str, pidx)), " ".join(map(str, pmap)), " ".join(map(str, nidx))))


def run(res, tier, seed, replay_script=None):
    t0 = time.time()
    cov = {}
    res.coverage["strategies"] = cov
    props = vlib.coq_props(SUB)
    bad_axioms = {k: v for k, v in props["assumptions"].items() if not v.startswith("Closed under the global context")}
    cov.update({"props_file": "coq/Props/Properties_C07_strategies.v", "obligations": props["obligations"], "discharged": props["discharged"],
                "theorems": props["theorems"], "print_assumptions": props["assumptions"], "trusted_base": TRUSTED})
    proof_broken = (not props["ok"]) or bool(bad_axioms) or len(props["assumptions"]) != props["obligations"]
    ok_ext, elog = vlib.coq_make(["Extract/ExtractSelAll.vo"])
    runner = vlib.ocaml_runner("selall") if ok_ext else None
    drv, derr = vlib.try_build_driver("seldrv")
    wd = os.path.join(vlib.BUILD, "work", "C07s")
    os.makedirs(wd, exist_ok=True)
    r = vlib.rng(seed, SUB)
    nv0 = len(res.violations)

    scripts = {}
    if replay_script:
        cid = replay_script[0].split()[1] if replay_script and replay_script[0].startswith("case ") else "replay"
        scripts[cid] = list(replay_script) if replay_script[0].startswith("case ") else ["case replay"] + list(replay_script)
    else:
        # corpus first: witnesses of confirmed findings / regression inputs (corpus/C07/*.json written for the seldrv driver)
        cdir = os.path.join(vlib.ROOT, "corpus", "C07")
        for f in sorted(os.listdir(cdir)) if os.path.isdir(cdir) else []:
            try:
                w = json.load(open(os.path.join(cdir, f)))
            except (OSError, ValueError):
                continue
            if isinstance(w, dict) and w.get("driver") == "seldrv" and w.get("script"):
                cid = "corpus_" + re.sub(r"[^A-Za-z0-9]", "_", f[:-5])
                scripts[cid] = ["case " + cid] + [l for l in w["script"] if not l.startswith("case ")]
        for ls in matrix_cases():
            scripts[ls[0].split()[1]] = ls
        for i in range({"quick": 1000, "thorough": 12000}[tier] * (2 if proof_broken else 1)):
            cid = "s%d" % i
            scripts[cid] = gen_case(r, cid, tier)
    lines = [l for ls in scripts.values() for l in ls]
    stats = {"sel": 0, "violations": 0, "keys": set(), "by_crit": {}, "by_rule": {}, "by_dim": {}, "with_limits": 0, "with_scale": 0, "nonempty": 0,
             "map_points_checked": 0, "map_points_skipped_borderline": 0, "stable_mixed_rows": 0, "skipped_too_large": 0, "skipped_timeout": 0,
             "incomplete_loaded_sets": 0}
    mism, agree, exhausted = [], 0, 0
    sa_lines, sa_info = [], {}
    if drv is None:
        res.violation("correspondence", "white-box driver seldrv no longer compiles/links against the source: " + derr[-600:],
                      {"kind": "correspondence-break", "correspondence": "seldrv (buildUpdateMap, points, needed)"}, no_input=True)
        cases = {}
    else:
        rc, cases, so, se = gl.run_scripts(drv, lines, wd, "sel", timeout=1500, case_timeout=20)
        if rc != 0:
            res.violation("seldrv-crash", "seldrv exited with %d: %s" % (rc, se[-400:]), {"kind": "impl-counterexample", "driver": "seldrv", "script": lines[-40:]})
    isotropic_doc = doc_says_stable_isotropic()
    for cid, steps in cases.items():
        script = scripts.get(cid, [])
        bad = [s for s in steps if s.exc is not None]
        if bad:
            e = bad[0].exc
            if e[0] == "driver" and "too-large" in e[1]:
                stats["skipped_too_large"] += 1
            elif e[0] == "hang":
                stats["skipped_timeout"] += 1
            else:
                stats["violations"] += 1
                res.violation(("crash:" if e[0].startswith("crash") else "unexpected-exception:") + bad[0].cmd.split()[0] + ":localp",
                              "%s raised %s [case %s]" % (bad[0].cmd, e, cid), {"kind": "impl-counterexample", "driver": "seldrv", "script": script})
        for st in steps:
            if st.cmd.startswith("sel ") and st.exc is None and "nidx" in st.obs and "pmap" in st.obs:
                check_sel(res, st, cid, script, stats, sa_lines, sa_info, isotropic_doc)
    saf = os.path.join(wd, "sa.txt")
    with open(saf, "w") as fh:
        fh.write("\n".join(sa_lines) + "\n")
    if runner and sa_lines:
        rc3, mo, me = vlib.run([runner, saf], timeout=1500)
        with open(os.path.join(wd, "sa.out"), "w") as fh:
            fh.write(mo)
        for line in mo.split("\n"):
            if line.startswith("MISMATCH"):
                mism.append(line)
            elif line.startswith("EXHAUSTED"):
                exhausted += 1
                mism.append(line)
            elif line.startswith("agree"):
                agree += int(line.split()[1])
            elif line.startswith("ok ") and line.endswith("holes=1"):
                stats["incomplete_loaded_sets"] += 1
                c = sa_info.get(line.split()[1], ("", "?", ""))[1]
                stats.setdefault("incomplete_by_crit", {})[c] = stats.setdefault("incomplete_by_crit", {}).get(c, 0) + 1
        if rc3 != 0:
            mism.append("MISMATCH - runner-failed " + me[-300:])
    # a selection mismatch IS a failure of the property (the map is the implementation's own): concrete replay = the case script
    seen = set()
    for mline in mism:
        t = mline.split()
        sid = t[1] if len(t) > 1 else "-"
        cid, crit, cmd = sa_info.get(sid, ("-", "unknown", ""))
        if "strategy-selection" in mline:
            key = "strategy-selection-differs:" + crit
            if key in seen:
                continue
            seen.add(key)
            res.violation(key, "criterion %s does not propose exactly the points its selection rule defines: %s [%s]" % (crit, mline[:400], cmd),
                          {"kind": "impl-counterexample", "driver": "seldrv", "script": scripts.get(cid, []), "step": cmd, "detail": mline[:2000]})
        elif "correspondence" not in seen:
            seen.add("correspondence")
            res.violation("correspondence", "selection model could not be evaluated: " + mline[:300],
                          {"kind": "correspondence-break", "correspondence": "SelectionAll model vs seldrv", "examples": mism[:5],
                           "script": scripts.get(cid, [])}, no_input=True)
    if proof_broken and len(res.violations) == nv0:
        res.violation("proof-strategies", "proof obligations of Properties_C07_strategies.v no longer check (%d/%d) %s" %
                      (props["discharged"], props["obligations"], list(bad_axioms)[:2]),
                      {"kind": "proof-break", "theorems": props["theorems"], "log": props["log"][-3000:]}, no_input=True)
    if not ok_ext and len(res.violations) == nv0:
        res.violation("extraction-strategies", "extraction of the selection model failed", {"kind": "proof-break", "log": elog[-2000:]}, no_input=True)
    cov.update({
        "cases": len(cases), "selections_compared": len(sa_lines), "selections_agree_exactly": agree, "disagreements": len(mism),
        "completeToLower_fuel_exhausted": exhausted, "nonempty_proposals": stats["nonempty"],
        "loaded_sets_with_missing_parents": stats["incomplete_loaded_sets"], "loaded_sets_with_missing_parents_by_criterion": stats.get("incomplete_by_crit", {}),
        "by_criterion": stats["by_crit"], "by_rule": stats["by_rule"], "by_dimension": stats["by_dim"],
        "with_level_limits": stats["with_limits"], "with_scale_correction": stats["with_scale"],
        "update_map_points_checked": stats["map_points_checked"], "update_map_points_skipped_borderline": stats["map_points_skipped_borderline"],
        "stable_selections_with_direction_dependent_rows": stats["stable_mixed_rows"], "stable_documented_isotropic": isotropic_doc,
        "skipped_too_large": stats["skipped_too_large"], "skipped_timeout": stats["skipped_timeout"],
        "direct_violations": stats["violations"], "wall_s": round(time.time() - t0, 1),
        "rule": "case = make (4 binary rules + order-0 pwc, dims 1-4, random depth/order/outputs/limits) ; load ; 0-3 rounds of (surplus refinement "
                "with a random criterion at a quantile tolerance ; load) or removal by coefficient (holes) ; 2-4 selections with distinct criteria, "
                "tolerance 0 / quantile midpoints / exact ties / fixed, outputs -1..outs-1, limits, scale corrections; plus a fixed rule x criterion matrix",
        "sample": (list(scripts.values())[len(scripts) // 2] if scripts else []),
    })
    return cov


def replay(path):
    rp = json.load(open(path))
    res = vlib.Result(PID, "quick", rp.get("seed", 1), "proof")
    run(res, "quick", rp.get("seed", 1), replay_script=rp.get("script"))
    return finish_standalone(res)


def finish_standalone(res):
    """print the outcome like Result.finish() but write the evidence under _build/work/C07s/ (never evidence/C07.json)"""
    wd = os.path.join(vlib.BUILD, "work", "C07s")
    os.makedirs(wd, exist_ok=True)
    cov = res.coverage.get("strategies", {})
    with open(os.path.join(wd, "evidence-standalone.json"), "w") as fh:
        json.dump({"property_id": PID, "part": "strategies", "tier": res.tier, "seed": res.seed, "coverage": cov,
                   "violations": len(res.violations), "known": [k for k, _ in res.known_hit]}, fh, indent=1, default=str)
    for key, text in res.known_hit:
        print("KNOWN-FINDING: property=%s key=%s %s" % (PID, key, text))
    seen = set()
    for v in res.violations:
        if v["key"] in seen:
            continue
        seen.add(v["key"])
        print("DETAIL property=%s key=%s %s" % (PID, v["key"], v["what"][:400].replace("\n", " ")))
        print("VIOLATION property=%s replay=%s%s" % (PID, v["replay"], " no-failing-input-found" if v["no_input"] else ""))
    short = {k: cov.get(k) for k in ("obligations", "discharged", "cases", "selections_compared", "selections_agree_exactly", "disagreements",
                                      "completeToLower_fuel_exhausted", "nonempty_proposals", "loaded_sets_with_missing_parents", "by_criterion", "by_rule", "by_dimension",
                                      "with_level_limits", "with_scale_correction", "update_map_points_checked",
                                      "update_map_points_skipped_borderline", "stable_selections_with_direction_dependent_rows",
                                      "skipped_too_large", "skipped_timeout", "wall_s")}
    print("SUMMARY " + json.dumps(short, default=str))
    sys.stdout.flush()
    return 1 if res.violations else 0


def main():
    if len(sys.argv) >= 3 and sys.argv[1] == "--replay":
        return replay(sys.argv[2])
    tier = sys.argv[1] if len(sys.argv) > 1 and sys.argv[1] in ("quick", "thorough") else "quick"
    seed = int(sys.argv[2]) if len(sys.argv) > 2 else int(os.environ.get("VERIF_SEED", "1") or 1)
    res = vlib.Result(PID, tier, seed, "proof")
    try:
        run(res, tier, seed)
    except vlib.BuildError as e:
        res.violation("build", "build failed: " + str(e)[:1500], {"kind": "build-failure", "detail": str(e)}, no_input=True)
    return finish_standalone(res)


if __name__ == "__main__":
    sys.exit(main())
