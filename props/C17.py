"""C17 — constructSurrogate checkpoints survive a crash at any instant (sequential mode).

Decided by
 * the theorems of coq/Props/Properties_C17.v about the model coq/Model/Checkpoint.v (two-file invariant of the documented
   procedure for any chunking / crash point / torn write, unbounded run of checkpoints, recovery under H-TORN, the
   restart-time initial checkpoint, the CompleteStorage reader, and the refutations of the procedure AS CODED),
 * a correspondence: every child process is run under harness/killshim.c (LD_PRELOAD), its observed fopen/write/fclose
   sequence is followed by the extracted model (which code variant explains it, predicted files == actual files byte for
   byte, model recovery == observed recovery),
 * the statement of the property evaluated directly on the real code: the child is killed at the k-th file operation
   (before / after / torn write), both files are classified, constructSurrogate is restarted in a fresh process and the
   call logs of the processes are compared,
 * H-TORN checked against the real reader (ASan build) on every strict prefix of sample checkpoints.
"""
import concurrent.futures as cf
import hashlib
import json
import os
import re
import resource
import shutil
import subprocess
import time

import vlib

LEVEL = "proof"
PID = "C17"
TOL = 1e-9

TRUSTED = [
    "Coq 8.16.1 kernel (vm_compute only in the non-vacuity Examples)",
    "axioms: none (Print Assumptions: Closed under the global context for all theorems)",
    "extraction: ExtrOcamlBasic only; nat/N/positive stay Coq datatypes; the byte type of the file-system part is instantiated "
    "with OCaml chars by ocaml/checkpoint_main.ml",
    "OCaml glue ocaml/checkpoint_main.ml: parsing of the case file, the table-driven specification reader and grid-section reader",
    "harness/killshim.c (LD_PRELOAD interposer on fopen/fopen64/fclose/write/writev/open*/close/rename/unlink/pwrite/ftruncate; "
    "libstdc++'s basic_filebuf was observed with strace to use only fopen, write(v), fclose), harness/surrdrv.cpp, g++, libstdc++, glibc, ASan/UBSan",
    "MODELLING ASSUMPTIONS (not proved): each fopen(\"wb\")/write/fclose on a file is atomic and takes effect in program order; opening "
    "with truncation empties the file; a killed write has transferred a prefix of its bytes; bytes handed to the kernel survive the "
    "death of the process (process crash only: the code never calls fsync, power loss is not covered); nobody else touches the two files; "
    "the model callback and the construction are deterministic",
    "the grid section of a checkpoint is abstract in the model (its reader is a Section variable with hypotheses H-GRID); only the "
    "CompleteStorage section is modelled byte by byte",
    "modelled, not verified: TasGrid::constructCommon lines 116-156 (recovery, initial checkpoint, checkpoint lambda), CompleteStorage::read/write",
]

ASSUMPTIONS = [
    "H-TORN (Section hypothesis of c17_recovery): the real reader accepts a complete checkpoint (round trip) and rejects every strict "
    "prefix with std::runtime_error; checked on every run against the ASan build on all strict prefixes of the sample checkpoints",
    "H-GRID (Section hypotheses of c17_prefix_rejected): the grid section is self-delimiting; checked through H-TORN on the real reader",
    "H-NOREDO (hypothesis of c17_recompute_bound): a restarted process never requests a sample its recovered state holds; checked on the call logs",
    "file-system semantics as listed in the trusted base (atomic steps, program order, truncation, no fsync => process crash only)",
    "parallel mode is not covered by this check (C18 covers the worker protocol); the checkpoint lambda is shared by both modes",
    "grids read through CustomTabulated::read (raw istream reads) are outside the sample families",
]

# the keys of the defects of the unchanged tree (stable: site + kill class)
K_BACKUP = "backup-opened-as-current"
K_INITIAL = "initial-checkpoint-no-backup"
K_CLEARS = "failed-recovery-clears-grid"
K_ACCEPT = "torn-read-accepted:"            # + grid | CompleteStorage
K_NOTRT = "torn-read-not-runtime-error:"    # + grid | CompleteStorage
K_PARKED = "budget-exceeded-after-restart:parked-points"

FAMILIES_QUICK = [("localp", 40, 1, 1), ("global", 16, 1, 1)]     # the Global/Fourier construction data (tensor flags rebuilt by the reader) is a different container
FAMILIES_THOROUGH = [("localp", 40, 1, 1), ("localp", 30, 3, 2), ("localp2", 24, 2, 1), ("localp0", 20, 1, 3), ("wavelet", 16, 1, 1),
                     ("sequence", 24, 1, 1), ("sequence", 24, 3, 1), ("global", 24, 2, 1), ("globalout", 20, 1, 1), ("fourier", 18, 1, 1)]
MK_FAMILIES = ["localp", "localp2", "localp0", "wavelet", "sequence", "global", "fourier"]


# ---------------------------------------------------------------------------------------------
# child processes: always under a wall-clock timeout and a memory limit (a torn read may ask for 2^60 bytes)
def _limits_plain():
    resource.setrlimit(resource.RLIMIT_AS, (400 << 20, 400 << 20))
    resource.setrlimit(resource.RLIMIT_CPU, (60, 60))
    resource.setrlimit(resource.RLIMIT_CORE, (0, 0))


def _limits_asan():
    resource.setrlimit(resource.RLIMIT_CPU, (120, 120))
    resource.setrlimit(resource.RLIMIT_CORE, (0, 0))


ASAN_ENV = "detect_leaks=0:max_allocation_size_mb=64:hard_rss_limit_mb=200:allocator_may_return_null=0:abort_on_error=0:symbolize=0:fast_unwind_on_malloc=1"


PRLIMIT = shutil.which("prlimit")


def child(cmd, env=None, timeout=30, asan=False):
    e = dict(os.environ)
    e.pop("LD_PRELOAD", None)
    if env:
        e.update(env)
    if asan:
        e["ASAN_OPTIONS"] = ASAN_ENV
        e["UBSAN_OPTIONS"] = "print_stacktrace=0"
    pre = None
    if PRLIMIT:
        # resource limits through the prlimit wrapper: preexec_fn is not safe in a multi-threaded parent
        lim = ["--cpu=120", "--core=0"] if asan else ["--as=%d" % (400 << 20), "--cpu=60", "--core=0"]
        cmd = [PRLIMIT] + lim + ["--"] + list(cmd)
    else:
        pre = _limits_asan if asan else _limits_plain
    try:
        p = subprocess.run(cmd, env=e, capture_output=True, timeout=timeout, preexec_fn=pre)
        return p.returncode, p.stdout.decode(errors="replace"), p.stderr.decode(errors="replace")
    except subprocess.TimeoutExpired as ex:
        so = ex.stdout.decode(errors="replace") if ex.stdout else ""
        return -999, so, "TIMEOUT"


def read_bytes(path):
    try:
        with open(path, "rb") as fh:
            return fh.read()
    except OSError:
        return None


# ---------------------------------------------------------------------------------------------
# log of one process: call-log lines of the driver (G/C) interleaved with the shim's operation lines (same O_APPEND file)
class ProcLog:
    def __init__(self, path, ckpt):
        self.calls = []        # list of tuples of points (each point a tuple of hex strings), index = call# - 1
        self.gstates = []      # (call#, numloaded, maxerr, dims, outs)
        self.ops = []          # dict(idx, kind, path, n, detail, done, result, torn, phase)
        self.killed = False
        cur = None
        try:
            lines = open(path, errors="replace").read().split("\n")
        except OSError:
            lines = []
        for ln in lines:
            t = ln.split()
            if not t:
                continue
            if t[0] == "C":
                np_ = int(t[2])
                xs = t[3:]
                d = len(xs) // max(np_, 1)
                self.calls.append(tuple(tuple(xs[i * d:(i + 1) * d]) for i in range(np_)))
            elif t[0] == "G":
                self.gstates.append((int(t[1]), int(t[2]), float.fromhex(t[3]), int(t[4]), int(t[5])))
            elif t[0].isdigit() and len(t) >= 2:
                idx = int(t[0])
                if t[1] == "done":
                    if cur and cur["idx"] == idx:
                        cur["done"] = True
                        cur["result"] = int(t[2])
                elif t[1] == "torn":
                    if cur and cur["idx"] == idx:
                        cur["torn"] = int(t[2])
                elif t[1] == "killed":
                    self.killed = True
                else:
                    cur = {"idx": idx, "kind": t[1], "path": t[2], "n": int(t[3]), "detail": t[4] if len(t) > 4 else "",
                           "done": False, "result": None, "torn": None, "phase": len(self.calls)}
                    self.ops.append(cur)
        self.ckpt = ckpt

    def tag(self, op):
        if op["path"] == self.ckpt:
            return "c"
        if op["path"] == self.ckpt + "_old":
            return "o"
        return "x"

    def write_side(self):
        """tokens of the write-side operations that took effect (for the model)"""
        out = []
        for op in self.ops:
            k = op["kind"]
            t = self.tag(op)
            if k == "openw" and op["done"]:
                out.append("W" + t)
            elif k == "write":
                if op["done"]:
                    out.append("A%s:%d" % (t, op["result"] if op["result"] is not None else op["n"]))
                elif op["torn"] is not None:
                    out.append("A%s:%d" % (t, op["torn"]))
            elif k == "close" and op["detail"].endswith(":w") and op["done"]:
                out.append("C" + t)
            elif k in ("opena", "rename", "unlink", "trunc", "pwrite") and op["done"]:
                out.append("X" + t)      # not part of the modelled procedure: the model will report a deviation
        return out


def shape_of(op):
    return (op["kind"], os.path.basename(op["path"]), op["n"], op["detail"])


# ---------------------------------------------------------------------------------------------
class Ctx:
    def __init__(self, res, tier, seed):
        self.res, self.tier, self.seed = res, tier, seed
        self.lib = vlib.build_lib("plain")
        self.drv = vlib.build_driver("surrdrv", "plain")
        self.drv_asan = vlib.build_driver("surrdrv", "asan")
        self.shim = build_shim(self.lib["dir"])
        self.wd = os.path.join(vlib.BUILD, "work", PID, "run-%s-%d" % (tier, seed))
        if os.path.isdir(self.wd):
            shutil.rmtree(self.wd, ignore_errors=True)
        os.makedirs(self.wd, exist_ok=True)
        # private copies of the executables: the shared build cache may be pruned by a concurrent build of another tree
        bindir = os.path.join(self.wd, "bin")
        os.makedirs(bindir, exist_ok=True)
        for attr, nm in (("drv", "surrdrv"), ("drv_asan", "surrdrv-asan"), ("shim", "killshim.so")):
            dst = os.path.join(bindir, nm)
            shutil.copy2(getattr(self, attr), dst)
            setattr(self, attr, dst)
        self.nchild = 0


def build_shim(cache_dir):
    src = os.path.join(vlib.HARNESS, "killshim.c")
    h = hashlib.sha256(open(src, "rb").read()).hexdigest()[:10]
    so = os.path.join(cache_dir, "killshim-%s.so" % h)
    with vlib.Lock("drv-killshim"):
        if not os.path.exists(so):
            rc, o, e = vlib.run(["gcc", "-O1", "-shared", "-fPIC", "-o", so + ".tmp", src, "-ldl"], timeout=120)
            if rc != 0:
                raise vlib.BuildError("killshim.c failed to compile:\n" + e[-2000:])
            os.rename(so + ".tmp", so)
    return so


def run_proc(ctx, cfg, d, start=None, kill=None, refdir=False):
    """run one constructSurrogate process in directory d (files d/ck, d/ck_old), optionally from copies of the start
    files and optionally killed at operation kill=(k, when).  Returns dict(rc, log, result, cur, old)."""
    os.makedirs(d, exist_ok=True)
    ck = os.path.join(d, "ck")
    if start:
        for src, dst in ((start[0], ck), (start[1], ck + "_old")):
            if src and os.path.exists(src):
                shutil.copyfile(src, dst)
    logp = os.path.join(d, "log.txt")
    resp = os.path.join(d, "result.txt")
    fam, budget, batch, njobs = cfg
    cmd = [ctx.drv, "run", fam, str(budget), str(batch), str(njobs), ck, logp, resp]
    if refdir:
        os.makedirs(os.path.join(d, "ref"), exist_ok=True)
        cmd.append(os.path.join(d, "ref"))
    env = {"LD_PRELOAD": ctx.shim, "KILLSHIM_MATCH": ck, "KILLSHIM_LOG": logp,
           "KILLSHIM_K": str(kill[0]) if kill else "0", "KILLSHIM_WHEN": kill[1] if kill else "before"}
    rc, so, se = child(cmd, env=env, timeout=60)
    ctx.nchild += 1
    res_line = None
    try:
        res_line = open(resp).readline().strip()
    except OSError:
        pass
    return {"rc": rc, "log": ProcLog(logp, ck), "result": res_line, "dir": d, "ck": ck, "stderr": se[-400:]}


def parse_result(line):
    """'done n needed e1 e2' | 'exception class type what'"""
    if not line:
        return {"kind": "none"}
    t = line.split()
    if t[0] == "done":
        return {"kind": "done", "numloaded": int(t[1]), "needed": int(t[2]), "e_values": float.fromhex(t[3]), "e_eval": float.fromhex(t[4])}
    if t[0] == "exception":
        return {"kind": "exception", "cls": t[1], "type": t[2], "what": " ".join(t[3:])}
    return {"kind": "none"}


def readcheck(ctx, path):
    if not os.path.exists(path):
        return {"status": "missing"}
    rc, so, se = child([ctx.drv, "readcheck", path], timeout=30)
    ctx.nchild += 1
    line = so.strip().split("\n")[-1] if so.strip() else ""
    if rc == -999:
        return {"status": "hang", "text": "timeout"}
    if rc != 0:
        return {"status": "crash", "text": "rc=%d %s" % (rc, se[-200:])}
    if line.startswith("ok "):
        kv = dict(x.split("=") for x in line.split()[1:])
        return {"status": "ok", "kv": kv, "text": line}
    if line.startswith("throw runtime_error"):
        return {"status": "runtime_error", "text": line}
    if line.startswith("throw "):
        return {"status": "other_exception", "text": line}
    return {"status": "crash", "text": "rc=%d out=%s" % (rc, line[:200])}


# ---------------------------------------------------------------------------------------------
class Scenario:
    """a process (fresh, or restarted from given files) with its reference run and its kill cases"""

    def __init__(self, ctx, name, cfg, start=None, prior_samples=(), max_phase=None, prior_tables=()):
        self.ctx, self.name, self.cfg, self.start = ctx, name, cfg, start
        self.prior = list(prior_samples)     # samples held by the start state (tuples of hex strings)
        self.prior_tables = list(prior_tables)   # complete checkpoints of earlier processes that may still be on disk
        self.base = len(self.prior_tables)       # table index of this process's initial checkpoint
        self.max_phase = max_phase
        self.dir = os.path.join(ctx.wd, name)
        self.cases = []
        self.dense = ctx.tier == "thorough"
        self.light = False

    def reference(self):
        r = run_proc(self.ctx, self.cfg, os.path.join(self.dir, "ref"), start=self.start, refdir=True)
        self.ref = r
        self.ref_res = parse_result(r["result"])
        log = r["log"]
        self.ncalls = len(log.calls)
        self.table = list(self.prior_tables)
        for k in range(self.ncalls + 1):
            p = os.path.join(r["dir"], "ref", "ck%d" % k)
            self.table.append(p)
        self.table_bytes = [read_bytes(p) for p in self.table]
        self.ops = log.ops
        # last operation index of every phase (phase i = file operations between call i and call i+1; 0 = start-up)
        self.phase_last = {}
        for op in self.ops:
            self.phase_last[op["phase"]] = op["idx"]
        return r

    def kill_points(self, tears):
        pts = []
        for op in self.ops:
            if self.max_phase is not None and op["phase"] > self.max_phase:
                break
            pts.append((op["idx"], "before"))
            pts.append((op["idx"], "after"))
            if op["kind"] == "write":
                n = op["n"]
                for tname in tears:
                    m = {"0": 0, "1": 1, "half": n // 2, "len-1": n - 1, "q1": n // 4, "q3": (3 * n) // 4, "16": 16, "len-9": n - 9}[tname]
                    if 0 <= m < n:
                        pts.append((op["idx"], "tear:%d" % m))
                if op["phase"] == 0 and self.start is None:
                    # the very first checkpoint of a fresh run: nothing protects it, tear it densely
                    for m in range(5, n, 8):
                        pts.append((op["idx"], "tear:%d" % m))
                if self.dense and op["phase"] <= 2 and self.start is None:
                    for m in range(0, n):         # thorough: every byte of the first three checkpoints
                        pts.append((op["idx"], "tear:%d" % m))
        # distinct
        seen, out = set(), []
        for p in pts:
            if p not in seen:
                seen.add(p)
                out.append(p)
        return out

    def completed_before(self, k, when):
        """number of the last checkpoint of THIS process whose operations had all returned when the process died at
        operation k; -1 when not even the start-up phase (recovery + initial checkpoint) had completed"""
        lc = -1
        for ph in sorted(self.phase_last):
            last = self.phase_last[ph]
            if k > last or (k == last and when == "after"):
                lc = ph
        return lc


def run_kill_case(sc, k, when):
    ctx = sc.ctx
    d = os.path.join(sc.dir, "k%d-%s" % (k, when.replace(":", "")))
    r = run_proc(ctx, sc.cfg, d, start=sc.start, kill=(k, when))
    log = r["log"]
    ck = r["ck"]
    case = {"scenario": sc.name, "cfg": list(sc.cfg), "k": k, "when": when, "dir": d, "rc": r["rc"], "killed": log.killed,
            "ncalls1": len(log.calls), "log": log}
    if not log.killed:
        case["not_killed"] = True
        return case
    # keep the files as they were at the kill
    for nm in ("ck", "ck_old"):
        p = os.path.join(d, nm)
        if os.path.exists(p):
            shutil.copyfile(p, os.path.join(d, nm + ".atkill"))
    case["cur"] = read_bytes(os.path.join(d, "ck.atkill"))
    case["old"] = read_bytes(os.path.join(d, "ck_old.atkill"))
    case["rc_cur"] = readcheck(ctx, os.path.join(d, "ck.atkill"))
    case["rc_old"] = readcheck(ctx, os.path.join(d, "ck_old.atkill"))
    # restart in a fresh process, same file name, no fault injection (still logged through the shim)
    logp = os.path.join(d, "log.txt")
    os.rename(logp, os.path.join(d, "log1.txt"))
    if os.path.exists(os.path.join(d, "result.txt")):
        os.remove(os.path.join(d, "result.txt"))
    r2 = run_proc(ctx, sc.cfg, d)
    case["restart_rc"] = r2["rc"]
    case["restart"] = parse_result(r2["result"])
    case["restart_log"] = r2["log"]
    case["restart_stderr"] = r2["stderr"]
    return case


# ---------------------------------------------------------------------------------------------
def model_pass(ctx, runner, scenarios):
    """write the case file for the extracted model, run it, attach the parsed lines to the cases"""
    lines = []
    for sc in scenarios:
        lines.append("table %s %d" % (sc.name, sc.base))
        for k, p in enumerate(sc.table):
            gl = sc.gridlens[k] if k < len(sc.gridlens) else -1
            lines.append("ref %s %d" % (p, gl))
        lines.append("endtable")
        s_cur = sc.start[0] if sc.start and sc.start[0] and os.path.exists(sc.start[0]) else "-"
        s_old = sc.start[1] if sc.start and sc.start[1] and os.path.exists(sc.start[1]) else "-"
        # the reference (unkilled) process is a case too: it fixes the code variant
        lines += ["case %s/ref %s" % (sc.name, sc.name), "start %s %s" % (s_cur, s_old),
                  "ops " + " ".join(sc.ref["log"].write_side()),
                  "after %s %s" % (sc.ref["ck"], sc.ref["ck"] + "_old" if os.path.exists(sc.ref["ck"] + "_old") else "-"), "endcase"]
        for c in sc.cases:
            if c.get("not_killed"):
                continue
            a_cur = os.path.join(c["dir"], "ck.atkill")
            a_old = os.path.join(c["dir"], "ck_old.atkill")
            lines += ["case %s/%d/%s %s" % (sc.name, c["k"], c["when"], sc.name), "start %s %s" % (s_cur, s_old),
                      "ops " + " ".join(c["log"].write_side()),
                      "after %s %s" % (a_cur if os.path.exists(a_cur) else "-", a_old if os.path.exists(a_old) else "-"), "endcase"]
    cfile = os.path.join(ctx.wd, "model_cases.txt")
    open(cfile, "w").write("\n".join(lines) + "\n")
    rc, so, se = vlib.run([runner, cfile], timeout=1200)
    open(os.path.join(ctx.wd, "model_out.txt"), "w").write(so + se)
    out = {"cases": {}, "tabs": {}, "rc": rc, "stderr": se[-500:]}
    for ln in so.split("\n"):
        t = ln.split()
        if not t:
            continue
        if t[0] == "tab":
            kv = dict(x.split("=", 1) for x in t[3:] if "=" in x)
            out["tabs"][(t[1], int(t[2]))] = kv
        elif t[0] == "case":
            if "MISMATCH" in t:
                out["cases"][t[1]] = {"mismatch": ln}
                continue
            kv = dict(x.split("=", 1) for x in t[2:] if "=" in x)
            conf = []
            inner = kv.get("conform", "[]").strip("[]")
            for item in [x for x in inner.split(",") if x]:
                v, m, dn = item.split("/")
                conf.append((v, m == "true", int(dn)))
            kv["conform_list"] = conf
            out["cases"][t[1]] = kv
    return out


# ---------------------------------------------------------------------------------------------
def torn_check(ctx, files, exhaustive_limit=4096, stride=7):
    """H-TORN on the real reader (ASan build): every strict prefix of each file must be rejected with std::runtime_error.
    returns (counts, offenders) ; offenders = list of dict(file, L, section, outcome, text)"""
    counts = {"prefixes": 0, "runtime_error": 0, "accepted": 0, "other_exception": 0, "crash": 0, "files": len(files)}
    offenders = []

    def one(fp):
        path, gridlen = fp
        size = os.path.getsize(path)
        step = 1 if size <= exhaustive_limit else stride
        res = []
        start = 0
        guard = 0
        while start < size and guard < 400:
            guard += 1
            rc, so, se = child([ctx.drv_asan, "torn", path, str(start), str(step)], timeout=300, asan=True)
            last = None
            ended = False
            for ln in so.split("\n"):
                t = ln.split(None, 2)
                if not t:
                    continue
                if t[0] == "L":
                    last = int(t[1])
                    rest = t[2] if len(t) > 2 else ""
                    if rest:
                        res.append((last, rest))
                        last_done = True
                    else:
                        last_done = False
                elif t[0] == "end":
                    ended = True
            if ended:
                break
            # the process died (or hung) while reading prefix `last`
            if last is None:
                res.append((start, "crash rc=%d %s" % (rc, se[-300:].replace("\n", " "))))
                start += step
            else:
                if not (res and res[-1][0] == last):
                    why = "hang" if rc == -999 else "crash rc=%d" % rc
                    m = re.search(r"(AddressSanitizer|runtime error|LeakSanitizer)[^\n]*", se)
                    res.append((last, "%s %s" % (why, m.group(0)[:200] if m else se[-200:].replace("\n", " "))))
                start = last + step
        return path, gridlen, size, res

    with cf.ThreadPoolExecutor(vlib.NCPU) as ex:
        for path, gridlen, size, res in ex.map(one, files):
            for L, text in res:
                counts["prefixes"] += 1
                section = "grid" if L < gridlen else "CompleteStorage"
                if text.startswith("throw runtime_error"):
                    counts["runtime_error"] += 1
                    continue
                if text.startswith("ok "):
                    counts["accepted"] += 1
                    outcome = "accepted"
                elif text.startswith("throw "):
                    counts["other_exception"] += 1
                    outcome = "other_exception"
                else:
                    counts["crash"] += 1
                    outcome = "crash"
                offenders.append({"file": path, "L": L, "size": size, "gridlen": gridlen, "section": section, "outcome": outcome, "text": text[:300]})
    return counts, offenders


# ---------------------------------------------------------------------------------------------
def evaluate_case(sc, c, mres, variant):
    """direct evaluation of the property on one kill case; returns list of (key, what)"""
    out = []
    budget = sc.cfg[1]
    k, when = c["k"], c["when"]
    log1 = c["log"]
    # the killed child must have followed the reference run up to the kill (determinism)
    ref_shapes = [shape_of(o) for o in sc.ops[:len(log1.ops)]]
    if [shape_of(o) for o in log1.ops] != ref_shapes:
        out.append(("nondeterministic-run", "the killed process did not issue the same file operations as the reference run"))
        return out
    lc = sc.completed_before(k, when)             # last completed checkpoint of this process (-1: none)
    phase = next((o["phase"] for o in sc.ops if o["idx"] == k), 0)
    restarted_process = sc.start is not None
    # samples that the last completed checkpoint holds
    protected = set(sc.prior)
    for i in range(min(lc, len(log1.calls))):
        protected.update(log1.calls[i])
    # --- (A) two-file invariant, evaluated on the bytes
    have_lc = restarted_process or lc >= 0
    base = sc.base + max(lc, 0)             # table index of the last completed checkpoint
    surv = []
    for nm in ("cur", "old"):
        b = c[nm]
        if b is None:
            continue
        for j in range(len(sc.table_bytes) - 1, -1, -1):
            if sc.table_bytes[j] == b:
                surv.append((nm, j))
                break
    inv_ok = (not have_lc) or any(j >= base for _, j in surv)
    in_initial = phase == 0
    b2o, skip = variant[0] == "1", variant[1] == "1"

    def attribute(generic, what):
        """name the defect class that explains a failure at this kill point, if the code variant has it"""
        if variant == "??":
            return (generic, what)
        if in_initial and restarted_process and not skip:
            return (K_INITIAL, what)
        if (not in_initial) and not b2o:
            return (K_BACKUP, what)
        return (generic, what)
    if not inv_ok:
        out.append(attribute("no-complete-file", "after the kill at operation %d (%s, phase %d) neither file holds checkpoint >= %d "
                             "(files: %s)" % (k, when, phase, base - sc.base, [(n, j - sc.base) for n, j in surv] or "none complete")))
    # --- (B) the real reader on the two files
    for nm in ("cur", "old"):
        rc_ = c["rc_" + nm]
        b = c[nm]
        if b is None:
            continue
        complete = any(tb == b for tb in sc.table_bytes)
        gl = None
        for j in range(len(sc.table_bytes) - 1, -1, -1):
            tb = sc.table_bytes[j]
            if tb is not None and tb[:len(b)] == b:
                gl = sc.gridlens[j]
                break
        section = "grid" if (gl is None or len(b) < gl) else "CompleteStorage"
        if complete:
            if rc_["status"] != "ok":
                out.append(("complete-file-rejected", "the real reader does not accept a complete checkpoint: %s" % rc_.get("text")))
            elif rc_["kv"].get("roundtrip") != "1" or float.fromhex(rc_["kv"].get("maxerr", "0x0p+0")) > TOL:
                out.append(("roundtrip", "reading a complete checkpoint and writing it again does not give the same bytes / values: %s" % rc_["text"]))
        else:
            if rc_["status"] == "ok" and gl is None:
                # not a prefix of any checkpoint of this run: nothing the modelled procedure can leave behind
                out.append(("foreign-content-accepted", "file %s (%d bytes, kill %d %s) is neither a checkpoint nor a prefix of one, yet the reader "
                            "accepts it: %s" % (nm, len(b), k, when, rc_["text"])))
            elif rc_["status"] == "ok":
                out.append((K_ACCEPT + section, "the real reader ACCEPTS the torn file %s (%d bytes, kill %d %s): %s" % (nm, len(b), k, when, rc_["text"])))
            elif rc_["status"] != "runtime_error":
                out.append((K_NOTRT + section, "reading the torn file %s (%d bytes, kill %d %s) does not throw std::runtime_error: %s %s"
                            % (nm, len(b), k, when, rc_["status"], rc_.get("text", ""))))
    accepted_torn = [key for key, _ in out if key.startswith(K_ACCEPT)]
    # --- (C) the restart
    rs = c["restart"]
    log2 = c["restart_log"]
    torn_cause = None
    for nm in ("cur", "old"):
        if c[nm] is not None and c["rc_" + nm]["status"] not in ("ok", "runtime_error", "missing"):
            torn_cause = K_NOTRT + ("grid")
    if c["restart_rc"] != 0 or rs["kind"] == "none":
        key = torn_cause or "restart-crash"
        out.append((key, "the restarted process died: rc=%s %s" % (c["restart_rc"], c["restart_stderr"][-200:])))
        return out
    if rs["kind"] == "exception":
        what = "the restart throws %s: %s" % (rs["type"], rs["what"][:160])
        if "empty grid" in rs["what"]:
            # the failed read emptied the caller's grid
            if (not in_initial) or restarted_process:
                out.append(attribute(K_CLEARS, what))
            else:
                out.append((K_CLEARS, what))
        elif rs["cls"] != "runtime_error" or torn_cause:
            out.append((torn_cause or (K_NOTRT + "grid"), what))
        else:
            out.append(("restart-exception", what))
        return out
    # finished: never a corrupted grid
    bad_g = [g for g in log2.gstates if not (g[2] <= TOL) or g[3] != 2 or g[4] != 3]     # 2 inputs, 3 outputs (surrdrv NUM_OUT)
    if bad_g:
        out.append(("corrupt-grid-continued", "the restarted process worked with a grid whose loaded values differ from the model: %s" % (bad_g[0],)))
    if not (rs["e_values"] <= TOL and rs["e_eval"] <= TOL):
        out.append(("final-grid-wrong", "final grid does not reproduce the model at its loaded points: values %g evaluate %g" % (rs["e_values"], rs["e_eval"])))
    redo = [x for call in log2.calls for x in call]
    # samples that the recovered checkpoint holds (computed before it) and how many of them the grid does not count as loaded:
    # constructCommon line 168 initialises its counter with getNumLoaded() + getNumStored() only
    held, parked = None, 0
    # the state the restart recovered, from the outcome of the real reader on the two files (main first, then backup)
    j = None
    for nm in ("cur", "old"):
        if c[nm] is not None and c["rc_" + nm]["status"] == "ok":
            b = c[nm]
            for jj in range(len(sc.table_bytes) - 1, -1, -1):
                tb = sc.table_bytes[jj]
                if tb is not None and tb[:len(b)] == b:
                    j = jj
                    break
            break
    if j is None and log2.gstates and log2.gstates[0][1] > 0:
        # the stand-alone reader rejected both files, yet the restart began with loaded points: it accepted a torn file (the readers
        # use uninitialised values after a short read, so the outcome can differ from one process to the next)
        for nm in ("cur", "old"):
            b = c[nm]
            if b is None:
                continue
            for jj in range(len(sc.table_bytes) - 1, -1, -1):
                tb = sc.table_bytes[jj]
                if tb is not None and tb[:len(b)] == b and len(b) < len(tb) and sc.numloaded[jj] is not None and \
                        log2.gstates[0][1] in (sc.numloaded[jj], sc.numtotal[jj]):
                    j = jj
                    section = "grid" if len(b) < sc.gridlens[jj] else "CompleteStorage"
                    out.append((K_ACCEPT + section, "the restart continued from the torn file %s (%d of %d bytes of checkpoint %d) although the "
                                "stand-alone reader rejected it" % (nm, len(b), len(tb), jj - sc.base)))
                    break
            if j is not None:
                break
    if j is None and not any(c[nm] is not None and c["rc_" + nm]["status"] == "ok" for nm in ("cur", "old")):
        held = 0                                 # nothing recovered: the run starts over
    if j is not None:
        held = (len(sc.prior) if j >= sc.base else max(len(sc.prior) - sum(1 for _ in range(sc.base - j)) * sc.cfg[2], 0)) + \
            sum(len(call) for call in log1.calls[:max(j - sc.base, 0)])
        if j < len(sc.numtotal) and sc.numtotal[j] is not None:
            parked = max(held - sc.numtotal[j], 0)
    over = max(rs["numloaded"] - budget, (held + len(redo) - budget) if held is not None else 0)
    if j is not None and log2.gstates and j < len(sc.numloaded) and log2.gstates[0][1] not in (sc.numloaded[j], sc.numtotal[j]):
        parked = 0          # the restart did not begin with the state inferred from the files: nothing is explained by parked samples
    # a restarted process that already overshoots because of the parked samples of ITS start state hands the excess on
    inherited = getattr(sc, "ref_over_parked", 0)
    if over > 0:
        out.append((K_PARKED if over <= parked + inherited else "budget-exceeded",
                    "budget %d exceeded by %d: the recovered checkpoint holds %s computed samples (%d of them parked inside the grid, not "
                    "counted by getNumLoaded()+getNumStored()), the restart computed %d more, the final grid has %d points"
                    % (budget, over, held, parked, len(redo), rs["numloaded"])))
    # --- (D) recomputation bound
    lost = [x for x in redo if x in protected]
    if lost:
        out.append(attribute("lost-completed-work", "the restart recomputed %d sample(s) that checkpoint %d (completed before the kill at operation "
                             "%d %s) already held, e.g. %s" % (len(lost), base - sc.base, k, when, " ".join(lost[0]))))
    # H-NOREDO: the restart must not recompute a sample that its own recovered state holds (duplicates inside one process)
    if len(set(redo)) != len(redo):
        out.append(("duplicate-sample", "the restarted process computed the same sample twice"))
    # --- (E) the model's recovery prediction against the observation
    if mres is not None and "recover_coded" in mres:
        pred = mres["recover_coded"]          # src:state
        src, st = pred.split(":")
        if st.isdigit():
            exp_loaded = sc.numloaded[int(st)] if int(st) < len(sc.numloaded) else None
            # the recovered grid also receives the stored samples before the first call
            exp_total = sc.numtotal[int(st)] if int(st) < len(sc.numtotal) else None
            if exp_total is not None and log2.gstates and log2.gstates[0][1] not in (exp_loaded, exp_total):
                # under H-TORN the model's recovery is what must happen; a torn file that the real reader accepted explains a difference
                out.append((accepted_torn[0] if accepted_torn else "recovery-differs-from-model",
                            "model recovery (which assumes H-TORN) predicts checkpoint %d (%s loaded) but the restart began with %d loaded points"
                            % (int(st) - sc.base, exp_total, log2.gstates[0][1])))
    return out


# ---------------------------------------------------------------------------------------------
def run(res, tier, seed, only=None, only_cfg=None):
    props = vlib.coq_props(PID)
    vlib.proof_coverage(res, PID, props, "cd coq && make Props/Properties_C17.vo && coqc -Q . TV Props/Properties_C17.v", TRUSTED)
    ok_ext, elog = vlib.coq_make(["Extract/ExtractCheckpoint.vo"])
    proof_broken = (not props["ok"]) or bool(res.coverage["forbidden_tokens"])
    runner = vlib.ocaml_runner("checkpoint") if ok_ext else None
    ctx = Ctx(res, tier, seed)
    r = vlib.rng(seed, PID)
    t0 = time.time()

    fams = list(FAMILIES_QUICK if tier == "quick" else FAMILIES_THOROUGH)
    if only:
        fams = [tuple(only["cfg"])]
    if only_cfg:
        fams = [tuple(only_cfg)]
    tears = ["0", "1", "half", "len-1"]
    if tier == "thorough":
        tears += ["q1", "q3", "16", "len-9"]
    # seed-dependent variation of the quick configuration (budget / batch), the witness configuration always first
    if tier == "quick" and not only and not only_cfg and seed != 1:
        fams.append((r.choice(["localp", "sequence", "localp2", "global"]), r.choice([10, 12, 14]), r.choice([1, 2, 3]), r.choice([1, 2])))

    # corpus: witness configurations are always part of the run, witness files are always part of the H-TORN sample
    cdir = os.path.join(vlib.ROOT, "corpus", PID)
    corpus_torn, light, extra_restart = [], set(), {}
    if os.path.isdir(cdir) and not only and not only_cfg:
        for fn in sorted(os.listdir(cdir)):
            if not fn.endswith(".json"):
                continue
            try:
                w = json.load(open(os.path.join(cdir, fn)))
            except ValueError:
                continue
            if w.get("kind") == "kill":
                cfg_ = tuple(w["cfg"])
                if cfg_ not in fams:
                    if w.get("light"):
                        light.add(cfg_)       # reference run and restart only (no kill enumeration)
                    fams.append(cfg_)
                if w.get("restart_after"):
                    extra_restart.setdefault(cfg_, set()).add(int(w["restart_after"]))
            elif w.get("kind") == "torn":
                corpus_torn.append((os.path.join(cdir, w["file"]), int(w["gridlen"])))

    scenarios = []
    for ci, cfg in enumerate(fams):
        sc = Scenario(ctx, "f%d-%s-b%d" % (ci, cfg[0], cfg[2]), cfg)
        sc.light = cfg in light
        sc.reference()
        scenarios.append(sc)
    # second-level scenarios: a process restarted from the files left by a kill between two checkpoints
    second = []
    for sc in scenarios:
        if sc.ncalls < 4:
            continue
        ms = [2] if tier == "quick" else sorted(set([1, 2, sc.ncalls // 2, max(sc.ncalls - 2, 1)]))
        if sc.light:
            ms = []
        ms = sorted(set(ms) | set(m for m in extra_restart.get(tuple(sc.cfg), ()) if m < sc.ncalls))
        for m in ms:
            firsts = [o["idx"] for o in sc.ops if o["phase"] == m + 1]
            if not firsts:
                continue
            d = os.path.join(sc.dir, "seed-state-%d" % m)
            rr = run_proc(ctx, sc.cfg, d, kill=(firsts[0], "before"))
            if not rr["log"].killed:
                continue
            st = (os.path.join(d, "ck.start"), os.path.join(d, "ck_old.start"))
            for a, b in ((rr["ck"], st[0]), (rr["ck"] + "_old", st[1])):
                if os.path.exists(a):
                    shutil.copyfile(a, b)
            # the samples the start state really holds: what the real reader can recover from the two files
            prior = []
            if read_bytes(st[0]) == sc.table_bytes[m] and readcheck(ctx, st[0])["status"] == "ok":
                prior = [x for call in rr["log"].calls[:m] for x in call]
            elif m >= 1 and read_bytes(st[1]) == sc.table_bytes[m - 1] and readcheck(ctx, st[1])["status"] == "ok":
                prior = [x for call in rr["log"].calls[:m - 1] for x in call]
            sc2 = Scenario(ctx, sc.name + "-restart%d" % m, sc.cfg, start=st, prior_samples=prior,
                           max_phase=(3 if tier == "quick" else 12), prior_tables=[sc.table[m - 1]] if m >= 1 else [])
            sc2.light = sc.light
            sc2.reference()
            sc2.parent_m = m
            second.append(sc2)
    all_sc = scenarios + second

    # real reader on the reference checkpoints: grid-section length, loaded/stored counts, round trip
    for sc in all_sc:
        sc.gridlens, sc.numloaded, sc.numtotal, sc.ref_read = [], [], [], []
        for p in sc.table:
            rc_ = readcheck(ctx, p)
            sc.ref_read.append(rc_)
            if rc_["status"] == "ok":
                kv = rc_["kv"]
                sc.gridlens.append(int(kv["gridlen"]))
                sc.numloaded.append(int(kv["numloaded"]))
                sc.numtotal.append(int(kv["numloaded"]) + int(kv["stored"]) // 2)
            else:
                sc.gridlens.append(-1)
                sc.numloaded.append(None)
                sc.numtotal.append(None)

    # kill cases
    jobs = []
    for sc in all_sc:
        pts = [] if getattr(sc, "light", False) else sc.kill_points(tears)
        if only:
            pts = [(only["k"], only["when"])] if sc.name == only["scenario"] else []
        for k, when in pts:
            jobs.append((sc, k, when))
    with cf.ThreadPoolExecutor(vlib.NCPU) as ex:
        for sc, case in zip([j[0] for j in jobs], ex.map(lambda j: run_kill_case(*j), jobs)):
            sc.cases.append(case)
    t_kill = time.time() - t0

    # the extracted model on every process
    mres = model_pass(ctx, runner, all_sc) if runner else None

    # which code variant explains ALL processes
    variant_votes = None
    case_good = {}
    corr_bad = []
    n_corr_ok = 0
    if mres:
        for cid, kv in mres["cases"].items():
            if "mismatch" in kv:
                corr_bad.append((cid, kv["mismatch"]))
                continue
            good = set(v for v, m, _ in kv["conform_list"] if m)
            if not good:
                corr_bad.append((cid, "no code variant of the model explains the observed operations and files: conform=%s deviate=%s act_cur=%s act_old=%s"
                                 % (kv.get("conform"), kv.get("deviate"), kv.get("act_cur"), kv.get("act_old"))))
                continue
            n_corr_ok += 1
            case_good[cid] = good
            # the complete (unkilled) processes decide the variant: a killed process is often explained by several
            if cid.endswith("/ref"):
                variant_votes = good if variant_votes is None else (variant_votes & good)
        if mres["rc"] != 0:
            corr_bad.append(("runner", "model runner exit %d %s" % (mres["rc"], mres["stderr"])))
    ref_ok = mres is not None and all((sc.name + "/ref") in case_good for sc in all_sc)
    if variant_votes and ref_ok:
        variant = sorted(variant_votes, reverse=True)[0]     # prefer the repaired reading when several fit
        for cid, good in case_good.items():
            if variant not in good:
                corr_bad.append((cid, "the process is not explained by the code variant %s recognised on the unkilled runs (explained by %s)" % (variant, sorted(good))))
    else:
        variant = "??"                                       # the code is none of the modelled variants: no failure is attributed to a known defect
        if mres and not corr_bad:
            corr_bad.append(("variant", "no single code variant explains all unkilled processes"))

    # reference runs must themselves satisfy the property
    nviol = 0
    for sc in all_sc:
        rr = sc.ref_res
        rep = {"kind": "impl-counterexample", "scenario": sc.name, "cfg": list(sc.cfg), "k": 0, "when": "none"}
        if sc.ref["rc"] != 0 or rr["kind"] != "done":
            res.violation("reference-run-failed", "unkilled run %s failed: rc=%s %s" % (sc.name, sc.ref["rc"], sc.ref["result"]), rep)
            nviol += 1
            continue
        ncomputed = len(sc.prior) + sum(len(call) for call in sc.ref["log"].calls)
        over = max(rr["numloaded"], ncomputed) - sc.cfg[1]
        if not (rr["e_values"] <= TOL and rr["e_eval"] <= TOL):
            res.violation("reference-run-wrong", "unkilled run %s: errors %g %g" % (sc.name, rr["e_values"], rr["e_eval"]), rep)
            nviol += 1
        if over > 0:
            parked = 0
            if sc.start is not None and sc.base < len(sc.numtotal) and sc.numtotal[sc.base] is not None:
                parked = max(len(sc.prior) - sc.numtotal[sc.base], 0)
            key = K_PARKED if over <= parked else "budget-exceeded"
            if key == K_PARKED:
                sc.ref_over_parked = over
            rep2 = dict(rep, script=["surrdrv run %s %d %d %d <ck>, killed before the first file operation of checkpoint %d" % (tuple(sc.cfg) + (getattr(sc, "parent_m", 0) + 1,)),
                                     "surrdrv run (same arguments)"])
            if res.violation(key, "unkilled restart %s: %d samples computed in total, final grid %d points, budget %d (the recovered checkpoint held %d samples, "
                             "%d of them parked inside the grid)" % (sc.name, ncomputed, rr["numloaded"], sc.cfg[1], len(sc.prior), parked), rep2):
                nviol += 1
        for k, rc_ in enumerate(sc.ref_read):
            if rc_["status"] != "ok" or rc_["kv"].get("roundtrip") != "1":
                res.violation("roundtrip", "complete checkpoint %d of %s is not read back / rewritten identically: %s" % (k, sc.name, rc_.get("text")), rep)
                nviol += 1
                break
        if mres:
            for k in range(len(sc.table)):
                tb = mres["tabs"].get((sc.name, k))
                rc_ = sc.ref_read[k]
                if tb is None or rc_["status"] != "ok":
                    continue
                # model reader of the CompleteStorage section against the real one
                if tb.get("storage") != "ok" or tb.get("reenc") != "true" or tb.get("tail") != "0" or \
                        tb.get("np") != rc_["kv"]["stored"] or tb.get("nv") != rc_["kv"]["storedvals"] or not tb.get("mread", "").startswith("ok"):
                    corr_bad.append(("%s/tab%d" % (sc.name, k), "model CompleteStorage reader disagrees with the real one: model %s real %s" % (tb, rc_["text"])))

    # direct evaluation
    stats = {"kills": 0, "not_killed": 0, "by_key": {}, "classes": {}}
    first_by_key = {}
    for sc in all_sc:
        for c in sc.cases:
            if c.get("not_killed"):
                stats["not_killed"] += 1
                continue
            stats["kills"] += 1
            cid = "%s/%d/%s" % (sc.name, c["k"], c["when"])
            kv = mres["cases"].get(cid) if mres else None
            if kv is not None and "mismatch" in kv:
                kv = None
            fails = evaluate_case(sc, c, kv, variant)
            if kv:
                cl = "%s|%s" % (kv.get("act_cur"), kv.get("act_old"))
                cl = re.sub(r":\d+", "", cl)
                stats["classes"][cl] = stats["classes"].get(cl, 0) + 1
            for key, what in fails:
                stats["by_key"][key] = stats["by_key"].get(key, 0) + 1
                if key not in first_by_key:
                    first_by_key[key] = (sc, c, what)
    for key, (sc, c, what) in first_by_key.items():
        rep = {"kind": "impl-counterexample", "scenario": sc.name, "cfg": list(sc.cfg), "k": c["k"], "when": c["when"],
               "start": "fresh process" if sc.start is None else "process restarted after checkpoint %d" % getattr(sc, "parent_m", -1),
               "script": ["surrdrv run %s %d %d %d <ck> under killshim KILLSHIM_K=%d KILLSHIM_WHEN=%s" % (tuple(sc.cfg) + (c["k"], c["when"])),
                          "surrdrv run (same arguments, no fault injection)"],
               "observed": what, "count": stats["by_key"][key]}
        if res.violation(key, what + " [%d kill points]" % stats["by_key"][key], rep):
            nviol += 1

    # H-TORN on the real reader
    torn_files = []
    sc0 = next((x for x in scenarios if not x.light), scenarios[0])
    sel = sorted(set([0, 1, 2, sc0.ncalls // 3, sc0.ncalls // 2, sc0.ncalls]))
    for k in sel:
        if k < len(sc0.table) and sc0.gridlens[k] >= 0:
            torn_files.append((sc0.table[k], sc0.gridlens[k]))
    for sc in scenarios:
        k = sc.ncalls // 2
        if sc is not sc0 and sc.gridlens[k] >= 0 and not sc.light:
            torn_files.append((sc.table[k], sc.gridlens[k]))
    stale_corpus = []
    for f, gl in corpus_torn:
        rc_ = readcheck(ctx, f) if os.path.exists(f) else {"status": "missing"}
        if rc_["status"] == "ok" and rc_["kv"].get("roundtrip") == "1" and int(rc_["kv"]["gridlen"]) == gl:
            torn_files.insert(0, (f, gl))
        else:
            stale_corpus.append(os.path.basename(f))      # written by another format version: not a complete checkpoint any more
    mkdir = os.path.join(ctx.wd, "mk")
    os.makedirs(mkdir, exist_ok=True)
    mk_list = []
    for fam in MK_FAMILIES:
        for (nl, ns) in ([(5, 3)] if tier == "quick" else [(5, 3), (9, 1), (3, 6)]):
            mk_list.append((fam, nl, ns))
    if tier == "quick":
        mk_list = mk_list[:4] + [mk_list[(seed + i) % len(mk_list)] for i in range(2)]
        mk_list = list(dict.fromkeys(mk_list))
    for fam, nl, ns in mk_list:
        p = os.path.join(mkdir, "mk-%s-%d-%d.bin" % (fam, nl, ns))
        rc, so, se = child([ctx.drv, "mkckpt", fam, str(nl), str(ns), p], timeout=60)
        rc_ = readcheck(ctx, p)
        if rc_["status"] == "ok" and rc_["kv"].get("roundtrip") == "1":
            torn_files.append((p, int(rc_["kv"]["gridlen"])))
        else:
            res.violation("roundtrip", "crafted checkpoint %s is not read back identically: %s" % (os.path.basename(p), rc_.get("text")),
                          {"kind": "impl-counterexample", "script": ["surrdrv mkckpt %s %d %d" % (fam, nl, ns), "surrdrv readcheck"]})
            nviol += 1
    t1 = time.time()
    tcounts, toff = torn_check(ctx, torn_files)
    t_torn = time.time() - t1
    tkeys = {}
    for o in toff:
        key = (K_ACCEPT if o["outcome"] == "accepted" else K_NOTRT) + o["section"]
        tkeys.setdefault(key, []).append(o)
    for key, lst in tkeys.items():
        o = lst[0]
        corpus_copy = os.path.join(vlib.ROOT, "corpus", PID)
        rep = {"kind": "impl-counterexample", "hypothesis": "H-TORN", "file": o["file"], "prefix_length": o["L"], "file_size": o["size"],
               "gridlen": o["gridlen"], "observed": o["text"], "expected": "throw std::runtime_error", "count": len(lst),
               "script": ["head -c %d %s > torn.bin" % (o["L"], o["file"]), "surrdrv(asan) readcheck torn.bin"], "corpus": corpus_copy}
        if res.violation(key, "H-TORN fails for the real reader: the first %d of %d bytes of a checkpoint (%s section) give '%s' instead of "
                         "std::runtime_error [%d prefixes]" % (o["L"], o["size"], o["section"], o["text"][:120], len(lst)), rep):
            nviol += 1

    # the model must explain what was observed
    if corr_bad and not res.violations:
        res.violation("correspondence", "model and implementation disagree on %d processes, e.g. %s: %s" % (len(corr_bad), corr_bad[0][0], corr_bad[0][1][:300]),
                      {"kind": "correspondence-break", "correspondence": "Model.Checkpoint.follow / recover vs constructCommon under killshim",
                       "examples": [list(x) for x in corr_bad[:10]], "cases": os.path.join(ctx.wd, "model_cases.txt")}, no_input=True)
    elif corr_bad:
        res.coverage["correspondence_breaks_alongside_violations"] = [list(x) for x in corr_bad[:5]]
    # the code variant the model recognises: the as-coded variants carry the refutation theorems
    if variant[0] == "0" and K_BACKUP not in stats["by_key"] and not only and not all(getattr(x, "light", False) for x in all_sc):
        res.violation(K_BACKUP, "the observed operations are those of the procedure AS CODED (backup stream opened under the main name; "
                      "theorem c17_as_coded_refuted) but no kill point exposed it", {"kind": "correspondence-break", "variant": variant}, no_input=True)
    if proof_broken and not res.violations:
        res.violation("proof", "proof obligations of Properties_C17.v no longer check (%d/%d) %s" %
                      (props["discharged"], props["obligations"], res.coverage["forbidden_tokens"][:2]),
                      {"kind": "proof-break", "theorems": props["theorems"], "log": props["log"][-3000:]}, no_input=True)
    if not ok_ext and not res.violations:
        res.violation("extraction", "extraction of the model failed", {"kind": "proof-break", "log": elog[-2000:]}, no_input=True)

    # coverage
    distinct = set()
    for sc in all_sc:
        for c in sc.cases:
            if c.get("not_killed"):
                continue
            # non-trivial: the kill hit a write-side operation or left a file that is not a complete checkpoint
            h = hashlib.sha256((c["cur"] or b"-") + b"|" + (c["old"] or b"-")).hexdigest()[:12]
            op = next((o for o in sc.ops if o["idx"] == c["k"]), None)
            if op and (op["kind"] in ("openw", "write") or (op["kind"] == "close" and op["detail"].endswith(":w"))):
                distinct.add((sc.name, h, c["ncalls1"]))
    samples = []
    for sc in all_sc[:3]:
        for c in sc.cases[:400:97]:
            if c.get("not_killed"):
                continue
            samples.append({"scenario": sc.name, "config(family,budget,batch,njobs)": list(sc.cfg), "kill_at_operation": c["k"], "when": c["when"],
                            "calls_before_kill": c["ncalls1"], "cur_bytes": None if c["cur"] is None else len(c["cur"]),
                            "old_bytes": None if c["old"] is None else len(c["old"]), "reader_on_cur": c["rc_cur"].get("text", c["rc_cur"]["status"])[:80],
                            "restart": c["restart"]})
    res.coverage.update({
        "evaluations": stats["kills"], "distinct_nontrivial": len(distinct),
        "rule": "for each configuration (family, budget, batch, njobs) an unkilled reference run records the file operations; every operation index k is "
                "then used as a kill point (before / after the operation; writes also torn after 0, 1, half, len-1 bytes%s; the first write of a fresh "
                "run also at every 8th byte); second-level scenarios "
                "restart from the files left by a kill between two checkpoints and kill the restarted process the same way.  After each kill: "
                "files classified (bytes, real reader, model reader), restart in a fresh process, call logs compared.  non-trivial = the kill "
                "operation is a write-side operation (open-truncate, write, close of a written stream); distinct by (scenario, hash of both "
                "files after the kill, number of model calls before the kill)" % (", quarter points, 16, len-9, and at EVERY byte for the first three checkpoints" if tier == "thorough" else ""),
        "samples": samples[:8],
        "programs": len(all_sc), "traces_validated_against_impl": n_corr_ok, "disagreements_checked": len(corr_bad),
        "correspondence": {"processes_followed_by_model": n_corr_ok, "breaks": len(corr_bad), "code_variant_recognised":
                           {"recognised": variant != "??", "backup_stream_under_backup_name": variant[0] == "1", "initial_checkpoint_skipped_after_main_recovery": variant[1] == "1"}},
        "input_distribution": {"configurations": [list(s.cfg) for s in scenarios], "second_level_scenarios": [s.name for s in second],
                               "kill_cases": stats["kills"], "kill_point_beyond_end_of_run": stats["not_killed"], "child_processes": ctx.nchild,
                               "file_classes_after_kill(cur|old)": stats["classes"]},
        "direct_property_failures_by_key": stats["by_key"],
        "hypotheses_checked": {"H-TORN": dict(tcounts, sample_files=[os.path.basename(f) for f, _ in torn_files],
                                              offenders_by_key={k: len(v) for k, v in tkeys.items()})},
        "wall_kill_phase_s": round(t_kill, 1), "wall_torn_phase_s": round(t_torn, 1), "stale_corpus_files_skipped": stale_corpus,
    })
    res.assumptions = ASSUMPTIONS
    return stats


def replay(path):
    """re-runs the recorded input on the current tree: the configuration of the replay file with all its kill points (the
    recorded one included), or the recorded torn prefix file for an H-TORN replay"""
    rp = json.load(open(path))
    seed = rp.get("seed", 1)
    res = vlib.Result(PID, "quick", seed, LEVEL)
    if rp.get("hypothesis") == "H-TORN" and os.path.exists(rp.get("file", "")):
        ctx = Ctx(res, "quick", seed)
        counts, off = torn_check(ctx, [(rp["file"], int(rp.get("gridlen", 0)))])
        for o in off[:1]:
            key = (K_ACCEPT if o["outcome"] == "accepted" else K_NOTRT) + o["section"]
            res.violation(key, "H-TORN fails: the first %d of %d bytes give '%s' [%d prefixes]" % (o["L"], o["size"], o["text"][:120], len(off)),
                          {"kind": "impl-counterexample", "hypothesis": "H-TORN", "file": o["file"], "prefix_length": o["L"], "gridlen": o["gridlen"]})
        res.coverage.update({"evaluations": counts["prefixes"], "distinct_nontrivial": counts["prefixes"], "rule": "replay of one H-TORN sample file",
                             "samples": [rp["file"]], "explanation": "replay"})
        return res.finish()
    if "cfg" in rp:
        run(res, "quick", seed, only_cfg=tuple(rp["cfg"]))
    else:
        run(res, "quick", seed)
    return res.finish()
