"""C12 — const operations on one grid are safe to call concurrently (acceleration mode accel_none).

Level: proof (partial).  Theorems (coq/Props/Properties_C12.v): the commutation of read-only operations under every
interleaving (unbounded), the syntactic footprint obligation over the REGENERATED coq/gen/ConstFootprint.v
(translator/footprint.py, clang AST of the current sources), the refutation of the property for the lazily rebuilt
wavelet cache and the safety of the locked variant.  Whether the BINARY races is runtime behaviour: harness/concdrv.cpp
runs N in {2,4,8} threads over ONE const TasmanianSparseGrid& (all families, state classes fresh / loaded / refined /
zero outputs / read from file) under ThreadSanitizer, barrier-aligned, the grid built freshly before every burst, and
compares every result byte for byte with the call executed alone."""
import hashlib
import importlib
import json
import os
import re
import sys

import gridlib as gl
import vlib

LEVEL = "other"
PID = "C12"
WORK = os.path.join(vlib.BUILD, "work", PID)

KNOWN_WAVELET = "race:GridWavelet::inter_matrix:const-weight-queries"
KNOWN_LGAMMA = "race:libm-signgam:lgamma-in-conformal-transform"

TRUSTED = [
    "Coq 8.16.1 kernel (vm_compute in c12_footprints and two Examples; no native_compute)",
    "axioms: none (Print Assumptions: Closed under the global context for all 6 theorems)",
    "translator/footprint.py: syntactic classification over clang 14's JSON AST of the current sources (rules F1-F6 restated in the "
    "header of coq/gen/ConstFootprint.v); pinned truth values of the acceleration-dependent conditions under accel_none",
    "the C++ type checker: a const method cannot modify a non-mutable member without const_cast or a pointer member "
    "(exactly the three escapes the footprint lists)",
    "ThreadSanitizer (gcc 12, happens-before detector) and harness/concdrv.cpp; libstdc++ itself is not instrumented",
    "modelled, not verified: the interleaving semantics is sequentially consistent at the granularity of the atomic steps; "
    "nothing is proved about the C++ memory model or about the binary",
]

WEIGHT_OPS = ["iw", "qw", "dw"]


def regenerate_footprint():
    """translator: coq/gen/ConstFootprint.v from the working tree -> (ok, message, facts)"""
    tdir = os.path.join(vlib.ROOT, "translator")
    if tdir not in sys.path:
        sys.path.insert(0, tdir)       # a real import: the worker processes of the translator must be able to import it too
    mod = importlib.import_module("footprint")
    out = os.path.join(vlib.COQDIR, "gen", "ConstFootprint.v")
    try:
        cfg = vlib.build_lib("plain")["cfg"]
        text, facts = mod.generate(vlib.REPO, cfg)
    except mod.TranslatorError as e:
        return False, str(e), None
    with vlib.Lock("coq"):
        mod.write_if_changed(out, text)
    return True, "", facts


def offending(facts):
    """touches that are not read-only by syntax -> list of (class, method, file, line, description, excused)"""
    out = []
    for m in facts["listed"]:
        for kind, c, f, w, lk in m["touches"]:
            if kind == "mutable":
                if (not w) or lk or not m["unlocked"]:
                    continue
                out.append((m["cls"], m["name"], m["file"], m["line"], "writes mutable member %s::%s without a lock" % (c, f),
                            (c, f) == ("TasGrid::GridWavelet", "inter_matrix")))
            elif kind == "constcast":
                out.append((m["cls"], m["name"], m["file"], m["line"], "uses const_cast", False))
            else:
                out.append((m["cls"], m["name"], m["file"], m["line"], "calls the non-const method %s through a member reached from this" % c, False))
    return out


# ----------------------------------------------------------------------------------------------- burst generation
STATE_CLASSES = ["fresh", "loaded", "refined", "refined-loaded", "zero-outputs", "from-file"]


def strip_slot(cmd):
    return cmd.replace(" g ", " ", 1)


def refine_line(r, spec):
    fam, o = spec["family"], spec["outs"]
    out = r.choice([-1] + list(range(o)))
    if fam in ("localp", "wavelet"):
        return "refsurp %s %s %d" % (vlib.hexf(r.choice([0.0, 1e-3, 1e-1, 1.0])), r.choice(gl.REFINE), out)
    if fam == "sequence" and r.random() < 0.5:
        return "refsimple %s %d" % (vlib.hexf(r.choice([1e-4, 1e-2, 1e-1])), out)
    return "refaniso %s %d %d" % (r.choice(["iptotal", "ipcurved", "iphyperbolic"]), r.randint(1, 5), max(out, 0) if fam == "global" else out)


def gen_burst(r, bid, family, state, nthreads):
    spec = gl.rand_spec(r, family=family, max_dims=2, limits_prob=0.1)
    if family == "global":
        # refinement and updates need a nested rule; keep the tensor rules small (ThreadSanitizer is slow)
        if state in ("refined", "refined-loaded"):
            spec["rule"] = r.choice(["clenshaw-curtis", "leja", "rleja", "fejer2", "min-delta", "gauss-patterson", "rleja-odd"])
            spec.pop("ab", None)
        spec["depth"] = min(spec["depth"], 3)
    if family == "wavelet":
        spec["depth"] = min(spec["depth"], 2 if spec["dims"] == 1 else 1)
    if family == "localp":
        spec["depth"] = min(spec["depth"], 3)
    spec["outs"] = 0 if state == "zero-outputs" else max(1, spec["outs"])
    setup = [strip_slot(gl.make_cmd(spec))]
    trans = None
    if r.random() < 0.2:
        trans = gl.rand_transform(r, spec)
        setup.append(strip_slot(gl.trans_cmd(trans)))
    if family == "global" and r.random() < 0.1 and not spec["rule"].startswith(("gauss-laguerre", "gauss-hermite")):
        setup.append("conformal " + " ".join(str(r.randint(0, 4)) for _ in range(spec["dims"])))
    fn = r.choice(["hash", "poly", "smooth"])
    if state in ("loaded", "refined", "refined-loaded", "from-file"):
        setup.append("load " + fn)
    if state in ("refined", "refined-loaded") or (state == "from-file" and r.random() < 0.4):
        setup.append(refine_line(r, spec))
    if state == "refined-loaded":
        setup.append("load " + fn)
    if state == "from-file":
        setup.append("roundtrip " + r.choice(["bin", "ascii"]))
        if r.random() < 0.3:
            setup.append("load " + fn)          # loaded again after the read: the wavelet matrix is dropped again
    if state in ("loaded", "refined-loaded") and r.random() < 0.15:
        setup.append("copyof")
    has_values = state not in ("fresh", "zero-outputs")
    ops_any = ["iw", "qw", "dw", "points", "needed", "loaded", "hbasis", "hsparse", "hsupport", "hint", "write", "meta"]
    if family in ("global", "sequence"):
        ops_any.append("polyi")
    ops_val = ["eval", "evalb", "evalf", "integ", "diff", "values", "coef"]
    if family in ("global", "sequence", "fourier"):
        ops_val.append("estaniso")
    if state == "zero-outputs":
        ops_any += ["eval", "evalb", "integ"]
        ops_any.remove("loaded")     # getLoadedPoints() of a grid without outputs overruns its zero-sized buffer even when run alone (not C12)
    menu = ops_any + (ops_val * 2 if has_values else [])
    d = spec["dims"]
    lines = ["burst " + bid] + ["s " + l for l in setup] + ["threads %d" % nthreads]
    kinds = []
    for t in range(nthreads):
        n = r.randint(2, 5)
        mine = [r.choice(menu) for _ in range(n)]
        if r.random() < 0.6:
            mine[0] = r.choice(WEIGHT_OPS)       # first-call effects: the lazily built caches are absent now
        r.shuffle(mine[1:])
        for k in mine:
            arg = ""
            if k in ("eval", "evalf", "iw", "dw", "diff"):
                arg = " x: " + " ".join(vlib.hexf(v) for v in gl.rand_points(r, spec, 1, trans))
            elif k in ("evalb", "hbasis", "hsparse"):
                arg = " x: " + " ".join(vlib.hexf(v) for v in gl.rand_points(r, spec, r.randint(1, 4), trans))
            elif k == "write":
                arg = " " + r.choice(["bin", "ascii"])
            lines.append("op %d %s%s" % (t, k, arg))
            kinds.append(k)
    lines.append("end")
    return {"id": bid, "family": family, "state": state, "threads": nthreads, "lines": lines, "kinds": kinds, "spec": spec}


WITNESS = {"id": "witnessF10", "family": "wavelet", "state": "loaded", "threads": 2, "kinds": ["iw", "iw"], "spec": {},
           "lines": ["burst witnessF10", "s make wavelet 2 1 1 1", "s load hash", "threads 2",
                     "op 0 iw x: 0x1p-2 0x1p-3", "op 1 iw x: 0x1p-1 -0x1p-2", "end"]}

WITNESS2 = {"id": "witnessLgamma", "family": "global", "state": "loaded", "threads": 2, "kinds": ["points", "qw", "evalb", "hbasis"], "spec": {},
            "lines": ["burst witnessLgamma", "s make global 2 1 2 level clenshaw-curtis", "s conformal 2 3", "s load poly", "threads 2",
                      "op 0 points", "op 1 qw", "op 0 evalb x: 0x1p-2 0x1p-3", "op 1 hbasis x: 0x1p-1 -0x1p-2", "end"]}


# ----------------------------------------------------------------------------------------------- running and parsing
FRAME = re.compile(r"^\s+#\d+\s+(.*?)\s+(/\S+?):(\d+)")


def parse_tsan(path):
    """-> list of dict(kind, frames=[(func, file, line)], summary)"""
    try:
        txt = open(path, errors="replace").read()
    except OSError:
        return []
    reps = []
    for blk in txt.split("=================="):
        m = re.search(r"(?:WARNING|ERROR): ThreadSanitizer: ([^\n(]+)", blk)
        if not m:
            continue
        frames = []
        for line in blk.split("\n"):
            fm = FRAME.match(line)
            if fm:
                frames.append((fm.group(1), fm.group(2), int(fm.group(3))))
        sm = re.search(r"SUMMARY: ThreadSanitizer: (.*)", blk)
        lm = re.search(r"Location is ([^\n]*)", blk)
        reps.append({"kind": m.group(1).strip(), "frames": frames, "summary": sm.group(1).strip() if sm else "",
                     "location": lm.group(1).strip() if lm else ""})
    return reps


def report_key(rep):
    lib = [f for f in rep["frames"] if "/SparseGrids/" in f[1] or "/DREAM/" in f[1] or "/Addons/" in f[1]]
    text = " ".join(f[0] for f in lib)
    if re.search(r"GridWavelet::(buildInterpolationMatrix|getInterpolationWeights|getQuadratureWeights|getDifferentiationWeights)", text) \
            and re.search(r"WaveletBasisMatrix|buildInterpolationMatrix|inter_matrix", text):
        return KNOWN_WAVELET
    if "global 'signgam'" in rep.get("location", "") and re.search(r"mapConformal\w+", text):
        return KNOWN_LGAMMA
    tag = "race" if "data race" in rep["kind"] else "tsan-" + re.sub(r"\W+", "-", rep["kind"].split(" on ")[0].strip())
    if lib:
        # innermost library function that is a member of a TasGrid class, else the innermost library frame
        named = [f for f in lib if "TasGrid::" in f[0]]
        f = (named or lib)[0]
        fn = re.sub(r"\(.*", "", f[0]).replace("TasGrid::", "")
        return "%s:%s" % (tag, fn)
    return tag + ":outside-library"


def run_variant(drv, bursts, variant, tag):
    """runs the bursts (in up to 4 driver processes side by side when there are many); -> (rc, results by burst id, stderr)"""
    import concurrent.futures as cf
    nchunk = 1 if len(bursts) <= 150 else 4
    chunks = [bursts[i::nchunk] for i in range(nchunk)]
    env = dict(os.environ)
    env["TSAN_OPTIONS"] = "exitcode=66 halt_on_error=0 report_signal_unsafe=0 second_deadlock_stack=1"

    def one(ci):
        wd = os.path.join(WORK, tag if nchunk == 1 else "%s-%d" % (tag, ci))
        os.makedirs(wd, exist_ok=True)
        for f in os.listdir(wd):
            if f.endswith(".tsan") or f.endswith(".tsg"):
                os.remove(os.path.join(wd, f))
        sp = os.path.join(wd, "bursts.txt")
        with open(sp, "w") as fh:
            for b in chunks[ci]:
                fh.write("\n".join(b["lines"]) + "\n")
        rc, so, se = vlib.run([drv, sp, wd, "120"], timeout=3600, env=env)
        open(os.path.join(wd, "bursts.out"), "w").write(so)
        return ci, wd, rc, so, se
    out, rcs, errs = {}, 0, ""
    with cf.ThreadPoolExecutor(nchunk) as ex:
        for ci, wd, rc, so, se in ex.map(one, range(nchunk)):
            rcs = rcs or rc
            errs += se[-300:]
            cur = None
            for line in so.split("\n"):
                t = line.split()
                if not t:
                    continue
                if t[0] == "burst":
                    cur = {"diff": [], "same": 0, "exc": 0, "setup_exc": None, "exit": None, "detail": [], "refdone": False, "wd": wd}
                    out[t[1]] = cur
                elif cur is None:
                    continue
                elif t[0] == "r":
                    if t[2] == "same":
                        cur["same"] += 1
                    else:
                        cur["diff"].append((int(t[1]), t[3]))
                    if len(t) > 4 and t[4] == "exc":
                        cur["exc"] += 1
                elif t[0] == "p":
                    cur["refdone"] = True
                elif t[0] == "d":
                    cur["detail"].append(line[:400])
                elif t[0] == "x" and t[1] == "setup":
                    cur["setup_exc"] = " ".join(t[2:])
                elif t[0] == "g":
                    cur["grid"] = dict(x.split("=") for x in t[1:])
                elif t[0] == "e":
                    cur["exit"] = t[2]
    for b in bursts:
        o = out.get(b["id"])
        if o is not None:
            o["tsan"] = parse_tsan(os.path.join(o["wd"], b["id"] + ".tsan")) if variant == "tsan" else []
    return rcs, out, errs


def judge(res, bursts, results, variant, stats, wavelet_hit):
    """one variant's observations -> violations"""
    for b in bursts:
        o = results.get(b["id"])
        replay = {"kind": "impl-counterexample", "script": b["lines"], "variant": variant}
        where = "[%s %s, %d threads, %s build: %s]" % (b["family"], b["state"], b["threads"], variant, b["lines"][1][2:])
        if o is None or o["exit"] is None:
            res.violation("driver-no-result", "concdrv produced no result for burst %s %s" % (b["id"], where), replay)
            continue
        if o["setup_exc"] is not None:
            stats["setup_rejected"] += 1
            continue
        if not o["refdone"]:
            # the calls executed ALONE on the reference grid already crashed / hung: not a statement about concurrency
            stats["sequential_crash"].append("%s %s: %s" % (b["id"], o["exit"], " ; ".join(b["lines"][1:4])))
            continue
        stats["ran_" + variant] += 1
        keys = []
        for rep in o["tsan"]:
            k = report_key(rep)
            keys.append((k, rep))
        stats["tsan_reports"] += len(keys)
        known_here = any(k == KNOWN_WAVELET for k, _ in keys) or (b["id"] in wavelet_hit)
        if any(k == KNOWN_WAVELET for k, _ in keys):
            wavelet_hit.add(b["id"])
        seen = set()
        for k, rep in keys:
            if k in seen:
                continue
            seen.add(k)
            lib = [f for f in rep["frames"] if "/SparseGrids/" in f[1]][:6]
            if k == KNOWN_WAVELET:
                what = ("ThreadSanitizer: %s between concurrent const weight queries of a Wavelet grid: GridWavelet::getInterpolationWeights / "
                        "getQuadratureWeights / getDifferentiationWeights rebuild the mutable inter_matrix (buildInterpolationMatrix) without "
                        "synchronisation %s" % (rep["kind"], where))
            elif k == KNOWN_LGAMMA:
                what = ("ThreadSanitizer: %s on the libm global `signgam`: the conformal-transform helpers (mapConformalCanonicalToTransformed / "
                        "mapConformalTransformedToCanonical / mapConformalWeights, TasmanianSparseGrid.cpp) call std::lgamma, which is not "
                        "thread safe in glibc; concurrent const calls on a grid with setConformalTransformASIN race on it (results are not affected) %s"
                        % (rep["kind"], where))
            else:
                what = "ThreadSanitizer: %s in %s %s" % (rep["kind"], "; ".join("%s (%s:%d)" % (f[0][:80], os.path.basename(f[1]), f[2]) for f in lib[:3]), where)
            res.violation(k, what, dict(replay, tsan_summary=rep["summary"], frames=["%s %s:%d" % f for f in lib]))
        if o["exit"] not in ("exit=0", "exit=66"):
            key = KNOWN_WAVELET if (known_here and b["family"] == "wavelet") else "crash:%s:%s" % (b["family"], o["exit"])
            res.violation(key, "concurrent const calls ended with %s %s" % (o["exit"], where), replay)
        if o["exit"] == "exit=66" and not keys:
            res.violation("tsan-unparsed", "ThreadSanitizer reported (exit code 66) but no report could be parsed %s" % where, replay)
        if o["diff"]:
            kinds = sorted(set(k for _, k in o["diff"]))
            key = KNOWN_WAVELET if (known_here and b["family"] == "wavelet") else "result-differs:%s:%s" % (b["family"], kinds[0])
            res.violation(key, "%d of %d concurrent const calls returned something else than when run alone (%s) %s; %s" %
                          (len(o["diff"]), len(o["diff"]) + o["same"], ",".join(kinds), where, " | ".join(o["detail"][:2])[:400]),
                          dict(replay, differing_ops=o["diff"]))
        stats["ops_compared"] += o["same"] + len(o["diff"])
        stats["ops_raising_same_exception"] += o["exc"]


def run(res, tier, seed, replay_script=None):
    os.makedirs(WORK, exist_ok=True)
    tr_ok, tr_msg, facts = regenerate_footprint()
    props = vlib.coq_props(PID)
    vlib.proof_coverage(res, PID, props, "python3 translator/footprint.py $REPO coq/gen/ConstFootprint.v && cd coq && make Props/Properties_C12.vo "
                                         "&& coqc -Q . TV Props/Properties_C12.v", TRUSTED)
    proof_broken = (not tr_ok) or (not props["ok"]) or bool(res.coverage["forbidden_tokens"])
    tdrv = vlib.build_driver("concdrv", "tsan")
    pdrv = vlib.build_driver("concdrv", "plain")

    r = vlib.rng(seed, PID)
    nb = {"quick": 60, "thorough": 2000}[tier]
    off = offending(facts) if facts else []
    bad_families = set()
    for c, m, f, ln, what, excused in off:
        if not excused:
            fam = {"GridGlobal": "global", "GridSequence": "sequence", "GridLocalPolynomial": "localp", "GridWavelet": "wavelet",
                   "GridFourier": "fourier"}.get((c or "").split("::")[-1])
            if fam:
                bad_families.add(fam)
    if proof_broken:
        nb *= 3      # widened search for a concrete failing input
    bursts = []
    if replay_script:
        bursts = [{"id": replay_script[0].split()[1], "family": (replay_script[1].split() + ["?", "?", "?"])[2], "state": "replay",
                   "threads": 2, "lines": replay_script, "kinds": [l.split()[2] for l in replay_script if l.startswith("op ")], "spec": {}}]
        for l in replay_script:
            if l.startswith("threads"):
                bursts[0]["threads"] = int(l.split()[1])
        nb = 0
    else:
        bursts.append(dict(WITNESS))       # corpus first (corpus/C12/*.txt hold the same bursts)
        bursts.append(dict(WITNESS2))
    for i in range(nb):
        fams = gl.FAMILIES
        if bad_families and i % 2 == 0:
            fams = sorted(bad_families)         # aim at the classes whose footprint obligation broke
        fam = fams[i % len(fams)] if not bad_families else r.choice(fams)
        state = STATE_CLASSES[(i // len(gl.FAMILIES)) % len(STATE_CLASSES)]
        nthreads = [2, 4, 8][(i // (len(gl.FAMILIES) * len(STATE_CLASSES))) % 3] if tier == "thorough" else r.choice([2, 2, 4, 4, 8])
        bursts.append(gen_burst(r, "b%d" % i, fam, state, nthreads))

    stats = {"setup_rejected": 0, "ran_tsan": 0, "ran_plain": 0, "tsan_reports": 0, "ops_compared": 0, "ops_raising_same_exception": 0, "sequential_crash": []}
    wavelet_hit = set()
    rc1, rt, se1 = run_variant(tdrv, bursts, "tsan", "tsan")
    judge(res, bursts, rt, "tsan", stats, wavelet_hit)
    try:
        os.utime(os.path.dirname(os.path.dirname(pdrv)))     # keep our build tree among the recently used ones (vlib prunes the others)
    except OSError:
        pass
    rc2, rp, se2 = run_variant(pdrv, bursts, "plain", "plain")
    judge(res, bursts, rp, "plain", stats, wavelet_hit)
    if rc1 != 0 or rc2 != 0:
        res.violation("concdrv-crash", "concdrv exited with %d / %d: %s" % (rc1, rc2, (se1 + se2)[-300:]), {"kind": "impl-counterexample", "script": []})

    # ---- the syntactic obligation: each offending const method is a violation; excused ones are the known finding
    for c, m, f, ln, what, excused in off:
        if excused:
            hit = [b for b in bursts if b["id"] in wavelet_hit]
            res.violation(KNOWN_WAVELET, "footprint: const method %s::%s (%s:%d) %s; reachable from the public const API under accel_none"
                          % (c, m, f, ln, what), {"kind": "impl-counterexample", "script": (hit[0]["lines"] if hit else WITNESS["lines"])},
                          no_input=not hit)
        elif not res.violations:
            res.violation("footprint:%s::%s" % ((c or "").replace("TasGrid::", ""), m),
                          "const method %s::%s (%s:%d) %s and is reachable from the public const API under accel_none; no race was observed at run time"
                          % (c, m, f, ln, what), {"kind": "proof-break", "method": "%s::%s" % (c, m), "file": f, "line": ln, "what": what}, no_input=True)
    if not tr_ok and not res.violations:
        res.violation("translator", "translator/footprint.py rejects the source: " + tr_msg[:600], {"kind": "proof-break", "translator": tr_msg}, no_input=True)
    if proof_broken and not res.violations:
        res.violation("proof", "proof obligations of Properties_C12.v no longer check (%d/%d) %s" %
                      (props["discharged"], props["obligations"], res.coverage["forbidden_tokens"][:2]),
                      {"kind": "proof-break", "theorems": props["theorems"], "log": props["log"][-3000:]}, no_input=True)

    dist, opk = {}, {}
    for b in bursts:
        dist["%s/%s/%d" % (b["family"], b["state"], b["threads"])] = dist.get("%s/%s/%d" % (b["family"], b["state"], b["threads"]), 0) + 1
        for k in b["kinds"]:
            opk[k] = opk.get(k, 0) + 1
    nontrivial = set()
    for b in bursts:
        o = rt.get(b["id"])
        if o and o["setup_exc"] is None and o["exit"] is not None and len(b["kinds"]) >= 4 and b["threads"] >= 2:
            nontrivial.add(hashlib.sha256("\n".join(b["lines"][1:]).encode()).hexdigest())
    res.coverage.update({
        "explanation": "proof (partial): six Coq theorems (read-only operations commute under every interleaving; footprint obligation over the "
                       "regenerated clang-AST facts; refutation for the lazily rebuilt wavelet cache; safety of the locked variant) + "
                       "ThreadSanitizer bursts over one const grid with exact comparison against stand-alone calls. The existence of a data "
                       "race in the binary is runtime behaviour and is only sampled.",
        "evaluations": len(bursts) * 2, "distinct_nontrivial": len(nontrivial),
        "rule": "a burst = fresh grid (family x state class fresh/loaded/refined/refined-loaded/zero-outputs/from-file, random rule/depth/order/"
                "transform) + N in {2,4,8} threads each executing 2-5 random const calls (60% start with a weight query), run once under "
                "ThreadSanitizer and once in the plain build; non-trivial = setup accepted, >= 2 threads and >= 4 calls; distinct by script hash",
        "samples": [b["lines"] for b in bursts[2:4]] or [bursts[0]["lines"]],
        "bursts": len(bursts), "bursts_run_tsan": stats["ran_tsan"], "bursts_run_plain": stats["ran_plain"],
        "setup_rejected_by_library": stats["setup_rejected"], "tsan_reports": stats["tsan_reports"],
        "skipped_crash_when_run_alone": stats["sequential_crash"][:20],
        "const_calls_compared_exact": stats["ops_compared"], "calls_raising_the_same_exception": stats["ops_raising_same_exception"],
        "input_distribution": dist, "op_kinds": opk,
        "footprint": None if not facts else {"mutable_members": len(facts["mutable_members"]), "public_const_entries": facts["entries"],
                                             "reachable_const_methods": facts["reachable_const"], "without_any_touch": facts["clean"],
                                             "listed": ["%s::%s" % (m["cls"], m["name"]) for m in facts["listed"]],
                                             "not_read_only_by_syntax": ["%s::%s %s" % (c, m, w) for c, m, f, ln, w, e in off]},
        "translator_ok": tr_ok,
    })
    res.assumptions = [
        "acceleration mode accel_none (the documented strictly const-correct mode); GPU/BLAS branches are pruned from the footprint by pinned conditions",
        "the footprint is syntactic: const-correctness of the non-mutable members is the C++ type checker's",
        "ThreadSanitizer sees only the schedules that ran; absence of a report is not absence of a race",
    ]


def replay(path):
    rp = json.load(open(path))
    res = vlib.Result(PID, "quick", rp.get("seed", 1), LEVEL)
    run(res, "quick", rp.get("seed", 1), replay_script=rp.get("script") or WITNESS["lines"])
    return res.finish()
