"""C15 — DREAM sampling is memory-safe, stays in the domain and keeps consistent books.

Decided by: theorems of coq/Props/Properties_C15.v about the model coq/Model/Dream.v (generic in the arithmetic and
in the environment threaded through the impure callbacks), tied to DREAM/tsgDreamSample.hpp + tsgDreamState.cpp by a
bit-exact correspondence: the extracted model, instantiated with IEEE binary64, must reproduce the implementation's
callback sequence (rng draws, differential update, independent update, domain test, pdf batches) and, after every
run, the chain state, cached pdf values, history, pdf history, acceptance counter and stream position.
The statement of the property is also evaluated directly on the implementation's observations, independently of the
model (AddressSanitizer build; a Python re-evaluation of every iteration from the logged values): this is the
failing-input search."""
import concurrent.futures as cf
import hashlib
import json
import math
import os
import re

import vlib

LEVEL = "proof"
PID = "C15"
KEY_KINDEX = "kindex-unclamped.k-draw-1.0"

TRUSTED = [
    "Coq 8.16.1 kernel (vm_compute used in the refutation witness and two Examples; no native_compute)",
    "axioms: none (Print Assumptions: Closed under the global context for all 17 theorems)",
    "extraction: ExtrOcamlBasic only (bool, option, list, prod, unit, sumbool -> OCaml); nat/Z/positive stay Coq datatypes",
    "OCaml glue ocaml/dream_main.ml + common.ml: instantiates the number type with OCaml floats (IEEE binary64: +. -. *. /. > >=), "
    "log/sqrt/cos/sin = OCaml's, i.e. glibc libm, the same functions the C++ code calls (bit-identical; any disagreement would "
    "show as a correspondence mismatch); (size_t) conversion = int_of_float on [0, 4e18); W = (stream position, counter of the "
    "stateful differential update); pdf / domain test / user update = finite tables recorded by the C++ driver",
    "C++ driver harness/dreamdrv.cpp (forks one child per case), g++ -O1 -ffp-contract=off -fsanitize=address,undefined",
    "modelled, not verified: SampleDREAM<form>() (both overloads), applyUniformUpdate, applyGaussianUpdate, TasmanianDREAM "
    "setState (both overloads) / setPDFvalues (both overloads) / clearPDFvalues / clearHistory / expandHistory / getIJKdelta / "
    "getChainState / getPDFvalue / saveStateHistory; the model follows line 449 as repaired (commit 26ea3d4).  Not modelled: posterior(), the likelihood classes, the C wrapper tsgDreamSample, tsgCoreUniform01/rand()",
    "H-RNG: get_random01 returns values in [0,1]; for binary64, 0 <= (size_t)(r*n) <= n follows from monotonicity of rounding "
    "(proved over Q for floor: c15_floor_meets_hypothesis); pdf and inside are pure (no side effects, point-wise)",
]

INF = float("inf")


# ------------------------------------------------------------------------------------------------- numbers
def fx(t):
    if t in ("nan", "-nan"):
        return float("nan")
    if t in ("inf", "-inf"):
        return float(t)
    return float.fromhex(t)


def hx(v):
    return float(v).hex()


def hk(xs):
    return tuple(hx(v) for v in xs)


def same(a, b):
    return hx(a) == hx(b)


def samel(a, b):
    return len(a) == len(b) and all(same(x, y) for x, y in zip(a, b))


def fdiv(a, b):
    if b == 0.0:
        if a != a or a == 0.0:
            return float("nan")
        return math.copysign(INF, a) * math.copysign(1.0, b)
    try:
        return a / b
    except OverflowError:
        return math.copysign(INF, a) * math.copysign(1.0, b)


def flog(u):
    if u != u:
        return u
    if u == 0.0:
        return -INF
    if u < 0.0:
        return float("nan")
    return math.log(u)


def fmul(a, b):
    try:
        return a * b
    except OverflowError:
        return math.copysign(INF, a) * math.copysign(1.0, b)


def fsqrt(a):
    if a != a:
        return a
    if a < 0:
        return float("nan")
    return INF if a == INF else math.sqrt(a)


def ftrig(f, t):
    if t != t or abs(t) == INF:
        return float("nan")
    return f(t)


# ------------------------------------------------------------------------------------------------- generator
ENDPOINTS = [0.0, 1.0, 2.0 ** -53, 1.0 - 2.0 ** -53]


def dom_inside(kind, c, x):
    """mirror of struct Dom in harness/dreamdrv.cpp (used for the direct evaluation of 'recorded samples are inside')"""
    if kind == "all":
        return True
    if kind == "none":
        return False
    if kind == "box":
        return not any(v < c[0] or v > c[1] for v in x)
    if kind == "half":
        return x[0] >= c[0]
    if kind == "lattice":
        v = x[0] * c[0]
        if v != v or abs(v) == INF:
            return False
        return math.fmod(math.floor(v), 2.0) == 0.0
    return True


def gen_case(r, idx, tier):
    n = r.choice([1, 2, 2, 3, 3, 4, 5, 6])
    d = r.choice([1, 1, 2, 2, 3])
    form = r.choice(["reg", "log"])
    pk = r.choice(["flat", "gauss", "gauss", "step", "step", "zeroout"])
    if pk == "flat":
        pc = [r.choice([1.0, 0.5, 2.0])] if form == "reg" else [r.choice([0.0, -1.5, 3.0])]
    elif pk == "gauss":
        pc = [r.choice([0.0, 0.5, -0.25]), r.choice([1.0, 0.5, 2.0])]
    elif pk == "step":
        pc = [r.choice([1.0, 2.0, 0.5, 4.0])]
    else:
        pc = list(r.choice([(-1.0, 1.0), (0.0, 2.0), (-0.5, 0.5)]))
    dk = r.choice(["all", "all", "none", "box", "box", "box", "half", "lattice"])
    if dk == "box":
        dc = list(r.choice([(-1.0, 1.0), (-2.0, 2.0), (0.0, 1.0), (-0.25, 0.25)]))
    elif dk == "half":
        dc = [r.choice([0.0, -1.0, 0.5])]
    elif dk == "lattice":
        dc = [r.choice([1.0, 2.0, 0.5])]
    else:
        dc = []
    uk = r.choice(["none", "shift", "twist", "libnone", "libuniform", "libuniform", "libgauss"])
    if uk == "shift":
        uc = [r.choice([0.125, -0.25, 0.5, 0.0, -1.0]) for _ in range(d)]
    elif uk == "twist":
        uc = [r.choice([0.5, -0.25, 1.0])]
    elif uk in ("libuniform", "libgauss"):
        uc = [r.choice([0.0, 0.25, 1.0, 0.0625])]
    else:
        uc = []
    fk = r.choice(["one", "p0", "p25", "p50", "p100", "seq", "seq", "rand"])
    fc = [r.choice([0.0, 0.5, 1.0, -0.5, 0.75, 2.0]) for _ in range(r.choice([1, 2, 3, 5]))] if fk == "seq" else []
    grid = [k / 8.0 for k in range(-16, 17)]

    def gen_state(anyw):
        x = []
        for _c in range(n):
            v = [r.choice(grid) for _ in range(d)]
            if not anyw:
                if dk == "box":
                    v = [r.choice([g for g in grid if dc[0] <= g <= dc[1]]) for _ in range(d)]
                elif dk == "half":
                    v[0] = r.choice([g for g in grid if g >= dc[0]])
                elif dk == "lattice":
                    v[0] = (2 * r.choice([-1, 0, 1]) + r.choice([0.0, 0.25, 0.5, 0.75])) / dc[0]
            x += v
        return x

    def gen_edit():
        """one public operation of TasmanianDREAM that edits the chain state or the caches"""
        k = r.choice(["setv", "setv", "setf", "setf", "setf", "pdfv", "pdfv", "pdff", "clearpdf", "clearhist", "expand"])
        if k == "setv":
            x = gen_state(r.random() < 0.1)
            if r.random() < 0.08:
                x = x + [0.5] if r.random() < 0.5 else x[:-1]      # wrong size: must throw and change nothing
            return ["setv"] + x
        if k == "setf":
            if r.random() < 0.6:
                return ["setf", "abs"] + gen_state(r.random() < 0.1)
            return ["setf", "rel", r.choice([0.5, 1.0, -1.0, 0.0])] + [r.choice([0.0, 0.125, -0.25, 0.5]) for _ in range(n * d)]
        if k == "pdfv":
            if r.random() < 0.6:
                return ["pdfv", "true"]
            m = n if r.random() < 0.8 else n + r.choice([-1, 1])
            return ["pdfv", "raw"] + [r.choice([0.5, 1.0, 0.25, -1.0, 0.0]) for _ in range(max(m, 0))]
        if k == "expand":
            return ["expand", r.choice([0, 1, 3])]
        return [k]

    # initial state: mostly inside the domain
    x0 = gen_state(r.random() < 0.1)
    ops = []
    if r.random() < 0.15:
        ops.append(["pdff"])
    nruns = r.choice([1, 1, 1, 2, 2, 3, 4])
    for q in range(nruns):
        if q > 0 and r.random() < 0.75:
            for _ in range(r.choice([1, 1, 2])):
                ops.append(gen_edit())
        ops.append(["run", r.choice([0, 0, 1, 2, 5, -1, -3]), r.choice([0, 1, 1, 2, 2, 5, -1, -2])])
    if r.random() < 0.1:
        ops.append(gen_edit())
    L = r.choice([7, 11, 23, 40, 64, 97])
    pend = r.choice([0.2, 0.25, 0.4, 0.6])
    rng = []
    for _ in range(L):
        q = r.random()
        if q < pend:
            rng.append(r.choice(ENDPOINTS))
        elif q < pend + 0.15:
            rng.append(r.choice([0.125, 0.25, 0.5, 0.75, 0.375, 2.0 ** -10]))
        else:
            rng.append(r.random())
    return {"id": "g%s" % idx, "form": form, "n": n, "d": d, "pdf": [pk] + pc, "dom": [dk] + dc, "upd": [uk] + uc,
            "diff": [fk] + fc, "x0": x0, "ops": ops, "rng": rng}


def norm_case(c):
    """accept the first corpus format (pre/runs) as well"""
    c = dict(c)
    if "ops" not in c:
        c["ops"] = ([["pdff"]] if c.get("pre") else []) + [["run", int(a), int(b)] for a, b in c.get("runs", [])]
    c["ops"] = [list(o) for o in c["ops"]]
    return c


def op_str(o):
    if o[0] in ("run", "expand"):
        return " ".join([o[0]] + ["%d" % int(v) for v in o[1:]])
    out = [o[0]]
    for v in o[1:]:
        out.append(v if isinstance(v, str) else hx(v))
    return " ".join(out)


def case_line(c):
    def sec(v):
        return " ".join([v[0]] + [hx(t) for t in v[1:]])
    return "dream %s %d %d pdf: %s dom: %s upd: %s diff: %s state: %s ops: %s rng: %s" % (
        c["form"], c["n"], c["d"], sec(c["pdf"]), sec(c["dom"]), sec(c["upd"]), sec(c["diff"]),
        " ".join(hx(v) for v in c["x0"]), " | ".join(op_str(o) for o in c["ops"]), " ".join(hx(v) for v in c["rng"]))


def runs_of(c):
    return [(int(o[1]), int(o[2])) for o in c["ops"] if o[0] == "run"]


WITNESS = {"id": "witnessF7", "form": "reg", "n": 3, "d": 2, "pdf": ["flat", 1.0], "dom": ["all"], "upd": ["none"], "diff": ["one"],
           "x0": [0.25, 0.5, 1.0, 2.0, 4.0, 8.0], "ops": [["run", 0, 1]], "rng": [0.5, 1.0, 0.25]}

# seeded change C15-2: the callback overload of setState forgot to invalidate the cached pdf values
RESTART = {"id": "restartCallback", "form": "reg", "n": 4, "d": 2, "pdf": ["gauss", 0.0, 1.0], "dom": ["box", -2.0, 2.0], "upd": ["libuniform", 0.25],
           "diff": ["p50"], "x0": [0.125, 0.0, -0.125, 0.25, 0.0, -0.25, 0.25, 0.125],
           "ops": [["run", 2, 3], ["setf", "abs", 1.5, -1.5, 1.75, -1.5, 2.0, -1.5, 1.25, -1.5], ["run", 0, 3]],
           "rng": [0.3125, 0.71875, 0.5, 0.9375, 0.125, 0.40625, 0.84375, 0.0625, 0.59375, 0.21875, 0.96875]}


def corpus_cases():
    out = []
    d = os.path.join(vlib.ROOT, "corpus", PID)
    if os.path.isdir(d):
        for f in sorted(os.listdir(d)):
            if f.endswith(".json"):
                out.append(norm_case(json.load(open(os.path.join(d, f)))))
    for w_ in (RESTART, WITNESS):
        if not any(c["id"] == w_["id"] for c in out):
            out.insert(0, norm_case(w_))
    return out


# ------------------------------------------------------------------------------------------------- log parsing
def parse_sections(toks):
    s, cur = {}, ""
    for t in toks:
        if t.endswith(":"):
            cur = t
            s[cur] = []
        else:
            s.setdefault(cur, []).append(t)
    return s


def parse_impl(text):
    """-> dict id -> dict(params, ops=[dict(kind,args,ev,fmap,end,exc)], px=[(x,v)], crash)"""
    out, cur, op, batch = {}, None, None, None
    for line in text.split("\n"):
        t = line.split()
        if not t:
            continue
        k = t[0]
        if k == "case":
            cur = {"id": t[1], "params": None, "ops": [], "px": [], "crash": None}
            out[t[1]] = cur
            op, batch = None, None
            continue
        if cur is None:
            continue
        if k == "params":
            cur["params"] = " ".join(t[1:])
        elif k == "op":
            op = {"kind": t[1], "args": t[2:], "ev": [], "fmap": [], "end": None, "exc": None}
            cur["ops"].append(op)
            batch = None
        elif k == "PX":
            i = t.index("=")
            cur["px"].append(([fx(v) for v in t[1:i]], fx(t[i + 1])))
        elif k == "crash":
            cur["crash"] = (int(t[1]), int(t[2]))
        elif op is None:
            continue
        elif k in ("R", "Rd", "Ru", "D"):
            op["ev"].append((k, fx(t[1])))
            batch = None
        elif k == "S":
            s = parse_sections(t[2:])
            op["ev"].append(("S", int(t[1]), [fx(v) for v in s.get("state:", [])], [fx(v) for v in s.get("pdf:", [])]))
            batch = None
        elif k in ("U", "I", "F"):
            i = t.index("=")
            a, b = [fx(v) for v in t[1:i]], [fx(v) for v in t[i + 1:]]
            if k == "F":
                op["fmap"].append((a, b))
            else:
                op["ev"].append((k, a, b) if k == "U" else (k, a, b[0] != 0.0))
            batch = None
        elif k == "PDF":
            batch = []
            op["ev"].append(("PDF", batch, int(t[1]), int(t[2])))
        elif k == "P" and batch is not None:
            i = t.index("=")
            batch.append(([fx(v) for v in t[1:i]], fx(t[i + 1])))
        elif k == "exception":
            op["exc"] = " ".join(t[1:])
        elif k == "endop":
            s = parse_sections(t[1:])
            op["end"] = {"state": [fx(v) for v in s.get("state:", [])], "pdfv": [fx(v) for v in s.get("pdfv:", [])],
                         "ready": s.get("ready:", ["0"])[0] == "1", "accepted": int(s["accepted:"][0]), "rngpos": int(s["rngpos:"][0]),
                         "numhist": int(s["numhist:"][0]), "hist": [fx(v) for v in s.get("hist:", [])],
                         "pdfh": [fx(v) for v in s.get("pdfh:", [])]}
            op, batch = None, None
    return out


# ------------------------------------------------------------------------------------------------- direct evaluation
class Deviation(Exception):
    def __init__(self, key, msg):
        Exception.__init__(self, msg)
        self.key = key


class Cursor:
    def __init__(self, ev):
        self.ev, self.i = ev, 0

    def peek(self):
        return self.ev[self.i] if self.i < len(self.ev) else None

    def at_end(self):
        return self.i >= len(self.ev)

    def take(self, kind, what):
        e = self.peek()
        if e is None:
            raise Deviation("log-truncated", "log ends where %s (%s) was expected" % (kind, what))
        if e[0] != kind:
            raise Deviation("callback-order", "expected %s (%s), the implementation did %s at callback #%d" % (kind, what, e[0], self.i))
        self.i += 1
        return e


def check_case(c, imp, stats):
    """Evaluate the statement of C15 on one history (runs and edits on one TasmanianDREAM object) from the implementation's
    log only (no model involved).  Returns (list of (key, message), info)."""
    n, d, logform = c["n"], c["d"], c["form"] == "log"
    dk, dc = c["dom"][0], c["dom"][1:]
    uk, uc = c["upd"][0], c["upd"][1:]
    fk = c["diff"][0]
    probs = []
    info = {"k1": False, "accepted": 0, "rejected": 0, "iterations": 0, "edits": 0, "runs_after_edit": 0}
    S = {"chains": [c["x0"][i * d:(i + 1) * d] for i in range(n)], "pdfv": [], "ready": False, "hist": [], "pdfh": [], "acc": 0,
         "tainted": False,      # the user asserted cached values that are not the pdf of the chains: the premise of 'recorded = pdf' is void
         "edited": None}        # last edit since the previous run
    stats["inside_start"] += all(dom_inside(dk, dc, x) for x in S["chains"])
    ptab = {}

    def note_batch(b):
        for x, v in b:
            old = ptab.get(hk(x))
            if old is not None and not same(old, v):
                raise Deviation("driver-pdf-not-pure", "scripted pdf returned two values for one point")
            ptab[hk(x)] = v

    def flat(cs):
        return [v for x in cs for v in x]

    def first_bad_record(e, h0, p0len):
        """first newly recorded (sample, probability) whose probability is not the pdf at the sample"""
        for s_ in range(len(e["pdfh"]) - p0len):
            x = e["hist"][h0 + s_ * d: h0 + (s_ + 1) * d]
            tv = ptab.get(hk(x))
            if tv is None or not same(tv, e["pdfh"][p0len + s_]):
                return "recorded probability %s of sample %s is not the pdf at that sample (%s)" % (
                    hx(e["pdfh"][p0len + s_]), [hx(v) for v in x], "never evaluated there" if tv is None else hx(tv))
        return None

    def do_run(ri, nb, nc, op):
        chains, pdfv = S["chains"], S["pdfv"]
        all_inside = all(dom_inside(dk, dc, x) for x in chains)
        cur = Cursor(op["ev"])
        h0, p0len = len(S["hist"]), len(S["pdfh"])
        hist, pdfh, acc = list(S["hist"]), list(S["pdfh"]), S["acc"]
        if S["edited"]:
            info["runs_after_edit"] += 1
            stats["runs_after_edit"] += 1
        if not S["ready"]:
            nxt = cur.peek()
            if nxt is None or nxt[0] != "PDF":
                for e2 in op["ev"]:
                    if e2[0] == "PDF":
                        note_batch(e2[1])
                bad = first_bad_record(op["end"], h0, p0len) if op["end"] else None
                raise Deviation("stale-pdf-cache", "op %d: the cached probability values were invalid (%s) but SampleDREAM(%d,%d) did not "
                                "re-evaluate them: accept decisions are taken against the values of the previous chain state%s"
                                % (ri, S["edited"] or "never initialised", nb, nc, "; " + bad if bad else ""))
            e = cur.take("PDF", "initialisation of the cached pdf values")
            note_batch(e[1])
            if not samel(flat(chains), [v for x, _ in e[1] for v in x]):
                raise Deviation("init-batch", "setPDFvalues(pdf) did not evaluate the whole state")
            pdfv = [v for _, v in e[1]]
            S["tainted"] = False
        total = max(nb, 0) + max(nc, 0)
        for t in range(total):
            stats["iterations"] += 1
            info["iterations"] += 1
            props, valid = [], []
            for i in range(n):
                rj = cur.take("R", "draw of j")[1]
                rk = cur.take("R", "draw of k")[1]
                for r_ in (rj, rk):
                    if not (0.0 <= r_ <= 1.0):
                        raise Deviation("driver-rng-range", "scripted rng outside [0,1]")
                if i == 0:
                    s = cur.take("S", "snapshot at the start of the iteration")
                    if not samel(s[2], flat(chains)) or not samel(s[3], pdfv):
                        raise Deviation("state-after-iteration", "op %d iteration %d starts from a state/cached pdf that is not the "
                                        "result of the accept rule applied to the previous iteration (or of the last edit)" % (ri, t))
                if fk == "rand":
                    cur.take("Rd", "draw inside the differential update")
                w = cur.take("D", "differential update")[1]
                jraw, kraw = int(rj * n), int(rk * n)
                if not (0 <= jraw <= n and 0 <= kraw <= n):
                    raise Deviation("trunc-hypothesis", "(size_t)(r*n) outside [0,n] for r in [0,1]: r=%s/%s n=%d" % (hx(rj), hx(rk), n))
                if kraw >= n:
                    info["k1"] = True
                    stats["k_draw_clamped"] += 1
                if jraw >= n:
                    stats["j_draw_clamped"] += 1
                j, k = min(jraw, n - 1), min(kraw, n - 1)
                if cur.at_end() and imp["crash"] is not None:
                    raise Deviation("crash-in-proposal", "kraw=%d n=%d w=%s" % (kraw, n, hx(w)))
                if w != 0.0:
                    p0 = [chains[i][q] + fmul(w, (chains[k][q] - chains[j][q])) for q in range(d)]
                else:
                    p0 = list(chains[i])
                if uk in ("none", "shift", "twist"):
                    u = cur.take("U", "independent update")
                    if not samel(u[1], p0):
                        raise Deviation("proposal-formula", "op %d iteration %d chain %d: proposal %s is not s_i + w (s_k - s_j) = %s "
                                        "(j=%d k=%d w=%s)" % (ri, t, i, [hx(v) for v in u[1]], [hx(v) for v in p0], j, k, hx(w)))
                    p = u[2]
                elif uk == "libuniform" and uc[0] != 0.0:
                    p = []
                    for q in range(d):
                        uu = cur.take("Ru", "uniform update draw")[1]
                        p.append(p0[q] + fmul(uc[0], (2.0 * uu - 1.0)))
                elif uk == "libgauss" and uc[0] != 0.0:
                    p, g, tic = [], 0.0, False
                    for q in range(d):
                        tic = not tic
                        if tic:
                            u1 = cur.take("Ru", "gaussian update draw")[1]
                            rad = fmul(uc[0], fsqrt(fmul(-2.0, flog(u1))))
                            u2 = cur.take("Ru", "gaussian update draw")[1]
                            tt = 2.0 * 3.14159265358979323846 * u2
                            p.append(p0[q] + fmul(rad, ftrig(math.cos, tt)))
                            g = fmul(rad, ftrig(math.sin, tt))
                        else:
                            p.append(p0[q] + g)
                else:
                    p = p0
                e = cur.take("I", "domain test")
                if not samel(e[1], p):
                    raise Deviation("proposal-formula", "op %d iteration %d chain %d: tested point %s is not the proposal "
                                    "s_i + w (s_k - s_j) + update = %s (j=%d k=%d w=%s)" % (ri, t, i, [hx(v) for v in e[1]], [hx(v) for v in p], j, k, hx(w)))
                props.append(e[1])
                valid.append(e[2])
                stats["proposals"] += 1
                stats["outside"] += (not e[2])
            cands = [p for p, b in zip(props, valid) if b]
            vals = []
            if cands:
                e = cur.take("PDF", "batched pdf of the in-domain proposals")
                note_batch(e[1])
                if len(e[1]) != len(cands) or e[3] != len(cands) or not all(samel(a, b[0]) for a, b in zip(cands, e[1])):
                    raise Deviation("pdf-batch", "op %d iteration %d: the pdf batch is not exactly the in-domain proposals in chain order" % (ri, t))
                vals = [v for _, v in e[1]]
                stats["batches"] += 1
            elif cur.peek() is not None and cur.peek()[0] == "PDF":
                raise Deviation("pdf-batch", "op %d iteration %d: pdf called although no proposal is inside" % (ri, t))
            else:
                stats["empty_batches"] += 1
            nstate, nvals, accepted, vi = [], [], 0, 0
            for i in range(n):
                keep = False
                if valid[i]:
                    v = vals[vi]
                    vi += 1
                    if v > pdfv[i]:
                        keep = True
                        stats["accept_better"] += 1
                    else:
                        u = cur.take("R", "uniform draw of the accept test")[1]
                        if logform:
                            lhs, rhs = v - pdfv[i], flog(u)
                        else:
                            lhs, rhs = fdiv(v, pdfv[i]), u
                        keep = lhs >= rhs
                        stats["accept_draw" if keep else "reject_draw"] += 1
                        if lhs == rhs:
                            stats["accept_tie"] += 1
                if keep:
                    nstate.append(props[i])
                    nvals.append(vals[vi - 1])
                    accepted += 1
                else:
                    nstate.append(chains[i])
                    nvals.append(pdfv[i])
            chains, pdfv = nstate, nvals
            info["accepted"] += accepted
            info["rejected"] += n - accepted
            if t >= nb:
                hist += flat(chains)
                pdfh += list(pdfv)
                acc += accepted
        if not cur.at_end():
            raise Deviation("callback-order", "op %d: %d callbacks beyond the last iteration (first: %s)" % (ri, len(op["ev"]) - cur.i, cur.peek()[0]))
        e = op["end"]
        if e is None:
            raise Deviation("log-truncated", "op %d (run) did not return (%s)" % (ri, imp["crash"]))
        # --- the statement of the property on the returned object (independent of the re-evaluation above) ---
        want = max(nc, 0) * n
        if len(e["hist"]) != h0 + want * d or len(e["pdfh"]) != p0len + want or e["numhist"] != p0len + want:
            raise Deviation("history-count", "op %d (burnup %d, collect %d): history grew by %d scalars / %d values, expected %d / %d"
                            % (ri, nb, nc, len(e["hist"]) - h0, len(e["pdfh"]) - p0len, want * d, want))
        if not samel(e["hist"][:h0], hist[:h0]) or not samel(e["pdfh"][:p0len], pdfh[:p0len]):
            raise Deviation("history-content", "op %d overwrote earlier history" % ri)
        for s_ in range(want):
            x = e["hist"][h0 + s_ * d: h0 + (s_ + 1) * d]
            if all_inside and not dom_inside(dk, dc, x):
                raise Deviation("sample-outside-domain", "op %d: recorded sample %s is outside the domain" % (ri, [hx(v) for v in x]))
        if not S["tainted"]:
            bad = first_bad_record(e, h0, p0len)
            if bad:
                raise Deviation("pdf-history-inconsistent", "op %d%s: %s" % (ri, " (first run after %s)" % S["edited"] if S["edited"] else "", bad))
            stats["samples_checked"] += want
        else:
            stats["samples_skipped_user_asserted_cache"] += want
        # --- and against the re-evaluated accept rule ---
        if not samel(e["state"], flat(chains)) or not samel(e["pdfv"], pdfv):
            raise Deviation("accept-rule", "op %d: final state/cached pdf differ from the accept rule re-evaluated on the logged values" % ri)
        if not samel(e["hist"], hist) or not samel(e["pdfh"], pdfh):
            raise Deviation("history-content", "op %d: appended history is not the sequence of states after each collected iteration" % ri)
        if e["accepted"] != acc:
            raise Deviation("accepted-counter", "op %d: acceptance counter %d, expected %d" % (ri, e["accepted"], acc))
        if not e["ready"]:
            raise Deviation("pdf-ready", "cached pdf values not marked initialised after a run")
        S.update({"chains": chains, "pdfv": pdfv, "ready": True, "hist": hist, "pdfh": pdfh, "acc": acc, "edited": None})

    def do_edit(ri, o, op):
        """the documented effect of the public editing operations (tsgDreamState.hpp)"""
        k = o[0]
        info["edits"] += 1
        stats["edit_" + k] = stats.get("edit_" + k, 0) + 1
        threw = False
        if k == "setv":
            x = [float(v) for v in o[1:]]
            if len(x) == n * d:
                S["chains"], S["ready"], S["tainted"] = [x[i * d:(i + 1) * d] for i in range(n)], False, False
            else:
                threw = True
        elif k == "setf":
            rel = o[1] == "rel"
            a = float(o[2]) if rel else 0.0
            v = [float(t) for t in o[(3 if rel else 2):]]
            new = []
            for ci in range(n):
                old = S["chains"][ci]
                new.append([(fmul(a, old[q]) + v[(ci * d + q) % len(v)]) if rel else v[(ci * d + q) % len(v)] for q in range(d)])
            S["chains"], S["ready"], S["tainted"] = new, False, False
        elif k == "pdfv":
            if o[1] == "true":
                for x, v in imp["px"]:
                    ptab.setdefault(hk(x), v)
                vals = [ptab.get(hk(x)) for x in S["chains"]]
                if any(v is None for v in vals):
                    raise Deviation("log-malformed", "PX lines missing")
                S["pdfv"], S["ready"], S["tainted"] = vals, True, False
            else:
                vals = [float(t) for t in o[2:]]
                if len(vals) == n:
                    truth = [ptab.get(hk(x)) for x in S["chains"]]
                    S["pdfv"], S["ready"] = vals, True
                    S["tainted"] = not all(tv is not None and same(tv, v) for tv, v in zip(truth, vals))
                else:
                    threw = True
        elif k == "pdff":
            cur = Cursor(op["ev"])
            e = cur.take("PDF", "explicit setPDFvalues(pdf)")
            note_batch(e[1])
            if not samel(flat(S["chains"]), [v for x, _ in e[1] for v in x]) or not cur.at_end():
                raise Deviation("init-batch", "setPDFvalues(pdf) did not evaluate exactly the whole state")
            S["pdfv"], S["ready"], S["tainted"] = [v for _, v in e[1]], True, False
        elif k == "clearpdf":
            S["pdfv"], S["ready"], S["tainted"] = [], False, False
        elif k == "clearhist":
            S["hist"], S["pdfh"], S["acc"] = [], [], 0
        if k != "pdff" and op["ev"]:
            raise Deviation("callback-order", "op %d (%s) invoked callbacks" % (ri, k))
        if threw != (op["exc"] is not None):
            raise Deviation("edit-exception", "op %d (%s): %s" % (ri, op_str(o)[:60], "no exception for a wrong size" if threw else "threw " + str(op["exc"])))
        if threw:
            stats["edits_rejected"] += 1
        e = op["end"]
        if e is None:
            raise Deviation("log-truncated", "op %d (%s) did not return" % (ri, k))
        if not samel(e["state"], flat(S["chains"])) or not samel(e["hist"], S["hist"]) or not samel(e["pdfh"], S["pdfh"]) or e["accepted"] != S["acc"]:
            raise Deviation("edit-effect", "op %d (%s): chain state / history / counter after the edit are not the documented ones" % (ri, k))
        if S["ready"] and (not e["ready"] or not samel(e["pdfv"], S["pdfv"])):
            raise Deviation("edit-effect", "op %d (%s): the cached values are not the ones set" % (ri, k))
        # a cache that should be invalid but is still marked valid shows in the NEXT run (stale-pdf-cache); remember it for histories
        # that end here
        S["flag_mismatch"] = (not S["ready"]) and e["ready"]
        if k in ("setv", "setf", "clearpdf") and not threw:
            S["edited"] = {"setv": "setState(vector)", "setf": "setState(callback)", "clearpdf": "clearPDFvalues()"}[k]
        elif k in ("pdfv", "pdff") and not threw:
            S["edited"] = "setPDFvalues"

    try:
        for ri, o in enumerate(c["ops"]):
            if ri >= len(imp["ops"]):
                raise Deviation("log-truncated", "op %d missing from the log" % ri)
            op = imp["ops"][ri]
            if op["kind"] != o[0]:
                raise Deviation("log-malformed", "op %d is %s in the log, %s in the case" % (ri, op["kind"], o[0]))
            if o[0] == "run":
                do_run(ri, int(o[1]), int(o[2]), op)
                S["flag_mismatch"] = False
            else:
                do_edit(ri, o, op)
        if S.get("flag_mismatch"):
            raise Deviation("stale-pdf-cache", "after %s the cached probability values are still marked valid" % S["edited"])
    except Deviation as dv:
        probs.append((dv.key, str(dv)))
    except (IndexError, KeyError, ValueError, TypeError) as ex:
        probs.append(("log-malformed", "could not interpret the log: %r" % (ex,)))
    return probs, info


def check_trunc_hypothesis():
    """H-RNG in binary64: for r in [0,1] and n chains, 0 <= (size_t)(r*n) <= n, with equality only for r = 1 (so the clamp is needed
    exactly for the draw 1.0).  Evaluated for n = 1..4096 and the extreme draws; returns (checked, failures)."""
    bad, cnt = [], 0
    below1 = 1.0 - 2.0 ** -53
    for n in range(1, 4097):
        for r_, want in ((0.0, 0), (2.0 ** -53, 0), (below1, n - 1), (1.0, n), (0.5, n // 2)):
            cnt += 1
            if int(r_ * float(n)) != want:
                bad.append((n, r_))
    return cnt, bad


# ------------------------------------------------------------------------------------------------- orchestration
def run_driver(drv, cases, wd, tag):
    """run the driver on the cases in parallel chunks; returns (stdout, stderr per case id)"""
    nch = min(vlib.NCPU, max(1, len(cases) // 20))
    chunks = [cases[i::nch] for i in range(nch)]
    env = dict(os.environ, ASAN_OPTIONS="detect_leaks=0:allocator_may_return_null=1:malloc_context_size=0:print_legend=0", UBSAN_OPTIONS="print_stacktrace=1")

    def one(ix):
        fn = os.path.join(wd, "%s-%02d.txt" % (tag, ix))
        with open(fn, "w") as fh:
            for c in chunks[ix]:
                fh.write("case %s\n%s\n" % (c["id"], case_line(c)))
        rc, so, se = vlib.run([drv, fn], timeout=1500, env=env)
        return rc, so, se
    outs, errs, rcs = [], {}, []
    with cf.ThreadPoolExecutor(nch) as ex:
        for rc, so, se in ex.map(one, range(nch)):
            outs.append(so)
            rcs.append(rc)
            for blk in re.split(r"^=== case ", se, flags=re.M)[1:]:
                cid, _, body = blk.partition("\n")
                if body.strip():
                    errs[cid.strip()] = body
    return "".join(outs), errs, rcs


def run(res, tier, seed, replay_cases=None):
    props = vlib.coq_props(PID)
    vlib.proof_coverage(res, PID, props, "cd coq && make Props/Properties_C15.vo && coqc -Q . TV Props/Properties_C15.v", TRUSTED)
    ok_ext, elog = vlib.coq_make(["Extract/ExtractDream.vo"])
    proof_broken = (not props["ok"]) or bool(res.coverage["forbidden_tokens"])
    runner = vlib.ocaml_runner("dream") if ok_ext else None
    drv = vlib.build_driver("dreamdrv", "asan")

    r = vlib.rng(seed, PID)
    ncase = {"quick": 7000, "thorough": 60000}[tier]
    nsplit = {"quick": 1500, "thorough": 12000}[tier]
    if proof_broken:
        ncase *= 3
    cases = corpus_cases()
    pairs = []
    if replay_cases is not None:
        cases, ncase, nsplit = [norm_case(c) for c in replay_cases], 0, 0
        if len(cases) == 2 and cases[0]["id"].endswith("A") and cases[1]["id"].endswith("B"):
            pairs.append((cases[0]["id"], cases[1]["id"]))
    for i in range(ncase):
        cases.append(gen_case(r, i, tier))
    # run splitting: run(b,c1) then run(0,c2) [then run(0,c3)]  versus  run(b,c1+c2[+c3]) on the same stream
    for i in range(nsplit):
        base = gen_case(r, "s%d" % i, tier)
        b = r.choice([0, 0, 1, 2, 5, -1, -2])
        cs = [r.choice([0, 1, 1, 2, 2, 5]) for _ in range(r.choice([2, 2, 3]))]
        head = [o for o in base["ops"][:1] if o[0] == "pdff"]
        opsa = head + [["run", b, cs[0]]]
        for x in cs[1:]:
            # edits that must not matter between the halves: expandHistory, re-asserting / re-evaluating the (coherent) cache
            q = r.random()
            if q < 0.45:
                opsa.append(r.choice([["expand", 2], ["pdfv", "true"], ["pdff"]]))
            opsa.append(["run", 0, x])
        a = dict(base, id="s%dA" % i, ops=opsa)
        bb = dict(base, id="s%dB" % i, ops=head + [["run", b, sum(cs)]])
        cases += [a, bb]
        pairs.append((a["id"], bb["id"]))
    byid = {c["id"]: c for c in cases}

    wd = os.path.join(vlib.BUILD, "work", PID)
    os.makedirs(wd, exist_ok=True)
    for f in os.listdir(wd):
        if f.startswith("cases-") or f.startswith("impl"):
            os.remove(os.path.join(wd, f))
    so, errs, rcs = run_driver(drv, cases, wd, "cases")
    implf = os.path.join(wd, "impl.out")
    open(implf, "w").write(so)
    impl = parse_impl(so)
    if any(rc != 0 for rc in rcs):
        res.violation("driver-exit", "dreamdrv exited with %s" % rcs, {"kind": "impl-counterexample", "cases": wd}, no_input=True)

    # correspondence
    mism, okc, skipped = [], 0, 0
    cstats = {"events": 0, "accepted": 0, "outside": 0, "draws": 0, "hist": 0, "runs": 0, "edits": 0}
    if runner:
        rc2, mo, me = vlib.run([runner, implf], timeout=1500)
        for line in mo.split("\n"):
            t = line.split()
            if not t:
                continue
            if t[0] == "ok":
                okc += 1
                for kv in t[2:]:
                    k, _, v = kv.partition("=")
                    if k in cstats:
                        cstats[k] += int(v)
            elif t[0] == "skip":
                skipped += 1
            elif t[0] == "MISMATCH":
                mism.append(line)
        if rc2 != 0:
            mism.append("runner exit %d %s" % (rc2, me[-300:]))

    # direct evaluation
    stats = {k: 0 for k in ["inside_start", "iterations", "proposals", "outside", "batches", "empty_batches", "accept_better", "accept_draw",
                            "reject_draw", "accept_tie", "samples_checked", "k_draw_clamped", "j_draw_clamped", "crashes", "split_pairs_checked",
                            "runs_after_edit", "samples_skipped_user_asserted_cache", "edits_rejected"]}
    nviol, perkey, bad_ids, k1_ids, infos = 0, {}, set(), set(), {}

    def report(key, what, c, extra=None, c2=None):
        perkey[key] = perkey.get(key, 0) + 1
        if perkey[key] > 3:
            return
        rp = {"kind": "impl-counterexample", "cases": [c] + ([c2] if c2 else []), "case_lines": [case_line(c)] + ([case_line(c2)] if c2 else [])}
        if extra:
            rp.update(extra)
        res.violation(key, what, rp)

    for c in cases:
        imp = impl.get(c["id"])
        if imp is None:
            report("no-output", "the driver produced no output for case %s" % c["id"], c)
            nviol += 1
            bad_ids.add(c["id"])
            continue
        probs, info = check_case(c, imp, stats)
        infos[c["id"]] = info
        if info["k1"]:
            k1_ids.add(c["id"])
        if imp["crash"] is not None:
            stats["crashes"] += 1
            bad_ids.add(c["id"])
            nviol += 1
            err = errs.get(c["id"], "")
            m = re.search(r"ERROR: (AddressSanitizer|UndefinedBehaviorSanitizer)?:? ?([\w-]+)", err)
            kind = m.group(2) if m else "abort"
            in_ijk = "getIJKdelta" in err
            p0 = probs[0] if probs else ("crash", "")
            mk = re.match(r"kraw=(\d+) n=(\d+) w=(\S+)", p0[1]) if p0[0] == "crash-in-proposal" else None
            if mk and int(mk.group(1)) >= int(mk.group(2)) and in_ijk and kind == "heap-buffer-overflow":
                report(KEY_KINDEX, "AddressSanitizer heap-buffer-overflow (READ) in TasmanianDREAM::getIJKdelta called from SampleDREAM: the random draw "
                       "for k is 1.0, (size_t)(1.0*num_chains) = num_chains is not clamped (tsgDreamSample.hpp:449 assigns jindex), chain "
                       "%s of %s is read; case %s" % (mk.group(1), mk.group(2), c["id"]), c, {"sanitizer": err[:1500]})
            else:
                report("sanitizer-" + kind, "the sanitizer build aborted (%s) in case %s: %s" % (imp["crash"], c["id"], err[:600].replace("\n", " | ")), c,
                       {"sanitizer": err[:3000]})
            continue
        for key, msg in probs:
            report(key, msg + " [case %s]" % c["id"], c)
            nviol += 1
            bad_ids.add(c["id"])

    # run splitting, evaluated on the implementation
    for ia, ib in pairs:
        if ia in bad_ids or ib in bad_ids:
            continue
        ea, eb = impl[ia]["ops"][-1]["end"], impl[ib]["ops"][-1]["end"]
        if ea is None or eb is None:
            continue
        stats["split_pairs_checked"] += 1
        diffs = [k for k in ("state", "pdfv", "hist", "pdfh") if not samel(ea[k], eb[k])] + \
                [k for k in ("accepted", "rngpos", "numhist") if ea[k] != eb[k]]
        if diffs:
            nviol += 1
            report("split-runs", "runs %s followed one another differ from the single run %s in %s [cases %s %s]"
                   % (runs_of(byid[ia]), runs_of(byid[ib]), ",".join(diffs), ia, ib), byid[ia], c2=byid[ib])

    hyp_checked, hyp_bad = check_trunc_hypothesis()
    if hyp_bad:
        res.violation("trunc-hypothesis", "binary64: (size_t)(r*n) leaves [0,n] / reaches n for a draw below 1: %s" % hyp_bad[:3],
                      {"kind": "hypothesis-break", "examples": hyp_bad[:10]}, no_input=True)

    # correspondence / proof breaks with no concrete failing input
    mism_other = [m for m in mism if len(m.split()) < 2 or m.split()[1] not in bad_ids]
    if mism_other and not res.violations:
        res.violation("correspondence", "model and implementation disagree on %d cases, e.g. %s" % (len(mism_other), mism_other[0][:400]),
                      {"kind": "correspondence-break", "correspondence": "Model.Dream.run vs SampleDREAM()",
                       "examples": mism_other[:10], "cases": [byid[m.split()[1]] for m in mism_other[:3] if len(m.split()) > 1 and m.split()[1] in byid]},
                      no_input=True)
    if proof_broken and not res.violations:
        res.violation("proof", "proof obligations of Properties_C15.v no longer check (%d/%d) %s" %
                      (props["discharged"], props["obligations"], res.coverage["forbidden_tokens"][:2]),
                      {"kind": "proof-break", "theorems": props["theorems"], "log": props["log"][-3000:]}, no_input=True)
    if not ok_ext and not res.violations:
        res.violation("extraction", "extraction of the model failed", {"kind": "proof-break", "log": elog[-2000:]}, no_input=True)

    # coverage
    seen, nontriv = set(), 0
    dist = {"form": {}, "chains": {}, "dims": {}, "pdf": {}, "domain": {}, "update": {}, "diff": {}, "runs": {}, "edits_between_runs": {}}
    for c in cases:
        for k, v in (("form", c["form"]), ("chains", c["n"]), ("dims", c["d"]), ("pdf", c["pdf"][0]), ("domain", c["dom"][0]),
                     ("update", c["upd"][0]), ("diff", c["diff"][0]), ("runs", len(runs_of(c))),
                     ("edits_between_runs", sum(1 for o in c["ops"] if o[0] != "run"))):
            dist[k][str(v)] = dist[k].get(str(v), 0) + 1
        h = hashlib.sha1(case_line(c).encode()).hexdigest()
        if h in seen:
            continue
        seen.add(h)
        inf = infos.get(c["id"])
        if inf is None or c["id"] in bad_ids:
            continue
        # non-trivial: >= 2 chains, >= 2 iterations, at least one proposal accepted and at least one rejected or outside
        if c["n"] >= 2 and inf["iterations"] >= 2 and inf["accepted"] >= 1 and inf["rejected"] >= 1:
            nontriv += 1
    endp = sum(1 for c in cases for v in c["rng"] if v in ENDPOINTS)
    tot = sum(len(c["rng"]) for c in cases)
    res.coverage.update({
        "evaluations": len(cases), "distinct_nontrivial": nontriv,
        "rule": "cases = (form, chains 1-6, dims 1-3, pdf family, domain none/all/box/half-space/lattice, independent update user/none/"
                "uniform/gaussian, differential update const_one/const_percent/stateful/random, explicit setPDFvalues or not, start mostly "
                "inside the domain, a HISTORY on one TasmanianDREAM object: 1-4 runs with burn-up/collect in {0,1,2,5,-1,-2,-3} and, between runs "
                "(75%), 1-2 edits through every public entry point that changes the chains or the caches: setState(vector) (8% wrong size), "
                "setState(callback) overwrite / in-place, setPDFvalues(vector) true or arbitrary values (20% wrong size), setPDFvalues(pdf), "
                "clearPDFvalues, clearHistory, expandHistory; cyclic scripted random stream with "
                ">=20% endpoint values 0, 1, 2^-53, 1-2^-53) from VERIF_SEED; corpus/C15 first; run-splitting pairs A=(b,c1),(0,c2).. vs "
                "B=(b,sum) on the same stream.  non-trivial = >=2 chains, >=2 iterations, at least one proposal accepted and one rejected or "
                "outside (counted by the direct evaluation); distinct by the hash of the case line; only cases that ran to completion without "
                "a deviation are counted",
        "samples": [case_line(c) for c in cases[:3]] + [case_line(c) for c in cases[3:][-2:]],
        "programs": len(cases), "traces_validated_against_impl": okc, "disagreements_checked": len(mism),
        "correspondence": dict({"cases_agreeing_bit_exact": okc, "mismatches": len(mism), "skipped_crashed": skipped}, **cstats),
        "direct_evaluation": stats, "direct_property_violations": nviol, "violations_per_key": perkey,
        "cases_with_k_draw_1.0": len(k1_ids),
        "hypotheses_checked": {"H-RNG/trunc in binary64: int(r*n) in [0,n], = n only for r = 1 (n = 1..4096, extreme draws)": hyp_checked,
                               "H-RNG/trunc on every draw of every case": stats["proposals"] * 2},
        "input_distribution": dist, "rng_endpoint_fraction": round(endp / max(tot, 1), 3),
        "log_oracle": "log(u) of the log-form accept test is recomputed with libm (OCaml's log in the runner, math.log in the direct "
                      "evaluation); no disagreement attributable to it was observed (it would appear as a mismatch), so no margin is used",
    })
    res.assumptions = [
        "H-RNG: get_random01 returns values in [0,1] (outside it the conversion to size_t is undefined behaviour in C++)",
        "pdf and inside are pure point-wise functions; the independent update does not resize its argument; setState() was called",
        "num_burnup + num_collect does not overflow int",
        "binary64: the theorems are about the model generic in the arithmetic; the run-time correspondence is the only tie between "
        "the model and the compiled code",
    ]


def replay(path):
    rp = json.load(open(path))
    res = vlib.Result(PID, "quick", rp.get("seed", 1), LEVEL)
    if rp.get("cases") and isinstance(rp["cases"], list) and isinstance(rp["cases"][0], dict):
        run(res, "quick", rp.get("seed", 1), replay_cases=rp["cases"])
    else:
        run(res, "quick", rp.get("seed", 1))
    return res.finish()
