"""C16 — the tasgrid command-line tool is equivalent to the library API.

Decided by TRANSLATION VALIDATION: generated scripts of tasgrid invocations that share one grid file are run
 (a) with the real tool, built from the CURRENT working tree (Tasgrid/tasgrid_main.cpp, tasgridWrapper.cpp and the
     gridtest sources named in Tasgrid/CMakeLists.txt), and
 (b) with harness/clidrv.cpp, which executes through the public library API the call sequence that the extracted Coq
     model (coq/Model/Cli.v: parse, sane, sane_post, plan) plans for each invocation.
After every invocation the grid files must be byte-identical (binary) / token-identical (ASCII), the output matrices
equal (bit-exact for binary files, 1e-15 relative for ASCII files and printed output) and both sides must agree on
accept/reject.  The tables of the model (switch string -> command, options, requirements per command, const list ...)
are REGENERATED from the source by translator/clitable.py on every run (coq/gen/CliTable.v) and the theorems of
coq/Props/Properties_C16.v are re-proved against them.  Those theorems are about the model only (table is functional
up to the listed clashes, every command has a plan, query commands never write and all others end with the write,
the dispatch switch agrees with the plans, binary matrix round trip); the equivalence itself is what the scripts test,
so the level is translation validation.

A difference that is not one of the known defect classes is re-examined before it is reported: the invocation is
re-executed on both sides from its own pre-state (a) with two malloc fill patterns and (b) under valgrind memcheck; if a
side disagrees with itself, or the LIBRARY (not the tool) commits a memory error, the outcome of the invocation is not a
function of its inputs (undefined behaviour inside the library, same code on both sides): counted as nondeterministic,
listed in the evidence, not a C16 violation.  Invocations on which the library does not return are counted as timeouts."""
import hashlib
import importlib.util
import json
import math
import os
import re
import shutil
import struct
import subprocess
import concurrent.futures as cf

import vlib

LEVEL = "translation_validation"
PID = "C16"
WORK = os.path.join(vlib.BUILD, "work", PID)
CORPUS = os.path.join(vlib.ROOT, "corpus", PID)

TRUSTED = [
    "Coq 8.16.1 kernel (vm_compute for the finite table facts; no native_compute); axioms: none",
    "translator/clitable.py (syntactic; fails loudly on shapes it does not know; rule-dependent conditions of checkSane/"
    "checkSanePostRead and the skeleton of executeCommand are pinned textually and implemented by hand in Model/Cli.v)",
    "extraction: ExtrOcamlBasic only; OCaml glue ocaml/cli_main.ml (string/Z conversions, printing of plans)",
    "C++ driver harness/clidrv.cpp: interpreter of the plan over the public API with its own matrix reader/writer; "
    "Python comparison code of this file; g++ -O1 -ffp-contract=off for both the tool and the driver (same library objects)",
    "the plan of each command is hand-written from `tasgrid <command> help`, Doxygen/InterfaceCLI.md and the library "
    "documentation (it is the specification side of the comparison)",
    "not modelled: -test/-version/-log/-listtypes/help output, GPU options (-gpuid is ignored in a build without GPUs), "
    "malformed matrix files, the ASCII matrix grammar (only the binary TSG format has a byte-level model)",
]

TOOL_SOURCES = ["Tasgrid/tasgrid_main.cpp", "Tasgrid/tasgridWrapper.cpp"]


# ---------------------------------------------------------------------------------------------------------------
# builds
def tool_sources():
    """tasgrid_main.cpp, tasgridWrapper.cpp + every .cpp that Tasgrid/CMakeLists.txt lists for the executable"""
    cm = vlib.repo_file("Tasgrid/CMakeLists.txt")
    m = re.search(r"add_executable\(\s*Tasmanian_tasgrid(.*?)\)", cm, re.S)
    if not m:
        raise vlib.BuildError("Tasgrid/CMakeLists.txt: add_executable(Tasmanian_tasgrid ...) not found")
    srcs = []
    for tok in m.group(1).split():
        if not tok.endswith(".cpp"):
            continue
        tok = tok.replace("${CMAKE_CURRENT_SOURCE_DIR}/", "")
        p = os.path.normpath(os.path.join("Tasgrid", tok))
        if p not in srcs:
            srcs.append(p)
    for s in TOOL_SOURCES:
        if s not in srcs:
            raise vlib.BuildError("Tasgrid/CMakeLists.txt does not list " + s)
    return srcs


def build_tool():
    info = vlib.build_lib("plain")
    srcs = tool_sources()
    hh = hashlib.sha256((" ".join(srcs) + " ".join(info["cflags"])).encode())
    exe = os.path.join(info["dir"], "tasgrid-" + hh.hexdigest()[:10])
    with vlib.Lock("drv-tasgrid-plain"):
        if os.path.exists(exe):
            return exe
        objs = []

        def comp(src):
            obj = os.path.join(info["dir"], "tool_" + src.replace("/", "_") + ".o")
            rc, so, se = vlib.run([info["cxx"]] + info["cflags"] + ["-c", os.path.join(vlib.REPO, src), "-o", obj], timeout=900)
            return src, obj, rc, se
        with cf.ThreadPoolExecutor(4) as ex:
            for src, obj, rc, se in ex.map(comp, srcs):
                if rc != 0:
                    raise vlib.BuildError("tasgrid: compile of %s failed:\n%s" % (src, se[-3000:]))
                objs.append(obj)
        rc, so, se = vlib.run([info["cxx"]] + objs + [info["lib"]] + info["ldflags"] + ["-o", exe + ".tmp"], timeout=600)
        if rc != 0:
            raise vlib.BuildError("tasgrid: link failed:\n" + se[-3000:])
        os.rename(exe + ".tmp", exe)
        vlib.log("[build] tasgrid tool (%d sources)" % len(srcs))
    return exe


def private_copy(exe):
    """the build cache prunes old source trees while other checks run; work on a copy of the executable"""
    d = os.path.join(WORK, "bin")
    os.makedirs(d, exist_ok=True)
    dst = os.path.join(d, "%s-%d" % (os.path.basename(exe), os.getpid()))
    shutil.copyfile(exe, dst)
    shutil.copymode(exe, dst)
    for f in os.listdir(d):
        fp = os.path.join(d, f)
        try:
            if fp != dst and os.path.getmtime(fp) < __import__("time").time() - 6 * 3600:
                os.remove(fp)
        except OSError:
            pass
    return dst


def regenerate_table():
    """translator: coq/gen/CliTable.v from the working tree.  returns (ok, message)"""
    spec = importlib.util.spec_from_file_location("clitable", os.path.join(vlib.ROOT, "translator", "clitable.py"))
    mod = importlib.util.module_from_spec(spec)
    spec.loader.exec_module(mod)
    out = os.path.join(vlib.COQDIR, "gen", "CliTable.v")
    try:
        text = mod.generate(vlib.REPO)
    except mod.TranslatorError as e:
        return False, str(e)
    with vlib.Lock("coq"):
        mod.write_if_changed(out, text)
    return True, ""


# ---------------------------------------------------------------------------------------------------------------
# matrices
def write_matrix(path, rows, fmt):
    """rows: list of lists of floats (rectangular; may be empty -> needs ncols via rows==[] and fmt tuple)"""
    nr = len(rows)
    nc = len(rows[0]) if nr else 0
    if fmt == "ascii":
        with open(path, "w") as fh:
            fh.write("%d %d\n" % (nr, nc))
            for r in rows:
                fh.write(" ".join("%.17e" % v for v in r) + "\n")
    else:
        with open(path, "wb") as fh:
            fh.write(b"TSG" + struct.pack("<ii", nr, nc))
            for r in rows:
                fh.write(struct.pack("<%dd" % nc, *r))


def read_matrix(path):
    """-> (rows, cols, flat list of floats, is_binary) or None"""
    try:
        b = open(path, "rb").read()
    except OSError:
        return None
    if b[:3] == b"TSG":
        if len(b) < 11:
            return None
        nr, nc = struct.unpack("<ii", b[3:11])
        n = nr * nc
        if len(b) != 11 + 8 * n:
            return None
        return nr, nc, list(struct.unpack("<%dd" % n, b[11:])), True
    t = b.decode(errors="replace").split()
    try:
        nr, nc = int(t[0]), int(t[1])
        vals = [float(x) for x in t[2:2 + nr * nc]]
    except (ValueError, IndexError):
        return None
    if len(vals) != nr * nc:
        return None
    return nr, nc, vals, False


NUM = re.compile(r"[-+]?(?:\d+\.?\d*(?:[eE][-+]?\d+)?|inf|nan)")


def close(a, b, tol=1e-15):
    if a == b or (a != a and b != b):
        return True
    return abs(a - b) <= tol * max(abs(a), abs(b))


def tokens_equal(ta, tb, tol=1e-15):
    """token lists: numeric tokens compared with tol, others verbatim"""
    if len(ta) != len(tb):
        return False
    for x, y in zip(ta, tb):
        if x == y:
            continue
        try:
            if not close(float(x), float(y), tol):
                return False
        except ValueError:
            return False
    return True


def text_tokens(s):
    return s.replace("(", " ").replace(")", " ").replace(",", " ").split()


# ---------------------------------------------------------------------------------------------------------------
# the script generator (adaptive: steered by read-only probes of the tool's own grid file; probes are not part of
# the script).  Everything random comes from one PRNG per script.
GLOBAL_RULES = ["clenshaw-curtis", "clenshaw-curtis-zero", "chebyshev", "chebyshev-odd", "gauss-legendre", "gauss-legendre-odd",
                "gauss-patterson", "leja", "leja-odd", "rleja", "rleja-double2", "rleja-double4", "rleja-odd", "rleja-shifted",
                "rleja-shifted-even", "rleja-shifted-double", "max-lebesgue", "max-lebesgue-odd", "min-lebesgue",
                "min-lebesgue-odd", "min-delta", "min-delta-odd", "gauss-chebyshev1", "gauss-chebyshev1-odd", "gauss-chebyshev2",
                "gauss-chebyshev2-odd", "fejer2", "gauss-gegenbauer", "gauss-gegenbauer-odd", "gauss-jacobi", "gauss-jacobi-odd",
                "gauss-laguerre", "gauss-laguerre-odd", "gauss-hermite", "gauss-hermite-odd"]
NEEDS_ALPHA = {"gauss-gegenbauer", "gauss-laguerre", "gauss-hermite", "gauss-gegenbauer-odd", "gauss-hermite-odd", "gauss-jacobi",
               "gauss-jacobi-odd", "gauss-laguerre-odd"}
UNBOUNDED = {"gauss-laguerre", "gauss-laguerre-odd", "gauss-hermite", "gauss-hermite-odd"}
SEQ_RULES = ["leja", "rleja", "rleja-shifted", "max-lebesgue", "min-lebesgue", "min-delta"]
LOCAL_RULES = ["localp", "localp-zero", "semi-localp", "localp-boundary"]
TYPES = ["level", "curved", "iptotal", "ipcurved", "qptotal", "qpcurved", "hyperbolic", "iphyperbolic", "qphyperbolic",
         "tensor", "iptensor", "qptensor"]
REFTYPES = ["classic", "parents", "direction", "fds", "stable"]
COMMAND_SWITCHES = {   # documented spellings (long, shorthand) of the commands the generator uses
    "makeglobal": ["-makeglobal", "-mg"], "makesequence": ["-makesequence", "-ms"], "makelocalp": ["-makelocalpoly", "-mp"],
    "makewavelet": ["-makewavelet", "-mw"], "makefourier": ["-makefourier", "-mf"], "makequadrature": ["-makequadrature", "-mq"],
    "makeexoquad": ["-makeexoquad", "-meq"], "update": ["-makeupdate", "-mu"], "setconformal": ["-setconformal"],
    "getquadrature": ["-getquadrature", "-gq"], "getinterweights": ["-getinterweights", "-gi"],
    "getdiffweights": ["-getdiffweights", "-gd"], "getpoints": ["-getpoints", "-gp"], "getneeded": ["-getneeded", "-gn"],
    "loadvalues": ["-loadvalues", "-l"], "evaluate": ["-evaluate", "-e"], "integrate": ["-integrate", "-i"],
    "differentiate": ["-differentiate", "-d"], "evalhierarchyd": ["-evalhierarchyd", "-ehd"],
    "evalhierarchys": ["-evalhierarchys", "-ehs"], "gethsupport": ["-gethsupport", "-ghsup"],
    "getanisotropy": ["-getanisotropy", "-ga"], "refineaniso": ["-refineaniso", "-ra"], "refinesurp": ["-refinesurp", "-rs"],
    "refine": ["-refine", "-r"], "cancelrefine": ["-cancelrefine", "-cr"], "mergerefine": ["-mergerefine", "-mr"],
    "using-construct": ["-using-construct"], "getconstructpnts": ["-getconstructpnts", "-gcp"],
    "loadconstructed": ["-loadconstructed", "-lcp"], "getcoefficients": ["-getcoefficients", "-gc"],
    "setcoefficients": ["-setcoefficients"], "getpoly": ["-getpoly"], "summary": ["-summary", "-s"],
    "getpointsindexes": ["-getpointsindexes"], "getneededindexes": ["-getneededindexes"],
}
OPTION_SPELLINGS = {
    "dim": ["-dim", "-dimensions"], "out": ["-out", "-outputs"], "depth": ["-dt", "-depth"], "order": ["-or", "-order"],
    "type": ["-tt", "-type"], "rule": ["-1d", "-onedim"], "gf": ["-gf", "-gridfile"], "of": ["-of", "-outputfile", "-outfile"],
    "xf": ["-xf", "-xfile"], "vf": ["-vf", "-valsfile"], "af": ["-af", "-anisotropyfile"], "tf": ["-tf", "-transformfile"],
    "lf": ["-lf", "-levellimitsfile"], "cf": ["-cf", "-customfile"], "print": ["-print", "-p"], "tol": ["-tol", "-tolerance"],
    "rout": ["-rout", "-refout"], "ming": ["-ming", "-mingrowth"], "rt": ["-rt", "-reftype"], "ct": ["-ct", "-conformaltype"],
    "wf": ["-wf", "-weightfile"], "desc": ["-desc", "-description"], "symm": ["-symm", "-symmetric"], "gpu": ["-gpu", "-gpuid"],
}
ALL_GEN_COMMANDS = sorted(COMMAND_SWITCHES)


def fval(x, j):
    s = 0.25 * (j + 1)
    for k, xk in enumerate(x):
        # the frequency alternates with output and dimension, so that different outputs have different anisotropy
        # (refinement of "all outputs" and of "output 0" must then propose different points)
        s += (0.5 + 0.125 * j) * math.cos((0.7 + 2.0 * ((j + k) % 2)) * xk + 0.3 * k) + 0.0625 * (k + 1) * xk * xk
    return s


class Script:
    """one script being generated and run against the tool; collects invocations, input files and tool results"""

    def __init__(self, sid, r, tool, base):
        self.sid, self.r, self.tool = sid, r, tool
        self.dt = os.path.join(base, "tool")
        self.da = os.path.join(base, "api")
        for d in (self.dt, self.da):
            shutil.rmtree(d, ignore_errors=True)
            os.makedirs(d)
        self.inv = []        # list of dict(argv, cmd, rc, out, err, outfile)
        self.files = {}      # name -> dict(rows, fmt)
        self.snaps = ["g.tsg"]
        self.nfile = 0
        self.constr = False
        self.hung = False
        self.tags = set()

    # --- files -------------------------------------------------------------------------------------------------
    def newfile(self, rows, prefix="m", fmt=None):
        fmt = fmt or self.r.choice(["ascii", "bin"])
        name = "%s%d.%s" % (prefix, self.nfile, "txt" if fmt == "ascii" else "mat")
        self.nfile += 1
        self.files[name] = {"rows": rows, "fmt": fmt}
        for d in (self.dt, self.da):
            write_matrix(os.path.join(d, name), rows, fmt)
        return name

    def outname(self):
        self.nfile += 1
        return "o%d.out" % self.nfile

    # --- running -----------------------------------------------------------------------------------------------
    def tool_run(self, argv, timeout=20):
        try:
            p = subprocess.run([self.tool] + argv, cwd=self.dt, capture_output=True, timeout=timeout)
            return p.returncode, p.stdout.decode(errors="replace"), p.stderr.decode(errors="replace")
        except subprocess.TimeoutExpired:
            return -9, "", "TIMEOUT"

    def probe(self, gf="g.tsg"):
        """read-only steering probe of the tool's grid file (not part of the script)"""
        rc, so, se = self.tool_run(["-summary", gf], timeout=8)
        st = {"ok": rc == 0}
        if rc != 0:
            return st
        for key, name in (("Grid Type", "kind"), ("Dimensions", "dims"), ("Outputs", "outs"), ("Loaded nodes", "loaded"),
                          ("Needed nodes", "needed"), ("Rule", "rule")):
            m = re.search(re.escape(key) + r":\s+(.*)", so)
            st[name] = m.group(1).strip() if m else None
        for k in ("dims", "outs", "loaded", "needed"):
            st[k] = int(st[k]) if st[k] is not None else 0
        st["kind"] = {"Global": "global", "Sequence": "sequence", "Local Polynomial": "localp", "Wavelets": "wavelet",
                      "Fourier": "fourier"}.get(st["kind"], st["kind"])
        return st

    def probe_matrix(self, cmd, gf="g.tsg"):
        rc, so, se = self.tool_run([cmd, "-gridfile", gf, "-of", "probe.tmp"])
        if rc != 0:
            return None
        m = read_matrix(os.path.join(self.dt, "probe.tmp"))
        try:
            os.remove(os.path.join(self.dt, "probe.tmp"))
        except OSError:
            pass
        return m

    def do(self, cmd, opts, outfile=None):
        """append one invocation to the script and run it with the tool; opts = list of (optkey or literal, value|None)"""
        argv = [self.r.choice(COMMAND_SWITCHES[cmd])]
        for k, v in opts:
            argv.append(self.r.choice(OPTION_SPELLINGS[k]) if k in OPTION_SPELLINGS else k)
            if v is not None:
                argv.append(str(v))
        rc, so, se = self.tool_run(argv)
        i = len(self.inv)
        for s in self.snaps:
            src = os.path.join(self.dt, s)
            if os.path.exists(src):
                shutil.copyfile(src, src + ".tool%d" % i)
        self.inv.append({"argv": argv, "cmd": cmd, "rc": rc, "out": so, "err": se, "outfile": outfile})
        self.hung = self.hung or rc == -9
        return rc == 0


def sink_opts(s, r, force=True):
    """-of / -print / -ascii choices for a command that has an output matrix; returns (opts, outfile)"""
    opts, of = [], None
    mode = r.choice(["of", "of", "of", "print", "both"]) if force else r.choice(["of", "none", "print"])
    if mode in ("of", "both"):
        of = s.outname()
        opts.append(("of", of))
    if mode in ("print", "both"):
        opts.append(("print", None))
    if r.random() < 0.4:
        opts.append(("-ascii", None))
    return opts, of


def gen_points(r, dims, n, lo=-1.0, hi=1.0):
    return [[r.choice([0.0, 0.5, -0.25, lo, hi, r.uniform(lo, hi), r.uniform(lo, hi)]) for _ in range(dims)] for _ in range(n)]


def limits_file(s, r, dims, local=False):
    """level limits; for Global/Sequence/Fourier grids one direction is left practically unlimited, because anisotropic
    refinement does not terminate once every direction is saturated (defect F4 of C08, library, not the tool)"""
    if local:
        return s.newfile([[float(r.choice([1, 2, 3, 4, 2, 3])) for _ in range(dims)]], "lim")
    row = [float(r.choice([1, 2, 3, 30])) for _ in range(dims)]
    row[r.randrange(dims)] = 30.0
    return s.newfile([row], "lim")


def make_invocation(s, r, kind=None, gf="g.tsg", dims=None, outs=None, allow_zero_out=False):
    """one make* invocation with a random accepted option combination"""
    kind = kind or r.choice(["global", "global", "sequence", "localp", "localp", "wavelet", "fourier"])
    dims = dims or r.choice([1, 2, 2, 3])
    if outs is None:
        outs = r.choice([1, 1, 2, 3])
        if allow_zero_out and r.random() < 0.5:
            outs = 0
    opts = [("dim", dims), ("out", outs)]
    dom = (-1.0, 1.0)
    info = {"kind": kind, "dims": dims, "outs": outs}
    if kind == "global":
        rule = r.choice(GLOBAL_RULES)
        depth = r.choice([1, 2, 3]) if dims >= 3 else r.choice([1, 2, 3, 4])
        if rule == "gauss-patterson":
            depth = min(depth, 3)
        ty = r.choice(TYPES)
        opts += [("depth", depth), ("type", ty), ("rule", rule)]
        if rule in NEEDS_ALPHA or r.random() < 0.05:
            opts.append(("-alpha", r.choice(["0.5", "0.25", "1.5", "2", "-0.5", "0"])))
        if rule.startswith("gauss-jacobi") or r.random() < 0.05:
            opts.append(("-beta", r.choice(["0.5", "0.75", "1", "-0.25"])))
        if r.random() < 0.3:
            n = 2 * dims if "curved" in ty else dims
            opts.append(("af", s.newfile([[float(r.choice([1, 2, 3])) if k < dims else float(r.choice([0, 1])) for k in range(n)]], "an")))
        if rule in UNBOUNDED:
            dom = (0.0, 2.0) if "laguerre" in rule else (-1.5, 1.5)
        info["rule"] = rule
    elif kind == "sequence":
        rule = r.choice(SEQ_RULES)
        ty = r.choice(TYPES)
        opts += [("depth", r.choice([1, 2, 3, 4, 5])), ("type", ty), ("rule", rule)]
        if r.random() < 0.3:
            n = 2 * dims if "curved" in ty else dims
            opts.append(("af", s.newfile([[float(r.choice([1, 2, 3])) if k < dims else float(r.choice([0, 1])) for k in range(n)]], "an")))
        info["rule"] = rule
    elif kind == "localp":
        rule = r.choice(LOCAL_RULES)
        order = r.choice([0, 1, 1, 2, 3, -1])
        if rule == "semi-localp" and order < 2:
            order = 2
        if rule == "localp-boundary" and order in (0,):
            order = 1
        depth = r.choice([1, 2, 3]) if dims >= 3 else r.choice([2, 3, 4])
        opts += [("depth", depth), ("order", order), ("rule", rule)]
        info["rule"] = rule
    elif kind == "wavelet":
        order = r.choice([1, 3])
        depth = r.choice([0, 1]) if (dims >= 3 or order == 3) else r.choice([1, 2])
        opts += [("depth", depth), ("order", order)]
    else:
        ty = r.choice(TYPES)
        opts += [("depth", r.choice([1, 2]) if dims >= 3 else r.choice([1, 2, 3])), ("type", ty)]
        if r.random() < 0.3:
            n = 2 * dims if "curved" in ty else dims
            opts.append(("af", s.newfile([[float(r.choice([1, 2])) if k < dims else float(r.choice([0, 1])) for k in range(n)]], "an")))
        dom = (0.0, 1.0)
    if r.random() < 0.25:
        rows = [[r.choice([-2.0, -1.0, 0.0, 0.5]), r.choice([1.0, 2.0, 3.5])] for _ in range(dims)]
        if info.get("rule") in UNBOUNDED:
            rows = [[r.choice([-1.0, 0.0, 0.5]), r.choice([0.5, 1.0, 2.0])] for _ in range(dims)]
        opts.append(("tf", s.newfile(rows, "tr")))
        if info.get("rule") not in UNBOUNDED:
            dom = (max(x[0] for x in rows), min(x[1] for x in rows))
        info["transform"] = True
    if r.random() < 0.1 and info.get("rule") not in UNBOUNDED:
        opts += [("ct", "asin"), ("-conformalfile", s.newfile([[float(r.choice([0, 2, 4, 6])) for _ in range(dims)]], "cm"))]
    if r.random() < 0.25:
        opts.append(("lf", limits_file(s, r, dims, local=kind in ("localp", "wavelet"))))
    opts.append(("gf", gf))
    so, of = sink_opts(s, r, force=False)
    opts += so
    r.shuffle(opts)
    info["dom"] = dom
    ok = s.do({"global": "makeglobal", "sequence": "makesequence", "localp": "makelocalp", "wavelet": "makewavelet",
               "fourier": "makefourier"}[kind], opts, of)
    info["accepted"] = ok
    return info


def quadrature_invocation(s, r, rule=None):
    rule = rule or r.choice(GLOBAL_RULES + ["fourier", "wavelet"] + LOCAL_RULES)
    dims = r.choice([1, 2, 3])
    opts = [("dim", dims), ("depth", r.choice([1, 2, 3])), ("rule", rule)]
    if rule in LOCAL_RULES:
        opts.append(("order", r.choice([1, 2]) if rule != "semi-localp" else 2))
        s.tags.add("mq-localp")
    elif rule == "wavelet":
        opts.append(("order", r.choice([1, 3])))
        opts[1] = ("depth", r.choice([1, 2]))
    else:
        opts.append(("type", r.choice(TYPES)))
    if rule in NEEDS_ALPHA:
        opts.append(("-alpha", r.choice(["0.5", "0.25", "1.5", "2"])))
    if rule.startswith("gauss-jacobi"):
        opts.append(("-beta", r.choice(["0.5", "0.75", "1"])))
    if r.random() < 0.2 and rule not in UNBOUNDED:
        opts.append(("tf", s.newfile([[r.choice([-2.0, 0.0]), r.choice([1.0, 3.0])] for _ in range(dims)], "tr")))
    so, of = sink_opts(s, r, force=True)
    opts += so
    r.shuffle(opts)
    s.do("makequadrature", opts, of)


def load_values(s, r, st, gf="g.tsg"):
    """-loadvalues with f(points) of the needed (or, if none, the loaded) points; returns accepted"""
    pts = s.probe_matrix("-getneeded", gf) if st["needed"] > 0 else s.probe_matrix("-getpoints", gf)
    if pts is None:
        return False
    nr, nc, v, _ = pts
    rows = [[fval(v[i * nc:(i + 1) * nc], j) for j in range(st["outs"])] for i in range(nr)]
    if st["outs"] == 0:
        return False
    vf = s.newfile(rows, "val")
    opts = [("gf", gf), ("vf", vf)]
    if r.random() < 0.4:
        opts.append(("-ascii", None))
    r.shuffle(opts)
    return s.do("loadvalues", opts)


def query(s, r, st, dom, cmd=None):
    """one read-only command"""
    kind, dims = st["kind"], st["dims"]
    cands = ["getpoints", "getneeded", "getquadrature", "getinterweights", "evalhierarchyd", "evalhierarchys", "gethsupport",
             "getpointsindexes", "getneededindexes", "summary", "using-construct", "getdiffweights"]
    if kind in ("global", "sequence"):
        cands.append("getpoly")
    if st["loaded"] > 0 and st["outs"] > 0:
        cands += ["evaluate", "evaluate", "integrate", "differentiate", "getcoefficients"]
        if kind in ("global", "sequence", "fourier"):
            cands.append("getanisotropy")
    if s.constr and st["loaded"] == 0 and r.random() < 0.9:
        # a grid under construction without any point: matrices with zero columns (see zero-column-matrix-output-crash)
        cands = ["getpoints", "getneeded", "summary", "using-construct", "getpointsindexes"]
    cmd = cmd or r.choice(cands)
    opts = [("gf", "g.tsg")]
    of = None
    if cmd in ("summary", "using-construct"):
        if r.random() < 0.5:
            opts = [("g.tsg", None)]           # positional file name
        if r.random() < 0.3:
            opts.append(("-ascii", None))
        return s.do(cmd, opts)
    if cmd in ("getinterweights", "getdiffweights", "evalhierarchyd", "evalhierarchys", "evaluate", "differentiate"):
        opts.append(("xf", s.newfile(gen_points(r, dims, r.choice([1, 2, 5]), dom[0], dom[1]), "x")))
        if cmd == "evaluate" and r.random() < 0.15:
            opts.append(("gpu", r.choice([-1, 0])))
    if cmd == "getpoly":
        opts.append(("type", r.choice(["iptotal", "qptotal", "ipcurved", "qpcurved", "iptensor", "qptensor", "iphyperbolic", "qphyperbolic"])))
    if cmd == "getanisotropy":
        opts.append(("type", r.choice(["iptotal", "ipcurved", "qptotal", "level", "curved"])))
        if kind == "global" or r.random() < 0.5:
            opts.append(("rout", r.randrange(max(1, st["outs"])) if (kind == "global" and st["outs"] > 1) or r.random() < 0.5 else -1))
    if cmd == "getcoefficients" and kind == "fourier":
        s.tags.add("getcoeff-fourier")
    so, of = sink_opts(s, r, force=True)
    opts += so
    r.shuffle(opts)
    return s.do(cmd, opts, of)


def mutate(s, r, st, dom):
    """one state-changing command appropriate for the state; returns the command name"""
    kind, dims, outs = st["kind"], st["dims"], st["outs"]
    cands = []
    if st["needed"] > 0 and outs > 0 and not s.constr:
        cands += ["loadvalues"] * 4
    if kind in ("global", "sequence", "fourier") and not s.constr:
        cands.append("update")
    if st["loaded"] > 0 and outs > 0 and not s.constr:
        if kind in ("global", "sequence", "fourier"):
            cands += ["refineaniso", "refine"]
        if kind in ("localp", "wavelet"):
            cands += ["refinesurp", "refinesurp", "refine"]
        if kind == "sequence":
            cands.append("refinesurp")
        cands.append("setcoefficients")
    if st["needed"] > 0 and st["loaded"] > 0:
        cands += ["cancelrefine", "mergerefine"]
    if outs > 0:
        cands += ["getconstructpnts", "loadconstructed"]
        if s.constr:
            cands += ["loadconstructed", "loadconstructed", "cancelrefine"]
    if r.random() < 0.05:
        cands.append("setconformal")
    if not cands:
        cands = ["mergerefine"]
    cmd = r.choice(cands)
    opts = [("gf", "g.tsg")]
    of = None
    asc = r.random() < 0.4
    if cmd == "loadvalues":
        return cmd if load_values(s, r, st) else cmd
    if cmd == "update":
        ty = r.choice(TYPES)
        opts += [("depth", r.choice([2, 3, 4])), ("type", ty)]
        if r.random() < 0.3:
            n = 2 * dims if "curved" in ty else dims
            opts.append(("af", s.newfile([[float(r.choice([1, 2])) if k < dims else float(r.choice([0, 1])) for k in range(n)]], "an")))
    elif cmd in ("refineaniso", "refine") and kind in ("global", "sequence", "fourier"):
        opts.append(("type", r.choice(["iptotal", "ipcurved", "qptotal", "level", "iphyperbolic"])))
        if r.random() < 0.6:
            opts.append(("ming", r.choice([1, 2, 5, 10])))
        if kind == "global" and outs > 1:
            opts.append(("rout", r.randrange(outs)))
        elif r.random() < 0.4:
            opts.append(("rout", r.choice([-1] + list(range(outs)))))
        if r.random() < 0.3:
            opts.append(("lf", limits_file(s, r, dims)))
        if kind == "fourier" and cmd == "refine":
            s.tags.add("refine-fourier")
    elif cmd in ("refinesurp", "refine"):
        opts += [("tol", r.choice(["0.0625", "0.001953125", "0.5", "0.000244140625", "0"])), ("rt", r.choice(REFTYPES))]
        if r.random() < 0.4:
            opts.append(("rout", r.choice([-1] + list(range(outs)))))
        if r.random() < 0.3:
            opts.append(("lf", limits_file(s, r, dims, local=kind in ("localp", "wavelet"))))
    elif cmd == "setcoefficients":
        c = s.probe_matrix("-getcoefficients")
        if c is None:
            return None
        nr, nc, v, _ = c
        rows = [[v[i * nc + j] * r.choice([1.0, 0.5, 2.0]) + r.choice([0.0, 0.125]) for j in range(nc)] for i in range(nr)]
        opts.append(("vf", s.newfile(rows, "co")))
        if kind == "fourier":
            s.tags.add("setcoeff-fourier")
    elif cmd == "getconstructpnts":
        if kind in ("localp", "wavelet"):
            opts += [("tol", r.choice(["0.0625", "0.001953125", "0"])), ("rt", r.choice(REFTYPES))]
            if r.random() < 0.3:
                opts.append(("rout", r.choice([-1] + list(range(outs)))))
        else:
            opts.append(("type", r.choice(["iptotal", "level", "ipcurved", "qptotal"])))
            if r.random() < 0.4:
                ty = [v for k, v in opts if k == "type"][0]
                n = 2 * dims if "curved" in ty else dims
                opts.append(("af", s.newfile([[float(r.choice([1, 2])) if k < dims else float(r.choice([0, 1])) for k in range(n)]], "an")))
            elif kind == "global" and outs > 1 or r.random() < 0.3:
                opts.append(("rout", r.randrange(outs)))
        if r.random() < 0.3:
            opts.append(("lf", limits_file(s, r, dims, local=kind in ("localp", "wavelet"))))
        so, of = sink_opts(s, r, force=True)
        opts += so
        asc = False
    elif cmd == "loadconstructed":
        c = s.last_candidates
        if not s.constr or not c or c[0] == 0:
            # not (yet) in construction mode, or no candidates known: use points of the grid itself
            c = s.probe_matrix("-getneeded") if st["needed"] > 0 else s.probe_matrix("-getpoints")
        if not c or c[0] == 0:
            return None
        nr, nc, v, _ = c
        take = list(range(nr))
        r.shuffle(take)
        take = take[:max(1, r.choice([1, 2, nr // 2, nr]))]
        xs = [v[i * nc:(i + 1) * nc] for i in take]
        opts += [("xf", s.newfile(xs, "x")), ("vf", s.newfile([[fval(x, j) for j in range(outs)] for x in xs], "val"))]
    elif cmd == "setconformal":
        opts += [("ct", "asin"), ("-conformalfile", s.newfile([[float(r.choice([0, 2, 4])) for _ in range(dims)]], "cm"))]
    if cmd in ("refineaniso", "refinesurp", "refine") and r.random() < 0.5:
        so, of = sink_opts(s, r, force=True)
        opts += so
        asc = False
    if asc:
        opts.append(("-ascii", None))
    r.shuffle(opts)
    ok = s.do(cmd, opts, of)
    if ok and cmd == "getconstructpnts":
        s.constr = True
        s.last_candidates = read_matrix(os.path.join(s.dt, of)) if of else None
        if s.last_candidates is None:
            s.last_candidates = s.probe_candidates = None
    if ok and cmd == "loadconstructed":
        s.constr = True
    if ok and cmd == "cancelrefine":
        s.constr = False
    return cmd


def reject_case(s, r, st, dom):
    """an invocation that lacks a required switch: both sides must refuse and leave the grid file alone"""
    which = r.choice(["evaluate-noxf", "loadvalues-novf", "getpoints-nosink", "update-notype", "evaluate-nogf", "make-nodepth"])
    if which == "evaluate-noxf":
        return s.do("evaluate", [("gf", "g.tsg"), ("of", s.outname())])
    if which == "loadvalues-novf":
        return s.do("loadvalues", [("gf", "g.tsg")])
    if which == "getpoints-nosink":
        return s.do("getpoints", [("gf", "g.tsg")])
    if which == "update-notype":
        return s.do("update", [("gf", "g.tsg"), ("depth", 3)])
    if which == "evaluate-nogf":
        return s.do("evaluate", [("xf", s.newfile(gen_points(r, st["dims"], 2), "x")), ("of", s.outname())])
    return s.do("makeglobal", [("dim", 2), ("out", 1), ("type", "level"), ("rule", "clenshaw-curtis"), ("gf", "other.tsg")])


def gen_script(s, r, flavor):
    """build and run (tool side) one script"""
    s.last_candidates = None
    target = r.choice([2, 3, 4, 4, 5, 5, 6, 6])
    if flavor == "exotic":
        return gen_exotic(s, r)
    if flavor == "quadrature":
        for _ in range(r.choice([1, 2])):
            quadrature_invocation(s, r, rule=r.choice(GLOBAL_RULES + ["fourier", "wavelet"]))
    if flavor == "mq-localp":
        quadrature_invocation(s, r, rule=r.choice(LOCAL_RULES))
    info = make_invocation(s, r, kind={"fourier": "fourier", "wavelet": "wavelet", "localp": "localp", "sequence": "sequence",
                                       "global": "global"}.get(flavor), allow_zero_out=(flavor == "zero-out"))
    if flavor == "fourier-aniso":
        # Fourier grid with several outputs of different anisotropy: -getanisotropy / -refineaniso / -refine with -refout omitted or -1 use ALL outputs
        info = make_invocation(s, r, kind="fourier", dims=2, outs=r.choice([2, 3]))
        if not info["accepted"]:
            return
        st = s.probe()
        if st.get("ok") and st["needed"] > 0 and load_values(s, r, st):
            so, of = sink_opts(s, r, force=True)
            s.do("getanisotropy", [("gf", "g.tsg"), ("type", r.choice(["iptotal", "level", "ipcurved"]))] + ([("rout", -1)] if r.random() < 0.5 else []) + so, of)
            s.do(r.choice(["refineaniso", "refine"]), [("gf", "g.tsg"), ("type", r.choice(["iptotal", "iphyperbolic"])), ("ming", r.choice([2, 5]))]
                 + ([("rout", -1)] if r.random() < 0.5 else []))
            st = s.probe()
            if st.get("ok"):
                query(s, r, st, info["dom"], "getneeded")
        return
    if flavor == "zero-out":
        s.tags.add("zero-out")
    if not info["accepted"]:
        # the tool refused the make (this is checked against the model like everything else); try a plain one
        info = make_invocation(s, r, kind="localp", dims=2, outs=1)
        if not info["accepted"]:
            return
    dom = info["dom"]
    guard = 0
    while len(s.inv) < target and guard < 14:
        guard += 1
        st = s.probe() if not s.hung else {"ok": False}
        if not st.get("ok") or st["loaded"] + st["needed"] > 1500:
            break
        x = r.random()
        fresh = st["loaded"] == 0 and st["needed"] > 0 and st["outs"] > 0 and not s.constr
        refined = st["loaded"] > 0 and st["needed"] > 0 and not s.constr
        if x < 0.06:
            reject_case(s, r, st, dom)
        elif fresh and x < 0.66:
            load_values(s, r, st)
        elif refined and x < 0.75:
            c = r.choice(["loadvalues", "loadvalues", "cancelrefine", "mergerefine", "getneeded"])
            if c == "loadvalues":
                load_values(s, r, st)
            elif c == "getneeded":
                query(s, r, st, dom, "getneeded")
            else:
                opts = [("gf", "g.tsg")] + ([("-ascii", None)] if r.random() < 0.4 else [])
                s.do(c, opts)
        elif x < 0.5:
            query(s, r, st, dom)
        else:
            if mutate(s, r, st, dom) is None:
                query(s, r, st, dom)
    if len(s.inv) < 2:
        st = s.probe()
        if st.get("ok"):
            query(s, r, st, dom)


def gen_exotic(s, r):
    """weight surrogate (ASCII grid) -> -makeexoquad -> custom-tabulated global grid from the produced rule"""
    s.snaps = ["w.tsg", "g.tsg"]
    opts = [("dim", 1), ("out", 1), ("depth", r.choice([3, 4])), ("order", r.choice([1, 2])), ("rule", "localp"), ("gf", "w.tsg"),
            ("-ascii", None)]
    if not s.do("makelocalp", opts):
        return
    pts = s.probe_matrix("-getneeded", "w.tsg")
    if pts is None:
        return
    nr, nc, v, _ = pts
    shift = r.choice(["1", "0.5", "2"])
    symm = r.random() < 0.5
    rows = [[(math.cos(1.5 * x) if symm else math.sin(2.0 * x) + 0.25 * x)] for x in v]
    if not s.do("loadvalues", [("gf", "w.tsg"), ("vf", s.newfile(rows, "val")), ("-ascii", None)]):
        return
    of = s.outname()
    opts = [("depth", r.choice([1, 2, 3])), ("-shift", shift), ("wf", "w.tsg"), ("desc", "exotic-%d" % r.randrange(100)), ("of", of)]
    if symm or r.random() < 0.3:
        opts.append(("symm", None))
    else:
        s.tags.add("exoquad-nosymm")
    if r.random() < 0.3:
        opts.append(("print", None))
    r.shuffle(opts)
    if not s.do("makeexoquad", opts, of):
        return
    if os.path.exists(os.path.join(s.dt, of)):
        shutil.copyfile(os.path.join(s.dt, of), os.path.join(s.da, "ct.rule"))
        shutil.copyfile(os.path.join(s.dt, of), os.path.join(s.dt, "ct.rule"))
        s.files["ct.rule"] = {"copy_of_tool_output": of}
        opts = [("dim", r.choice([1, 2])), ("out", 1), ("depth", r.choice([1, 2])), ("type", r.choice(["level", "qptotal"])),
                ("rule", "custom-tabulated"), ("cf", "ct.rule"), ("gf", "g.tsg"), ("of", s.outname())]
        s.inv_of = opts[-1][1]
        s.do("makeglobal", opts, opts[-1][1])
        s.do("getquadrature", [("gf", "g.tsg"), ("print", None)])


# witness scripts of the defects observed on the unchanged tree; they live in corpus/C16/*.json (run first on every
# run); this function only regenerates those files:  python3 props/C16.py --export-corpus
def witness_scripts():
    W = []
    W.append(("w-F11-makequadrature-localp", [["-makequadrature", "-dimensions", "1", "-depth", "2", "-onedim", "localp", "-order", "1",
                                               "-outputfile", "q.out", "-ascii"],
                                              ["-makelocalpoly", "-dimensions", "1", "-outputs", "1", "-depth", "2", "-onedim", "localp",
                                               "-order", "1", "-gridfile", "g.tsg"]], {}, {"q.out": 0}))
    pts5 = [[0.0], [-1.0], [1.0], [-0.5], [0.5]]
    vals2 = [[fval(p, 0), fval(p, 1)] for p in pts5]
    mk2 = ["-makelocalpoly", "-dimensions", "1", "-outputs", "2", "-depth", "2", "-onedim", "localp", "-order", "1", "-gridfile", "g.tsg"]
    ld = ["-loadvalues", "-gridfile", "g.tsg", "-valsfile", "v.txt"]
    W.append(("w-F13-refinesurp-scale-all-outputs", [mk2, ld, ["-refinesurp", "-gridfile", "g.tsg", "-tolerance", "0.0001220703125", "-reftype",
                                                               "classic", "-valsfile", "s2.txt", "-outputfile", "n.out"]],
              {"v.txt": vals2, "s2.txt": [[1.0, 0.5]] * 5}, {"n.out": 2}))
    W.append(("w-F13-refinesurp-scale-one-output", [mk2, ld, ["-refinesurp", "-gridfile", "g.tsg", "-tolerance", "0.0001220703125", "-reftype",
                                                              "classic", "-refout", "1", "-valsfile", "s1.txt", "-outputfile", "n.out"]],
              {"v.txt": vals2, "s1.txt": [[1.0]] * 5}, {"n.out": 2}))
    mk1 = ["-makelocalpoly", "-dimensions", "1", "-outputs", "1", "-depth", "2", "-onedim", "localp", "-order", "1", "-gridfile", "g.tsg"]
    W.append(("w-refinesurp-scale-single-output", [mk1, ["-loadvalues", "-gridfile", "g.tsg", "-valsfile", "v1.txt"],
                                                   ["-refinesurp", "-gridfile", "g.tsg", "-tolerance", "0.0001220703125", "-reftype", "classic",
                                                    "-valsfile", "s1.txt", "-outputfile", "n.out"]],
              {"v1.txt": [[fval(p, 0)] for p in pts5], "s1.txt": [[1.0]] * 5}, {"n.out": 2}))
    W.append(("w-float32-alpha", [["-makeglobal", "-dimensions", "1", "-outputs", "1", "-depth", "2", "-type", "level", "-onedim",
                                   "gauss-gegenbauer", "-alpha", "0.3", "-gridfile", "g.tsg", "-outputfile", "p.out"],
                                  ["-getquadrature", "-gridfile", "g.tsg", "-outputfile", "q.out"]], {}, {"p.out": 0, "q.out": 1}))
    W.append(("w-outputs-zero", [["-makeglobal", "-dimensions", "2", "-outputs", "0", "-depth", "2", "-type", "level", "-onedim",
                                  "clenshaw-curtis", "-gridfile", "g.tsg"],
                                 ["-getquadrature", "-gridfile", "g.tsg", "-outputfile", "q.out"]], {}, {"q.out": 1}))
    mkcc = ["-makeglobal", "-dimensions", "2", "-outputs", "1", "-depth", "2", "-type", "level", "-onedim", "clenshaw-curtis",
            "-gridfile", "g.tsg", "-ascii"]
    W.append(("w-using-construct-rewrites", [mkcc, ["-using-construct", "-gridfile", "g.tsg"], ["-getpoints", "-gridfile", "g.tsg", "-outputfile",
                                                                                                  "p.out"]], {}, {"p.out": 2}))
    fpts = [[0.0], [1.0 / 3.0], [2.0 / 3.0]]
    W.append(("w-refine-fourier", [["-makefourier", "-dimensions", "1", "-outputs", "1", "-depth", "1", "-type", "level", "-gridfile", "g.tsg"],
                                   ["-loadvalues", "-gridfile", "g.tsg", "-valsfile", "v.txt"],
                                   ["-refine", "-gridfile", "g.tsg", "-type", "iptotal", "-mingrowth", "2", "-outputfile", "n.out"]],
              {"v.txt": [[math.exp(math.cos(2 * math.pi * p[0]))] for p in fpts]}, {"n.out": 2}))
    W.append(("w-setcoefficients-fourier", [["-makefourier", "-dimensions", "1", "-outputs", "1", "-depth", "1", "-type", "level", "-gridfile",
                                             "g.tsg"],
                                            ["-setcoefficients", "-gridfile", "g.tsg", "-valsfile", "c.txt"],
                                            ["-getcoefficients", "-gridfile", "g.tsg", "-outputfile", "c.out"]],
              {"c.txt": [[1.0, 0.0], [0.5, 0.25], [0.5, -0.25]]}, {"c.out": 2}))
    W.append(("w-zero-column-print", [mk1, ["-getconstructpnts", "-gridfile", "g.tsg", "-tolerance", "0.0625", "-reftype", "classic",
                                             "-outputfile", "c.out"],
                                      ["-evalhierarchyd", "-gridfile", "g.tsg", "-xfile", "x.txt", "-print"]],
              {"x.txt": [[0.25], [0.5]]}, {}))
    W.append(("w-getcoefficients-fourier-print", [["-makefourier", "-dimensions", "1", "-outputs", "1", "-depth", "1", "-type", "level",
                                                   "-gridfile", "g.tsg"],
                                                  ["-loadvalues", "-gridfile", "g.tsg", "-valsfile", "v.txt"],
                                                  ["-getcoefficients", "-gridfile", "g.tsg", "-print"]],
              {"v.txt": [[math.exp(math.cos(2 * math.pi * p[0]) + 0.5 * math.sin(2 * math.pi * p[0]))] for p in fpts]}, {}))
    W.append(("w-sparse-output-empty", [["-makelocalpoly", "-dimensions", "1", "-outputs", "1", "-depth", "2", "-order", "1", "-onedim",
                                         "localp-zero", "-gridfile", "g.tsg"],
                                        ["-evalhierarchys", "-gridfile", "g.tsg", "-xfile", "xo.txt", "-outputfile", "s.out", "-ascii"]],
              {"xo.txt": [[5.0]]}, {}))
    return W


# ---------------------------------------------------------------------------------------------------------------
# comparison
def known_key(s_tags, inv, what, api_status, tables):
    """stable keys of the defect classes observed on the unchanged tree (see fixes/C16-findings.txt).  A key is given
    only when the regenerated tables still show the defective source shape (where the defect is visible there) AND the
    symptom is the one of that defect, so that a different failure of the same command is not hidden behind the key."""
    argv, cmd, err = inv["argv"], inv["cmd"], inv["err"]
    has = lambda *names: any(a in argv for a in names)

    def val(*names):
        for n in names:
            if n in argv and argv.index(n) + 1 < len(argv):
                return argv[argv.index(n) + 1]
        return None
    rule = val("-1d", "-onedim")
    if cmd == "makequadrature" and rule in LOCAL_RULES and tables.get("mq_localp_defect") and \
            (what in ("output", "stdout") or (what == "status" and "makeWaveletGrid" in err)):
        return "makequadrature-localp-rule"
    if cmd in ("refinesurp", "refine") and has("-vf", "-valsfile") and what == "status":
        if "number of weights must match the number of outputs" in err or "there must be one weight per output" in err:
            return "refinesurp-scale-width"
        if "incorrect size for scale_correction" in err and not tables.get("vector_overload_fixed"):
            return "refinesurp-scale-library-size"
    if tables.get("float32_options") and what in ("grid", "output", "stdout"):
        for o in tables["float32_options"]:
            v = val(o)
            if v is not None:
                try:
                    if struct.unpack("f", struct.pack("f", float(v)))[0] != float(v):
                        return "float32-option-precision"
                except (ValueError, OverflowError):
                    pass
    if cmd.startswith("make") and cmd not in ("makequadrature", "makeexoquad") and val("-out", "-outputs") == "0" \
            and tables.get("positive_outputs_required") == "true" and what == "status" and "could be zero" in err:
        return "make-outputs-zero-rejected"
    if cmd == "using-construct" and what == "grid" and "-using-construct" in tables.get("const_list_deviations", []):
        return "using-construct-rewrites-gridfile"
    if cmd == "refine" and "refine-fourier" in s_tags and what == "status" and "called for a Fourier grid" in err:
        return "refine-fourier-dispatch"
    if cmd == "setcoefficients" and "setcoeff-fourier" in s_tags and what == "grid":
        return "setcoefficients-fourier-layout"
    if inv.get("zero_cols") and inv.get("rc") in (-11, -6) and what == "status":
        return "zero-column-matrix-output-crash"
    if cmd == "evalhierarchys" and inv.get("rc") == -11 and what == "status" and inv.get("empty_sparse") and \
            (has("-ascii") or has("-p", "-print")):
        return "sparse-output-empty-crash"
    if cmd == "getcoefficients" and what == "stdout" and "getcoeff-fourier" in s_tags and tables.get("complex_print_defect"):
        return "getcoefficients-fourier-print"
    return None


def compare_script(sc, api_status, runner, counters):
    """returns None or (index, what, detail) for the first divergence"""
    prev = {}
    for i, inv in enumerate(sc.inv):
        ast = api_status.get(i, "missing")
        tool_ok = inv["rc"] == 0
        api_ok = ast == "ok"
        if ast == "not run":
            return None
        if inv["rc"] == -99:
            counters["timeouts"] += 1
            return None
        if ast.startswith("crash timeout") or (inv["rc"] == -9 and not api_ok):
            # the library does not return (both sides call the same code; e.g. anisotropic refinement with saturated level
            # limits): not a difference between the tool and the API; stop judging this script and count it
            counters["timeouts"] += 1
            return None
        if tool_ok != api_ok:
            return i, "status", "tool exit code %s (%s) but the library call sequence gives: %s" % (
                inv["rc"], (inv["err"].strip().split("\n") or [""])[-1][:160], ast[:200])
        # grid files (an invocation refused by both sides may still have rewritten the tool's file, e.g. after a failed
        # size test of a matrix; such scripts are outside the property: stop comparing, count, no violation)
        both_reject = (not tool_ok) and (not api_ok)
        for g in sc.snaps:
            a = os.path.join(sc.dt, g + ".tool%d" % i)
            b = os.path.join(sc.da, g + ".api%d" % i)
            ea, eb = os.path.exists(a), os.path.exists(b)
            if both_reject and (ea != eb or (ea and open(a, "rb").read() != open(b, "rb").read())):
                counters["refused_with_side_effect"] += 1
                return None
            if ea != eb:
                return i, "grid", "grid file %s exists after the invocation: tool=%s api=%s" % (g, ea, eb)
            if not ea:
                continue
            ba, bb = open(a, "rb").read(), open(b, "rb").read()
            counters["grid_files_compared"] += 1
            if ba != bb:
                bin_a, bin_b = ba[:3] == b"TSG", bb[:3] == b"TSG"
                if bin_a or bin_b:
                    return i, "grid", "grid file %s differs (tool: %s %d bytes, api: %s %d bytes)" % (
                        g, "binary" if bin_a else "ascii", len(ba), "binary" if bin_b else "ascii", len(bb))
                if ba.split() != bb.split():
                    return i, "grid", "ASCII grid file %s differs token-wise" % g
        if not tool_ok:
            counters["rejected_by_both"] += 1
            continue
        counters["accepted_by_both"] += 1
        # output file
        of = inv["outfile"]
        if of:
            a, b = os.path.join(sc.dt, of), os.path.join(sc.da, of)
            ea, eb = os.path.exists(a), os.path.exists(b)
            if ea != eb:
                return i, "output", "output file %s: written by tool=%s by api=%s" % (of, ea, eb)
            if ea:
                ba, bb = open(a, "rb").read(), open(b, "rb").read()
                counters["output_files_compared"] += 1
                if ba[:3] == b"TSG" or bb[:3] == b"TSG":
                    if ba != bb:
                        ma, mb = read_matrix(a), read_matrix(b)
                        return i, "output", "binary output %s differs: tool %s api %s" % (
                            of, ma and (ma[0], ma[1], ma[2][:4]), mb and (mb[0], mb[1], mb[2][:4]))
                    if inv["cmd"] != "evalhierarchys" and len(ba) <= 200000:
                        rc, so, se = vlib.run([runner, "matcheck", a], timeout=60)
                        counters["matrix_files_model_checked"] += 1
                        if not so.startswith("ok"):
                            return i, "matrix-format", "extracted readMatrix/writeMatrix disagree with the tool's binary file %s: %s" % (of, so.strip())
                else:
                    if not tokens_equal(ba.decode(errors="replace").split(), bb.decode(errors="replace").split()):
                        return i, "output", "ASCII output %s differs: tool %r api %r" % (of, ba[:120], bb[:120])
        # printed output
        try:
            pb = open(os.path.join(sc.da, "stdout.api%d" % i)).read()
        except OSError:
            pb = ""
        pa = inv["out"]
        if inv["cmd"] == "summary":
            if pa.split() != pb.split():
                return i, "stdout", "printStats differs: tool %r api %r" % (pa[:200], pb[:200])
        elif not tokens_equal(text_tokens(pa), text_tokens(pb)):
            return i, "stdout", "printed output differs: tool %r api %r" % (pa[:160], pb[:160])
        counters["stdout_compared"] += 1
    return None


def _restore_pre_state(src_dir, dst_dir, snaps, i, suffix):
    shutil.rmtree(dst_dir, ignore_errors=True)
    shutil.copytree(src_dir, dst_dir)
    for g in snaps:
        pre = os.path.join(src_dir, "%s.%s%d" % (g, suffix, i - 1))
        dst = os.path.join(dst_dir, g)
        if i > 0 and os.path.exists(pre):
            shutil.copyfile(pre, dst)
        elif os.path.exists(dst):
            os.remove(dst)


def _rd(path):
    try:
        return open(path, "rb").read()
    except OSError:
        return None


TOOL_FILES = ("tasgridWrapper.cpp", "tasgridWrapper.hpp", "tasgrid_main.cpp", "clidrv.cpp")


def valgrind_library_error(cmd, cwd, timeout=170):
    """run one invocation under valgrind memcheck.  returns (found, text): found = memcheck reports an invalid access or a
    use of uninitialised memory whose innermost non-libstdc++ frame is in the LIBRARY (not in the tool/driver sources)"""
    if shutil.which("valgrind") is None:
        return False, ""
    try:
        q = subprocess.run(["valgrind", "-q", "--error-exitcode=9"] + cmd, cwd=cwd, capture_output=True, text=True, timeout=timeout)
    except subprocess.TimeoutExpired:
        return False, ""
    err = q.stderr
    if "Invalid read" not in err and "Invalid write" not in err and "uninitialised" not in err:
        return False, ""
    for line in err.split("\n"):
        m = re.match(r"==\d+==\s+(?:at|by) 0x[0-9A-Fa-f]+: (.*)", line)
        if not m:
            continue
        fm = re.search(r"\(([\w.+-]+):\d+\)\s*$", m.group(1))
        fname = fm.group(1) if fm else ""
        if not re.match(r"(tsg|Tasmanian|tasgrid|clidrv|gridtest)", fname):
            continue          # libc / libstdc++ / valgrind frames
        return (fname not in TOOL_FILES), "\n".join(err.split("\n")[:14])
    return False, ""


def library_memory_error(sc, i, drv, runner, base):
    """does the library commit a memory error (memcheck) while executing invocation i, on either side?"""
    inv = sc.inv[i]
    d = os.path.join(base, "vgT")
    _restore_pre_state(sc.dt, d, sc.snaps, i, "tool")
    found, text = valgrind_library_error([sc.tool] + inv["argv"], d)
    shutil.rmtree(d, ignore_errors=True)
    if found:
        return True, "tool side: " + text
    d = os.path.join(base, "vgA")
    _restore_pre_state(sc.da, d, sc.snaps, i, "api")
    sf = os.path.join(base, "redo.txt")
    with open(sf, "w") as fh:
        fh.write("snap " + " ".join(sc.snaps) + "\n" + " ".join(inv["argv"]) + "\n")
    found, text = valgrind_library_error([drv, runner, sf, d], d)
    shutil.rmtree(d, ignore_errors=True)
    return found, ("api side: " + text if found else "")


def self_consistent(sc, i, drv, runner, base):
    """(first filter; the second one is library_memory_error)  Re-execute invocation i on BOTH sides from its own pre-state with two different fill patterns for malloc'ed and
    freed memory (glibc MALLOC_PERTURB_).  A side that disagrees with itself reads uninitialised or freed memory inside
    the library: the outcome of that invocation is not a function of its inputs, so it cannot be compared.
    returns (consistent: bool, description)"""
    inv = sc.inv[i]
    of = inv["outfile"]
    orig_t = (inv["rc"] == 0, [_rd(os.path.join(sc.dt, "%s.tool%d" % (g, i))) for g in sc.snaps],
              _rd(os.path.join(sc.dt, of)) if of else None, inv["out"])
    for p in ("85", "170"):
        d = os.path.join(base, "redoT" + p)
        _restore_pre_state(sc.dt, d, sc.snaps, i, "tool")
        env = dict(os.environ, MALLOC_PERTURB_=p)
        try:
            q = subprocess.run([sc.tool] + inv["argv"], cwd=d, capture_output=True, timeout=40, env=env)
            got = (q.returncode == 0, [_rd(os.path.join(d, g)) for g in sc.snaps], _rd(os.path.join(d, of)) if of else None,
                   q.stdout.decode(errors="replace"))
        except subprocess.TimeoutExpired:
            got = (False, None, None, "")
        shutil.rmtree(d, ignore_errors=True)
        if got[0] != orig_t[0] or (got[0] and got != orig_t):
            return False, "the tool itself gives a different result for this invocation when malloc fills memory with 0x%02x" % int(p)
    orig_a = None
    for p in ("0", "85", "170"):
        d = os.path.join(base, "redoA" + p)
        _restore_pre_state(sc.da, d, sc.snaps, i, "api")
        sf = os.path.join(base, "redo.txt")
        with open(sf, "w") as fh:
            fh.write("snap " + " ".join(sc.snaps) + "\n" + " ".join(inv["argv"]) + "\n")
        env = dict(os.environ)
        if p != "0":
            env["MALLOC_PERTURB_"] = p
        rc, so, se = vlib.run([drv, runner, sf, d], timeout=60, env=env)
        m = re.search(r"inv 0 (.*)", so)
        st = m.group(1).strip() if (m and rc == 0) else "crash"
        got = (st == "ok", [_rd(os.path.join(d, g + ".api0")) for g in sc.snaps], _rd(os.path.join(d, of)) if of else None,
               _rd(os.path.join(d, "stdout.api0")))
        shutil.rmtree(d, ignore_errors=True)
        if orig_a is None:
            orig_a = got
        elif got[0] != orig_a[0] or (got[0] and got != orig_a):
            return False, "the library call sequence itself gives a different result when malloc fills memory with 0x%02x" % int(p)
    return True, ""


def run_api(sc, drv, runner, base):
    sf = os.path.join(base, "script.txt")
    with open(sf, "w") as fh:
        fh.write("snap " + " ".join(sc.snaps) + "\n")
        for inv in sc.inv:
            fh.write(" ".join(inv["argv"]) + "\n")
    status, first, rc, se = {}, 0, 0, ""
    # an invocation on which the tool did not return is given the same budget on the API side (both call the same
    # library code); nothing after it is executed
    hang = next((k for k, inv in enumerate(sc.inv) if inv["rc"] == -9), None)
    last = len(sc.inv) if hang is None else hang + 1
    sfr = os.path.join(base, "script.run.txt")
    with open(sfr, "w") as fh:
        fh.write("snap " + " ".join(sc.snaps) + "\n")
        for inv in sc.inv[:last]:
            fh.write(" ".join(inv["argv"]) + "\n")
    while first < last:
        budget = 120 if hang is None else 30 + 5 * hang
        rc, so, se = vlib.run([drv, runner, sfr, sc.da, str(first)], timeout=budget)
        for line in so.split("\n"):
            m = re.match(r"inv (\d+) (.*)", line)
            if m:
                status[int(m.group(1))] = m.group(2).strip()
        if rc == 0:
            break
        # the library crashed (or hung) inside an invocation: record it and resume with the next one
        k = max(status) + 1 if status else first
        if k >= last or rc > 0:
            break
        status[k] = "crash signal %s" % (-rc) if rc != -9 else "crash timeout"
        for g in sc.snaps:
            if os.path.exists(os.path.join(sc.da, g)):
                shutil.copyfile(os.path.join(sc.da, g), os.path.join(sc.da, g + ".api%d" % k))
        first = k + 1
        rc = 0
    for k in range(last, len(sc.inv)):
        status[k] = "not run"
    return rc, status, se


def fixed_script(sid, invs, files, tool, base, r):
    """run a script given as explicit argv lists (witnesses, corpus, replay)"""
    sc = Script(sid, r, tool, base)
    sc.snaps = sorted({a[a.index(k) + 1] for a in invs for k in ("-gridfile", "-gf", "-wf", "-weightfile") if k in a and a.index(k) + 1 < len(a)}
                      | {a[1] for a in invs if len(a) == 2 and a[0] in ("-s", "-summary", "-using-construct")}) or ["g.tsg"]
    for name, rows in files.items():
        if isinstance(rows, dict) and "rows" not in rows:
            continue       # a copy of a tool output (custom rule file of the exotic scripts): cannot be replayed offline
        if isinstance(rows, dict):
            fmt, rows = rows.get("fmt", "ascii"), rows["rows"]
        else:
            fmt = "ascii"
        sc.files[name] = {"rows": rows, "fmt": fmt}
        for d in (sc.dt, sc.da):
            write_matrix(os.path.join(d, name), rows, fmt)
    sw2cmd = {sw: c for c, sws in COMMAND_SWITCHES.items() for sw in sws}
    for a in invs:
        rc, so, se = sc.tool_run(a[:])
        i = len(sc.inv)
        for s_ in sc.snaps:
            src = os.path.join(sc.dt, s_)
            if os.path.exists(src):
                shutil.copyfile(src, src + ".tool%d" % i)
        of = None
        for k in ("-of", "-outputfile", "-outfile"):
            if k in a and a.index(k) + 1 < len(a):
                of = a[a.index(k) + 1]
        sc.inv.append({"argv": a[:], "cmd": sw2cmd.get(a[0], a[0]), "rc": rc, "out": so, "err": se, "outfile": of})
        if sc.inv[-1]["cmd"] == "refine":
            st = sc.probe(sc.snaps[0])
            if st.get("kind") == "fourier":
                sc.tags.add("refine-fourier")
        if sc.inv[-1]["cmd"] in ("setcoefficients", "getcoefficients"):
            st = sc.probe(sc.snaps[0])
            if st.get("kind") == "fourier":
                sc.tags.add("setcoeff-fourier" if sc.inv[-1]["cmd"] == "setcoefficients" else "getcoeff-fourier")
    return sc


def script_record(sc):
    return {"script": [inv["argv"] for inv in sc.inv],
            "files": {n: f for n, f in sc.files.items()},
            "tool": [{"rc": inv["rc"], "stderr": inv["err"][-300:], "stdout": inv["out"][:300]} for inv in sc.inv]}


FLAVORS = (["any"] * 10 + ["global", "sequence", "localp", "wavelet", "fourier"] * 2 + ["quadrature"] * 3 + ["exotic", "zero-out", "mq-localp"])


def one_script(idx, seed, tool, drv, runner, replay_obj=None, witness=None, tables=None):
    import time
    t0 = time.time()
    r = vlib.rng(seed, PID, idx)
    base = os.path.join(WORK, "s%s" % idx)
    os.makedirs(base, exist_ok=True)
    if witness is not None:
        name, invs, files, _ = witness
        sc = fixed_script(name, invs, files, tool, base, r)
        flavor = "witness"
    elif replay_obj is not None:
        sc = fixed_script("replay", replay_obj["script"], replay_obj.get("files", {}), tool, base, r)
        flavor = "replay" if idx == "replay" else "corpus"
    else:
        flavor = r.choice(FLAVORS)
        if isinstance(idx, int) and idx % 40 in (1, 2):
            flavor = "fourier-aniso"       # always exercised, also in the quick tier
        sc = Script(idx, r, tool, base)
        gen_script(sc, r, flavor)
    nondet = None
    counters = {k: 0 for k in ("nondeterministic", "grid_files_compared", "output_files_compared", "stdout_compared", "accepted_by_both", "rejected_by_both",
                               "matrix_files_model_checked", "refused_with_side_effect", "timeouts")}
    rc, status, se = run_api(sc, drv, runner, base)
    hang = next((k for k, inv in enumerate(sc.inv) if inv["rc"] == -9), None)
    if hang is not None and status.get(hang) == "ok":
        # the tool ran out of its budget where the library calls returned: a hang is claimed only after a second run of
        # the tool from the same pre-state with 10x the budget
        d = os.path.join(base, "redoH")
        _restore_pre_state(sc.dt, d, sc.snaps, hang, "tool")
        try:
            subprocess.run([tool] + sc.inv[hang]["argv"], cwd=d, capture_output=True, timeout=200)
            sc.inv[hang]["rc"] = -99          # slow, not hanging: not judged
        except subprocess.TimeoutExpired:
            pass
        shutil.rmtree(d, ignore_errors=True)
    div = None
    if rc != 0:
        div = (0, "driver", "clidrv failed: rc=%s %s" % (rc, se[-300:]))
    else:
        div = compare_script(sc, status, runner, counters)
    text = "\n".join(" ".join(i["argv"]) for i in sc.inv)
    zero_cols = False
    if div and div[1] == "status" and div[0] < len(sc.inv):
        cands = [os.path.join(sc.da, "stdout.api%d" % div[0])]
        if sc.inv[div[0]]["outfile"]:
            cands.append(os.path.join(sc.da, sc.inv[div[0]]["outfile"]))
        for c in cands:
            m = read_matrix(c)
            if m and m[0] > 0 and m[1] == 0:
                zero_cols = True
    empty_sparse = False
    if div and div[1] == "status" and div[0] < len(sc.inv) and sc.inv[div[0]]["cmd"] == "evalhierarchys":
        for c in [os.path.join(sc.da, "stdout.api%d" % div[0])] + ([os.path.join(sc.da, sc.inv[div[0]]["outfile"])] if sc.inv[div[0]]["outfile"] else []):
            b = _rd(c) or b""
            if b[:3] == b"TSG" and len(b) >= 15:
                empty_sparse = empty_sparse or struct.unpack("<iii", b[3:15])[2] == 0
            else:
                t = b.split()
                empty_sparse = empty_sparse or (len(t) >= 3 and t[2] == b"0")
    key = None
    if div and div[0] < len(sc.inv):
        iv = sc.inv[div[0]]
        key = known_key(sc.tags, {"cmd": iv["cmd"], "argv": iv["argv"], "err": iv["err"], "rc": iv["rc"], "zero_cols": zero_cols,
                                  "empty_sparse": empty_sparse}, div[1], status.get(div[0]), tables or {})
        if key is None and div[1] in ("status", "grid", "output", "stdout"):
            # an unexplained difference: is the outcome of this invocation a function of its inputs at all?
            okc, why = self_consistent(sc, div[0], drv, runner, base)
            if okc:
                bad, vtext = library_memory_error(sc, div[0], drv, runner, base)
                if bad:
                    okc, why = False, "memcheck: the library reads/writes outside its objects or uses uninitialised memory: " + vtext[:900]
            if not okc:
                counters["nondeterministic"] += 1
                nondet = {"script": [i_["argv"] for i_ in sc.inv], "invocation": div[0], "why": why, "difference": div[2][:200]}
                div = None
    res = {"idx": idx, "zero_cols": zero_cols, "nondet": nondet, "empty_sparse": empty_sparse, "key": key, "wall": round(time.time() - t0, 2), "flavor": flavor, "ninv": len(sc.inv), "commands": [i["cmd"] for i in sc.inv], "counters": counters,
           "hash": hashlib.sha256(text.encode()).hexdigest()[:16], "div": div, "api_status": status,
           "record": script_record(sc) if div else None, "tags": sorted(sc.tags), "text": text,
           "inv_meta": [{"cmd": i["cmd"], "argv": i["argv"], "err": i["err"][-400:], "rc": i["rc"]} for i in sc.inv] if div else None,
           "mutating_ok": sum(1 for k, i in enumerate(sc.inv) if i["rc"] == 0 and status.get(k) == "ok" and
                              i["cmd"] not in ("getpoints", "getneeded", "getquadrature", "getinterweights", "getdiffweights", "evaluate",
                                               "integrate", "differentiate", "evalhierarchyd", "evalhierarchys", "gethsupport",
                                               "getanisotropy", "getcoefficients", "getpoly", "summary", "using-construct",
                                               "getpointsindexes", "getneededindexes", "makequadrature"))}
    if not div:
        shutil.rmtree(base, ignore_errors=True)
    return res


# ---------------------------------------------------------------------------------------------------------------
def alias_checks(res, tool, tables):
    """direct evaluation on the implementation: every documented spelling of a command must select that command"""
    n = 0
    base = os.path.join(WORK, "alias")
    shutil.rmtree(base, ignore_errors=True)
    os.makedirs(base)
    mk = ["-makeglobal", "-dimensions", "2", "-outputs", "1", "-depth", "2", "-type", "level", "-onedim", "clenshaw-curtis", "-gridfile", "g.tsg"]
    subprocess.run([tool] + mk, cwd=base, capture_output=True)
    for dev in tables.get("help_deviations", []):
        n += 1
        if dev == "-getneededpoints":
            p = subprocess.run([tool, "-getneededpoints", "-gridfile", "g.tsg", "-print"], cwd=base, capture_output=True, text=True)
            q = subprocess.run([tool, "-gn", "-gridfile", "g.tsg", "-print"], cwd=base, capture_output=True, text=True)
            if p.returncode != q.returncode or p.stdout != q.stdout:
                res.violation("doc-switch-getneededpoints",
                              "`tasgrid -getneededpoints` (the spelling of `tasgrid -help` and Doxygen/InterfaceCLI.md) is an unknown command "
                              "(exit %d) while its documented shorthand -gn prints the needed points" % p.returncode,
                              {"kind": "impl-counterexample", "script": [mk, ["-getneededpoints", "-gridfile", "g.tsg", "-print"]],
                               "observed": p.stdout[:200], "expected": q.stdout[:200]})
        elif dev == "-setcoefficients":
            co = [[0.5]] * 13
            write_matrix(os.path.join(base, "c.txt"), co, "ascii")
            p = subprocess.run([tool, "-sc", "-gridfile", "g.tsg", "-valsfile", "c.txt"], cwd=base, capture_output=True, text=True)
            q = subprocess.run([tool, "-setcoefficients", "-gridfile", "g.tsg", "-valsfile", "c.txt"], cwd=base, capture_output=True, text=True)
            if p.returncode != q.returncode:
                res.violation("doc-switch-sc-shadowed",
                              "`-sc`, the documented shorthand of -setcoefficients, runs -setconformal (the second \"-sc\" entry of the "
                              "std::map initialiser in hasCommand is dead): exit %d (%s) vs %d for -setcoefficients"
                              % (p.returncode, p.stderr.strip().split("\n")[0][:100], q.returncode),
                              {"kind": "impl-counterexample", "script": [mk, ["-sc", "-gridfile", "g.tsg", "-valsfile", "c.txt"]],
                               "files": {"c.txt": co}})
        else:
            res.violation("doc-switch/" + dev, "help row %s does not resolve to one command" % dev,
                          {"kind": "impl-counterexample", "row": dev})
    for sw in tables.get("ambiguous_switches", []):
        if sw != "-sc":
            n += 1
            res.violation("switch-clash/" + sw, "switch %s is bound to two commands in hasCommand" % sw, {"kind": "impl-counterexample", "switch": sw})
    return n


def valgrind_exoquad(tool):
    """-makeexoquad without -symmetric under valgrind: the wrapper must not read an uninitialised flag.
    returns None (not run), or (clean: bool, script, text)"""
    if shutil.which("valgrind") is None:
        return None
    base = os.path.join(WORK, "vg")
    shutil.rmtree(base, ignore_errors=True)
    os.makedirs(base)
    mk = ["-makelocalpoly", "-dimensions", "1", "-outputs", "1", "-depth", "3", "-order", "1", "-onedim", "localp", "-gridfile", "w.tsg", "-ascii"]
    subprocess.run([tool] + mk, cwd=base, capture_output=True)
    p = subprocess.run([tool, "-getneeded", "-gridfile", "w.tsg", "-outputfile", "n.out", "-ascii"], cwd=base, capture_output=True)
    m = read_matrix(os.path.join(base, "n.out"))
    if m is None:
        return None
    vals = [[math.sin(2.0 * x) + 0.25 * x] for x in m[2]]
    write_matrix(os.path.join(base, "v.txt"), vals, "ascii")
    ld = ["-loadvalues", "-gridfile", "w.tsg", "-valsfile", "v.txt", "-ascii"]
    subprocess.run([tool] + ld, cwd=base, capture_output=True)
    ex = ["-makeexoquad", "-depth", "2", "-shift", "2", "-weightfile", "w.tsg", "-description", "vg", "-outputfile", "ct.out"]
    try:
        q = subprocess.run(["valgrind", "-q", "--error-exitcode=9", tool] + ex, cwd=base, capture_output=True, text=True, timeout=170)
    except subprocess.TimeoutExpired:
        return None
    bad = q.returncode == 9 and "uninitialised" in q.stderr
    return (not bad, {"script": [mk, ld, ex], "files": {"v.txt": vals}}, q.stderr[:600])


def read_tables(runner):
    rc, so, se = vlib.run([runner, "tables"], timeout=60)
    t = {"switches": []}
    for line in so.split("\n"):
        w = line.split()
        if not w:
            continue
        if w[0] == "switch":
            t["switches"].append((w[1], w[2]))
        elif w[0] in ("ambiguous_switches", "help_deviations", "const_list_deviations", "float32_options"):
            t[w[0]] = w[1:]
        elif len(w) == 2:
            t[w[0]] = w[1]
    # the source text of the grid-family choice of -makequadrature (data emitted by the translator)
    try:
        gen = open(os.path.join(vlib.COQDIR, "gen", "CliTable.v")).read()
        m = re.search(r'\("([^"]*)", "makeLocalPolynomialGrid"\)', gen)
        t["mq_localp_defect"] = bool(m) and "isLocalPolynomial(rule)" not in m.group(1)
    except OSError:
        t["mq_localp_defect"] = False
    try:
        w = vlib.repo_file("Tasgrid/tasgridWrapper.cpp")
        m = re.search(r"void TasgridWrapper::printMatrix\(.*?\n\}", w, re.S)
        t["complex_print_defect"] = bool(m) and "matrix(cols, mat)" in m.group(0)
    except OSError:
        t["complex_print_defect"] = False
    try:
        lib = vlib.repo_file("SparseGrids/TasmanianSparseGrid.cpp")
        t["vector_overload_fixed"] = "size_t nscale = (size_t) base->getNumNeeded();" not in lib
    except OSError:
        t["vector_overload_fixed"] = True
    return t


def run(res, tier, seed, replay_obj=None):
    os.makedirs(WORK, exist_ok=True)
    for d in os.listdir(WORK):          # directories of diverging scripts of the previous run
        if re.fullmatch(r"s.+", d) or d in ("alias", "vg"):
            shutil.rmtree(os.path.join(WORK, d), ignore_errors=True)
    tr_ok, tr_msg = regenerate_table()
    props = vlib.coq_props(PID)
    vlib.proof_coverage(res, PID, props, "python3 translator/clitable.py $REPO coq/gen/CliTable.v && cd coq && make Props/Properties_C16.vo "
                                         "&& coqc -Q . TV Props/Properties_C16.v", TRUSTED)
    ok_ext, elog = vlib.coq_make(["Extract/ExtractCli.vo"])
    proof_broken = (not tr_ok) or (not props["ok"]) or bool(res.coverage["forbidden_tokens"])
    runner = vlib.ocaml_runner("cli") if ok_ext else None
    if runner is not None:
        runner = private_copy(runner)
    tool = private_copy(build_tool())
    drv = private_copy(vlib.build_driver("clidrv"))
    stale_model = False
    if runner is None and os.path.exists(os.path.join(vlib.ROOT, "ocaml", "_build", "cli")):
        # the regenerated tables no longer fit the model: search for a failing input with the last runner that built
        runner, stale_model, proof_broken = os.path.join(vlib.ROOT, "ocaml", "_build", "cli"), True, True
    if runner is None:
        res.violation("extraction", "extraction of the model failed (the source has a shape the model does not cover): " + elog[-400:],
                      {"kind": "proof-break", "log": elog[-3000:], "translator": tr_msg}, no_input=True)
        res.coverage.update({"evaluations": 0, "programs": 0, "traces_validated_against_impl": 0, "disagreements_checked": 0})
        return
    tables = read_tables(runner)

    nscripts = {"quick": 160, "thorough": 3000}[tier]
    if proof_broken:
        nscripts *= 3
    jobs = []
    alias_only = replay_obj is not None and str(replay_obj.get("key", "")).startswith(("doc-switch", "switch-clash"))
    if replay_obj is not None:
        if not alias_only and "first_divergence" in replay_obj:
            jobs.append(("replay", None, replay_obj))
        nscripts = 0
    else:
        if os.path.isdir(CORPUS):
            for f in sorted(os.listdir(CORPUS)):
                if f.endswith(".json"):
                    c = json.load(open(os.path.join(CORPUS, f)))
                    jobs.append((f[:-5], None, c))
    for i in range(nscripts):
        jobs.append((i, None, None))
    results = []
    with cf.ThreadPoolExecutor(min(12, vlib.NCPU)) as ex:
        vg = ex.submit(valgrind_exoquad, tool) if replay_obj is None else None
        futs = [ex.submit(one_script, j[0], seed, tool, drv, runner, j[2], j[1], tables) for j in jobs]
        for f in futs:
            results.append(f.result())
        vg = vg.result() if vg is not None else None
    if vg is not None and not vg[0]:
        rec = dict(vg[1])
        rec.update({"kind": "impl-counterexample", "valgrind": vg[2]})
        res.violation("makeexoquad-symmetric-uninitialised",
                      "`tasgrid -makeexoquad` without -symmetric passes the never-initialised member is_symmetric_weight_function to "
                      "getExoticQuadrature (valgrind: conditional jump depends on uninitialised value); the library default is false", rec)

    # report
    totals = {}
    cmd_count, flavors, hashes = {}, {}, set()
    disagreements, nontrivial = 0, set()
    for rr in results:
        for k, v in rr["counters"].items():
            totals[k] = totals.get(k, 0) + v
        for c in rr["commands"]:
            cmd_count[c] = cmd_count.get(c, 0) + 1
        flavors[rr["flavor"]] = flavors.get(rr["flavor"], 0) + 1
        hashes.add(rr["hash"])
        if rr["ninv"] >= 2 and rr["counters"]["accepted_by_both"] >= 2 and rr["mutating_ok"] >= 2:
            nontrivial.add(rr["hash"])
        if rr["div"]:
            disagreements += 1
            i, what, detail = rr["div"]
            meta = rr["inv_meta"][i] if rr["inv_meta"] and i < len(rr["inv_meta"]) else {"cmd": "?", "argv": [], "err": "", "rc": None}
            key = rr.get("key") or ("%s/%s" % (meta["cmd"], what))
            rec = dict(rr["record"] or {})
            rec.update({"kind": "impl-counterexample", "first_divergence": i, "what": what, "detail": detail,
                        "invocation": " ".join(meta["argv"]), "api_status": rr["api_status"].get(i), "script_id": str(rr["idx"])})
            res.violation(key, "invocation %d `tasgrid %s`: %s" % (i, " ".join(meta["argv"])[:200], detail), rec)
    nalias = alias_checks(res, tool, tables) if (replay_obj is None or alias_only) else 0
    if tables.get("const_list_deviations") and not any(k in ("using-construct-rewrites-gridfile",) for k, _ in res.known_hit) \
            and not any(v["key"] == "using-construct-rewrites-gridfile" for v in res.violations):
        for c in tables["const_list_deviations"]:
            if c != "-using-construct":
                res.violation("const-list/" + c, "command %s: membership in constcoms differs from the documentation" % c,
                              {"kind": "proof-break", "theorem": "c16_const_list_deviations_known"}, no_input=True)

    if stale_model and not res.violations:
        res.violation("extraction", "the regenerated tables do not fit Model/Cli.v any more (model does not compile): " + elog[-400:],
                      {"kind": "proof-break", "log": elog[-3000:]}, no_input=True)
    if not tr_ok and not res.violations:
        res.violation("translator", "translator/clitable.py rejects the source: " + tr_msg[:600],
                      {"kind": "proof-break", "translator": tr_msg}, no_input=True)
    if (not props["ok"] or res.coverage["forbidden_tokens"]) and not res.violations:
        res.violation("proof", "proof obligations of Properties_C16.v no longer check (%d/%d) %s" %
                      (props["discharged"], props["obligations"], res.coverage["forbidden_tokens"][:2]),
                      {"kind": "proof-break", "theorems": props["theorems"], "log": props["log"][-3000:]}, no_input=True)

    gen_cmds = set(cmd_count)
    exercised_table = sorted({c for s_, c in tables["switches"]})
    # commands of the table (named by their first switch) that the scripts ran
    first_switch = {}
    for s_, c in tables["switches"]:
        first_switch.setdefault(c, s_)
    ran_switches = set()
    for rr in results:
        for line in rr["text"].split("\n"):
            if line:
                ran_switches.add(line.split()[0])
    sw2c = dict(reversed(tables["switches"]))
    sw2c.update({s_: c for s_, c in reversed(tables["switches"])})
    lookup = {}
    for s_, c in tables["switches"]:
        lookup.setdefault(s_, c)
    ran_cmds = {lookup[s_] for s_ in ran_switches if s_ in lookup}
    res.coverage.update({
        "evaluations": sum(rr["ninv"] for rr in results),
        "distinct_nontrivial": len(nontrivial),
        "rule": "a script = 2-6 tasgrid invocations sharing one grid file, generated from VERIF_SEED (grid family, rule, depth type, "
                "option combination, ASCII/binary grid and matrix formats, documented spellings of commands and options); steered by "
                "read-only probes of the tool's grid file; non-trivial = at least 2 state-changing invocations accepted by both sides; "
                "distinct by the hash of the script text; evaluations = invocations compared",
        "samples": [rr["text"].split("\n")[:3] for rr in results[len(results) // 2:len(results) // 2 + 3]],
        "programs": len(results), "distinct_programs": len(hashes),
        "traces_validated_against_impl": len(results) - disagreements, "disagreements_checked": disagreements,
        "correspondence": dict(totals, scripts=len(results), scripts_agreeing=len(results) - disagreements),
        "input_distribution": {"flavors": flavors, "invocations_per_command": dict(sorted(cmd_count.items()))},
        "table": {"commands": int(tables.get("commands", 0)), "switch_entries": int(tables.get("switch_entries", 0)),
                  "switch_strings": int(tables.get("switch_strings", 0)), "options": int(tables.get("options", 0)),
                  "const_commands": int(tables.get("const_commands", 0)),
                  "ambiguous_switches": tables.get("ambiguous_switches", []), "help_deviations": tables.get("help_deviations", []),
                  "const_list_deviations": tables.get("const_list_deviations", []), "float32_options": tables.get("float32_options", []),
                  "positive_outputs_required": tables.get("positive_outputs_required")},
        "commands_exercised": "%d/%d" % (len(ran_cmds), int(tables.get("commands", 0))),
        "commands_not_exercised": sorted(set(first_switch[c] for c in exercised_table if c in first_switch) - {first_switch.get(c, c) for c in ran_cmds}),
        "switch_strings_exercised": "%d/%d" % (len(ran_switches & set(lookup)), len(lookup)),
        "nondeterministic_cases": [rr["nondet"] for rr in results if rr.get("nondet")][:5],
        "alias_direct_checks": nalias, "translator_ok": tr_ok, "stale_model_used": stale_model, "valgrind_checks": 0 if vg is None else 1,
        "slowest_scripts": sorted(((rr["wall"], str(rr["idx"]), rr["text"].split("\n")[-1][:120]) for rr in results), reverse=True)[:3],
    })
    res.assumptions = [
        "the documented plan of each command (Model/Cli.v) is the specification; where the tool deviates the check reports a finding",
        "grid files/binary matrices are compared byte for byte, ASCII matrices and printed output numerically with 1e-15 relative",
        "scripts contain well-formed matrix files only; rejections are generated by omitting required switches",
        "the tool and the driver link the same library objects (plain variant), so floating-point results are bit-identical by construction",
    ]


def replay(path):
    rp = json.load(open(path))
    res = vlib.Result(PID, "quick", rp.get("seed", 1), LEVEL)
    if "script" in rp and rp.get("kind") == "impl-counterexample" and "files" in rp:
        run(res, "quick", rp.get("seed", 1), replay_obj=rp)
    else:
        run(res, "quick", rp.get("seed", 1))
    return res.finish()


if __name__ == "__main__":
    import sys
    if sys.argv[1:] == ["--export-corpus"]:
        os.makedirs(CORPUS, exist_ok=True)
        for name, invs, files, _ in witness_scripts():
            with open(os.path.join(CORPUS, name + ".json"), "w") as fh:
                json.dump({"property": PID, "kind": "impl-counterexample", "script": invs, "files": files}, fh, indent=1)
        print("wrote", len(witness_scripts()), "files to", CORPUS)
