"""C13 — results do not depend on the number of OpenMP threads.

Level: proof (partial).  Theorems (coq/Props/Properties_C13.v): one per parallel-pattern class found in the source
(collect-then-sort, loops that own their output slots, level sweeps, independent lines, critical max / argmax, atomic integer
sums, the union tree) and the obligation that every `#pragma omp` of the REGENERATED coq/gen/OmpSites.v
(translator/ompsites.py) carries one of these classes.  Tie / direct evaluation: the SAME scripts (all five families;
every refinement strategy, updates, dynamic construction, batch evaluation, dense and sparse basis matrices, weights,
integration, differentiation) are run by harness/tsgdrv.cpp on the serial build and on the OpenMP build with
OMP_NUM_THREADS in {1,2,3,8,16} x OMP_SCHEDULE in {static, dynamic,1, guided}: integer outputs must be identical, numeric
outputs within 1e-12 relative.  The particle-swarm OpenMP loop is covered the same way through harness/optdrv.cpp."""
import concurrent.futures as cf
import hashlib
import importlib
import json
import os
import sys

import gridlib as gl
import vlib

LEVEL = "proof"
PID = "C13"
WORK = os.path.join(vlib.BUILD, "work", PID)

THREADS = [1, 2, 3, 8, 16]
SCHEDULES = ["static", "dynamic,1", "guided"]
INT_TAGS = {"limits", "conformal", "pidx", "nidx", "apipidx", "apinidx", "polyi", "polyq", "hsp_pntr", "hsp_indx", "inside", "estaniso"}
RTOL = 1e-12

TRUSTED = [
    "Coq 8.16.1 kernel (vm_compute in c13_sites_classified, one refutation witness and three Examples; no native_compute)",
    "axioms: none (Print Assumptions: Closed under the global context for all 12 theorems)",
    "translator/ompsites.py: TEXTUAL matcher over the current sources (rules and the table of pinned sites are restated in the header of "
    "coq/gen/OmpSites.v); the assignment of a source region to a pattern class is syntactic and trusted",
    "model granularity: an iteration of a parallel loop is an atomic job with a read set and a write set; independent jobs share no written "
    "slot, so the theorems quantify over execution ORDERS (and partitions into per-thread chunks), not over the C++ memory model",
    "g++ 12 -fopenmp / libgomp, harness/tsgdrv.cpp and harness/optdrv.cpp (shared drivers), tools/gridlib.py",
    "modelled, not verified: MultiIndexSet sorting constructor and merge (Model/IndexSets.v, tied to the code by property C07)",
]


def regenerate_sites():
    tdir = os.path.join(vlib.ROOT, "translator")
    if tdir not in sys.path:
        sys.path.insert(0, tdir)
    mod = importlib.import_module("ompsites")
    out = os.path.join(vlib.COQDIR, "gen", "OmpSites.v")
    try:
        text, facts = mod.generate(vlib.REPO)
    except mod.TranslatorError as e:
        return False, str(e), None
    with vlib.Lock("coq"):
        mod.write_if_changed(out, text)
    return True, "", facts


# ----------------------------------------------------------------------------------------------- script generation
def xs(r, spec, n, trans=None):
    return " ".join(vlib.hexf(v) for v in gl.rand_points(r, spec, n, trans))


def gen_script(r, cid, tier):
    spec = gl.rand_spec(r, max_dims=3)
    if spec["outs"] == 0:
        spec["outs"] = 1
    fam = spec["family"]
    L = ["case " + cid, gl.make_cmd(spec)]
    trans = None
    if r.random() < 0.15:
        trans = gl.rand_transform(r, spec)
        L.append(gl.trans_cmd(trans))
    L.append("dump g meta points needed pidx nidx qw")
    fn = r.choice(["hash", "poly", "smooth", "smooth"])
    L.append("load g " + fn)
    L.append("dump g meta pidx values coef")
    L.append("evalb g x: " + xs(r, spec, r.randint(3, 9), trans))
    L.append("hbasis g x: " + xs(r, spec, r.randint(2, 5), trans))
    if fam in ("localp", "wavelet"):
        L.append("hsparse g x: " + xs(r, spec, r.randint(2, 6), trans))
    L.append("integ g")
    if fam != "fourier" or True:
        L.append("diff g x: " + xs(r, spec, 1, trans))
    L.append("iw g x: " + xs(r, spec, 1, trans))
    changes = 0
    for _ in range(r.randint(1, 3 if tier == "quick" else 4)):
        k = r.random()
        if k < 0.55:
            c = gl.refine_cmds(r, spec)
            if fam in ("localp", "wavelet") and r.random() < 0.2:
                c += " scale: " + r.choice(["ones", "half", "rand"]) + " ov: vec"
            L.append(c)
            L.append("dump g meta needed nidx")
            L.append("load g " + fn)
            L.append("dump g meta pidx coef")
            L.append("evalb g x: " + xs(r, spec, r.randint(2, 6), trans))
            changes += 1
        elif k < 0.7:
            u = gl.update_cmd(r, spec)
            if u:
                L.append(u)
                L.append("dump g meta needed nidx")
                L.append("load g " + fn)
                L.append("dump g meta pidx coef")
                changes += 1
        elif k < 0.9 and not (fam == "global" and spec["rule"] in gl.GLOBAL_NONNESTED):
            # dynamic construction: candidates, deliveries in a shuffled order, finish (not for non-nested Global rules: the
            # library does not reject them but corrupts memory already in the serial build, which is not a statement about OpenMP)
            L.append("begin g")
            if fam in ("localp", "wavelet"):
                L.append("cand g surp %s %s %d" % (vlib.hexf(r.choice([0.0, 1e-3, 1e-1])), r.choice(gl.REFINE), r.choice([-1, 0])))
            elif r.random() < 0.5:
                L.append("cand g aw %s" % r.choice(["iptotal", "level", "ipcurved", "iphyperbolic"]))
            else:
                L.append("cand g out %s %d" % (r.choice(["iptotal", "ipcurved", "iphyperbolic"]), r.choice([-1, 0]) if fam != "global" else 0))
            idx = list(range(r.randint(1, 7)))
            r.shuffle(idx)
            L.append("deliver g %s idx: %s" % (fn, " ".join(map(str, idx))))
            L.append("dump g meta pidx coef")
            if r.random() < 0.5:
                L.append("cand g " + ("surp 0x0p+0 classic -1" if fam in ("localp", "wavelet") else "aw iptotal"))
            L.append("finish g")
            L.append("dump g meta pidx nidx coef")
            changes += 1
        else:
            L.append("estaniso g %s %d" % (r.choice(["iptotal", "ipcurved"]), r.choice([-1, 0]) if fam != "global" else 0))
            L.append("dump g hsupport hint")
            if fam in ("global", "sequence"):
                L.append("dump g polyi polyq")
    L.append("hbasis g x: " + xs(r, spec, r.randint(1, 4), trans))
    L.append("dw g x: " + xs(r, spec, 1, trans))
    L.append("dump g qw")
    return spec, L, changes


# witnesses: the greedy sequence optimiser (argmax under critical) and the non-nested tensor weights
CORPUS = [
    ["case corpusA", "make sequence g 2 1 6 level leja", "dump g meta points pidx qw", "load g smooth", "dump g coef", "refsimple g 0x1p-20 0", "dump g nidx"],
    ["case corpusB", "make global g 2 1 5 level max-lebesgue", "dump g meta points pidx qw", "load g smooth", "refaniso g iptotal 8 0", "dump g nidx needed"],
    ["case corpusC", "make global g 3 2 3 level gauss-legendre", "dump g meta points pidx qw", "load g poly", "integ g", "dump g polyi polyq"],
    ["case corpusD", "make localp g 3 2 4 2 localp", "load g smooth", "refsurp g 0x1p-10 fds -1", "dump g nidx", "load g smooth",
     "refsurp g 0x1p-12 stable 0", "dump g nidx needed", "load g smooth", "dump g coef"],
    ["case corpusE", "make wavelet g 2 1 3 1", "load g smooth", "refsurp g 0x1p-8 direction -1", "dump g nidx", "load g smooth", "dump g coef qw"],
    ["case corpusF", "make fourier g 2 1 4 level", "load g smooth", "dump g coef", "refaniso g iptotal 10 0", "dump g nidx", "evalb g x: 0x1p-2 0x1p-3 0x1p-1 0x1p-4"],
]


def run_scripts_safe(drv, lines, workdir, name="scripts", timeout=3000, env=None, case_timeout=60):
    """runs tsgdrv on the script; -> (rc, dict case id -> text block of that case, stderr).  Tolerant of a child that dies in the
    middle of an output line (the parent's `x crash:..` / `x hang` note is then glued to a truncated observation, which is
    dropped).  The text of a case is compared verbatim first; it is only parsed (gridlib.parse_output) when it differs."""
    import re
    os.makedirs(workdir, exist_ok=True)
    sp = os.path.join(workdir, name + ".txt")
    with open(sp, "w") as fh:
        fh.write("\n".join(lines) + "\n")
    # address-space limit (16 GB per process): a script that makes the library allocate without bound must not take the machine down
    rc, so, se = vlib.run(["bash", "-c", 'ulimit -v 16000000; exec "$0" "$@"', drv, sp, workdir, str(case_timeout)], timeout=timeout, env=env)
    with open(os.path.join(workdir, name + ".out"), "w") as fh:
        fh.write(so)
    blocks, cur, cid = {}, None, None
    for line in so.split("\n"):
        if line.startswith("case "):
            if cid is not None:
                blocks[cid] = "\n".join(cur)
            cid, cur = line[5:].strip(), [line]
            continue
        if cur is None:
            continue
        if not line.startswith("x "):
            m = re.search(r"x (crash:\S+|hang) ", line)
            if m:
                line = line[m.start():]
        cur.append(line)
    if cid is not None:
        blocks[cid] = "\n".join(cur)
    return rc, blocks, se


def parse_block(text, cid):
    return gl.parse_output(text).get(cid, [])


CHANGING = ("refsurp", "refsimple", "refaniso", "update", "deliver", "finish")


def block_facts(text):
    """(serial run crashed or hung, number of successful state-changing commands) from the text of one case"""
    broken, nchg, last = None, 0, None
    for line in text.split("\n"):
        if line.startswith("c "):
            w = line.split(None, 2)
            last = w[1] if len(w) > 1 else None
            if last in CHANGING:
                nchg += 1
        elif line.startswith("x "):
            w = line.split()
            if w[1] == "hang" or w[1].startswith("crash"):
                broken = (last or "?") + " -> " + w[1]
            if last in CHANGING:
                nchg -= 1
    return broken, nchg


def keep_build_alive(exe):
    """vlib prunes the build trees of other source hashes down to the 10 most recently used whenever somebody builds: refresh
    the time stamp of ours during a long run"""
    try:
        os.utime(os.path.dirname(os.path.dirname(exe)))
    except OSError:
        pass


def omp_env(threads, sched):
    env = dict(os.environ)
    env.update({"OMP_NUM_THREADS": str(threads), "OMP_SCHEDULE": sched, "OMP_DYNAMIC": "false", "OMP_WAIT_POLICY": "passive",
                "GOMP_SPINCOUNT": "0", "OMP_PROC_BIND": "false"})
    return env


def close(a, b):
    """numeric vectors: (identical bits, within tolerance)"""
    if len(a) != len(b):
        return False, False
    same = all(x.hex() == y.hex() if x == x else y != y for x, y in zip(a, b))
    if same:
        return True, True
    scale = max([1.0] + [abs(x) for x in a if x == x and abs(x) != float("inf")])
    for x, y in zip(a, b):
        if x != x or y != y:
            if not (x != x and y != y):
                return False, False
            continue
        if abs(x) == float("inf") or abs(y) == float("inf"):
            if x != y:
                return False, False
            continue
        if abs(x - y) > RTOL * scale:
            return False, False
    return False, True


def compare_case(ref, got):
    """-> (list of (severity, tag, step index, cmd, detail), numeric_inexact)"""
    out = []
    inexact = False
    if len(ref) != len(got):
        # a crash / hang of one build shows as a shorter transcript
        out.append(("hard", "transcript", min(len(ref), len(got)), (got[-1].cmd if got else "?"), "plain executed %d commands, omp %d" % (len(ref), len(got))))
    for i, (a, b) in enumerate(zip(ref, got)):
        if (a.exc is None) != (b.exc is None) or (a.exc and b.exc and a.exc[0] != b.exc[0]):
            out.append(("hard", "exception", i, a.cmd, "plain %s / omp %s" % (a.exc, b.exc)))
            continue
        for tag in sorted(set(a.obs) | set(b.obs)):
            va, vb = a.obs.get(tag), b.obs.get(tag)
            if va is None or vb is None:
                out.append(("hard", tag, i, a.cmd, "observation missing in one build"))
            elif tag == "meta":
                if va != vb:
                    out.append(("int", tag, i, a.cmd, "%s / %s" % (va, vb)))
            elif tag in INT_TAGS or tag in ("bytes", "written"):
                if va != vb:
                    k = next((j for j, (p, q) in enumerate(zip(va, vb)) if p != q), min(len(va), len(vb)))
                    out.append(("int", tag, i, a.cmd, "first difference at entry %d (%d vs %d entries)" % (k, len(va), len(vb))))
            else:
                bits, ok = close(va, vb)
                if not ok:
                    k = next((j for j, (p, q) in enumerate(zip(va, vb)) if p != q), 0)
                    out.append(("num", tag, i, a.cmd, "entry %d: %r vs %r" % (k, va[k] if k < len(va) else None, vb[k] if k < len(vb) else None)))
                elif not bits:
                    inexact = True
    return out, inexact


def run(res, tier, seed, replay_script=None):
    os.makedirs(WORK, exist_ok=True)
    tr_ok, tr_msg, facts = regenerate_sites()
    props = vlib.coq_props(PID)
    vlib.proof_coverage(res, PID, props, "python3 translator/ompsites.py $REPO coq/gen/OmpSites.v && cd coq && make Props/Properties_C13.vo "
                                         "&& coqc -Q . TV Props/Properties_C13.v", TRUSTED)
    proof_broken = (not tr_ok) or (not props["ok"]) or bool(res.coverage["forbidden_tokens"])
    unmatched = [f for f in (facts or []) if f["class"] == "Unmatched"]
    pdrv = vlib.build_driver("tsgdrv", "plain")
    odrv = vlib.build_driver("tsgdrv", "omp")
    popt = vlib.build_driver("optdrv", "plain")
    oopt = vlib.build_driver("optdrv", "omp")

    r = vlib.rng(seed, PID)
    n = {"quick": 200, "thorough": 5000}[tier]
    if proof_broken:
        n = int(n * 1.5)
    scripts, specs, nontriv = {}, {}, set()
    lines = []
    if replay_script:
        cid = replay_script[0].split()[1]
        scripts[cid] = list(replay_script)
        n = 0
    else:
        for ls in CORPUS:
            scripts[ls[0].split()[1]] = ls
    for i in range(n):
        cid = "s%d" % i
        spec, ls, changes = gen_script(r, cid, tier)
        scripts[cid], specs[cid] = ls, spec

    # ---- the serial build is the reference; scripts are processed in batches (bounded memory in the thorough tier)
    configs = [(t, s) for t in THREADS for s in SCHEDULES]
    stats = {"cases_compared": 0, "obs_exact": 0, "numeric_within_tol_not_bitwise": 0, "borderline_skipped": 0, "violations": 0, "hang_retries": 0}
    serial_broken = set()
    ids = list(scripts)
    BATCH = 400
    FULL_CROSS = 1600
    nruns = 0
    pool = 4 if tier == "quick" else 8
    for b0 in range(0, len(ids), BATCH):
        keep_build_alive(odrv)
        bids = ids[b0:b0 + BATCH]
        blines = []
        for cid in bids:
            blines += scripts[cid]
        tagb = "" if len(ids) <= BATCH else "-b%d" % (b0 // BATCH)
        rc0, ref, se0 = run_scripts_safe(pdrv, blines, os.path.join(WORK, "plain" + tagb), "scripts", timeout=3000, case_timeout=60)
        if rc0 != 0:
            res.violation("tsgdrv-crash", "tsgdrv (plain) exited with %d: %s" % (rc0, se0[-300:]), {"kind": "impl-counterexample", "script": blines[:40]})
        facts_of = {cid: block_facts(ref.get(cid, "")) for cid in bids}
        for cid in bids:
            if facts_of[cid][0]:
                # the SERIAL build itself crashes / does not return on this script: not a statement about OpenMP (counted)
                serial_broken.add("%s: %s ; %s" % (cid, scripts[cid][1], facts_of[cid][0]))
            if facts_of[cid][1] >= 1:
                nontriv.add(hashlib.sha256("\n".join(scripts[cid][1:]).encode()).hexdigest())

        def one(cfg, blines=blines, tagb=tagb, ref=ref, bids=bids, facts_of=facts_of):
            t, s = cfg
            wd = os.path.join(WORK, "omp-%d-%s%s" % (t, s.replace(",", "_"), tagb))
            rc, got, se = run_scripts_safe(odrv, blines, wd, "scripts", timeout=3000, env=omp_env(t, s), case_timeout=90)
            same, differing, missing = 0, [], []
            for cid in bids:
                if facts_of[cid][0]:
                    continue
                if cid not in got or cid not in ref:
                    missing.append(cid)
                elif got[cid] == ref[cid]:
                    same += 1
                else:
                    differing.append((cid, got[cid]))
            if not differing and not missing and rc == 0:
                try:
                    os.remove(os.path.join(wd, "scripts.out"))      # nothing to look at: keep the work directory small
                except OSError:
                    pass
            return cfg, rc, same, differing, missing, se
        # the full cross product thread counts x schedules for the first FULL_CROSS scripts; after that every script still runs
        # with all five thread counts, the schedule rotating with the batch (OMP_SCHEDULE only matters for schedule(runtime)
        # loops, of which the source has none) - this keeps the thorough tier inside its time budget
        bconfigs = configs if b0 < FULL_CROSS else [(t, SCHEDULES[(b0 // BATCH + k) % len(SCHEDULES)]) for k, t in enumerate(THREADS)]
        nruns += len(bids) * (len(bconfigs) + 1)
        with cf.ThreadPoolExecutor(pool) as ex:
            results = list(ex.map(one, bconfigs))
        for (t, s), rc, same, differing, missing, se in results:
            if rc != 0:
                res.violation("tsgdrv-crash", "tsgdrv (omp, %d threads, %s) exited with %d: %s" % (t, s, rc, se[-300:]),
                              {"kind": "impl-counterexample", "script": blines[:40]})
                continue
            stats["cases_compared"] += same
            stats["obs_exact"] += same
            for cid in missing:
                res.violation("omp-no-result", "case %s missing in the output of one build" % cid,
                              {"kind": "impl-counterexample", "script": scripts[cid], "threads": t, "schedule": s})
            for cid, text in differing:
                ls = scripts[cid]
                a, b = parse_block(ref[cid], cid), parse_block(text, cid)
                if any(st.exc and st.exc[0] == "hang" for st in b):
                    # a time-out is a finding only after a second run of this script alone with a 10x budget
                    stats["hang_retries"] += 1
                    rc2, again, se2 = run_scripts_safe(odrv, ls, os.path.join(WORK, "retry"), "retry-%s-%d" % (cid, t), timeout=1200,
                                                       env=omp_env(t, s), case_timeout=600)
                    if cid in again:
                        b = parse_block(again[cid], cid)
                diffs, inexact = compare_case(a, b)
                stats["cases_compared"] += 1
                if inexact:
                    stats["numeric_within_tol_not_bitwise"] += 1
                if not diffs:
                    stats["obs_exact"] += 0 if inexact else 1
                    continue
                fam = specs.get(cid, {}).get("family") or (ls[1].split()[1] if len(ls) > 1 else "?")
                for sev, tag, i, cmd, detail in diffs[:3]:
                    if sev == "int" and inexact:
                        stats["borderline_skipped"] += 1   # a threshold decision after numerically different (within tolerance) coefficients
                        continue
                    # the state-changing command that produced the observed state
                    prev = next((st.cmd.split()[0] for st in reversed(a[:i + 1]) if st.cmd.split()[0] not in ("dump",)), "?")
                    key = "omp-differs:%s:%s:%s" % (fam, tag, prev)
                    stats["violations"] += 1
                    res.violation(key, "OpenMP build with OMP_NUM_THREADS=%d OMP_SCHEDULE=%s differs from the serial build in `%s` after `%s`: %s [%s]"
                                  % (t, s, tag, cmd[:80], detail, ls[1]),
                                  {"kind": "impl-counterexample", "script": ls, "threads": t, "schedule": s, "observation": tag, "detail": detail})
        del ref, results
        if len(ids) > BATCH and not res.violations:
            try:
                os.remove(os.path.join(WORK, "plain" + tagb, "scripts.out"))
            except OSError:
                pass

    # ---- particle swarm: the velocity loop of ParticleSwarm() is the only OpenMP region of DREAM/
    swarm = {"cases": 0, "configs": 0, "differences": 0}
    if not replay_script:
        C20 = importlib.import_module("C20")
        rs = vlib.rng(seed, PID, "swarm")
        scs = [C20.gen_script(rs, "w%d" % i, tier) for i in range({"quick": 60, "thorough": 600}[tier])] + C20.corpus()
        slines = []
        for sc in scs:
            slines += C20.script_lines(sc)
        sf = os.path.join(WORK, "swarm.txt")
        open(sf, "w").write("\n".join(slines) + "\n")
        rcp, sop, sep = vlib.run([popt, sf], timeout=1500)

        def split_cases(txt):
            out, cur = {}, None
            for line in txt.split("\n"):
                if line.startswith("case "):
                    cur = line.split()[1]
                    out[cur] = []
                elif cur is not None:
                    out[cur].append(line)
            return out
        refsw = split_cases(sop)
        swarm["cases"] = len(refsw)
        for t in THREADS:
            rco, soo, seo = vlib.run([oopt, sf], timeout=1500, env=omp_env(t, "static"))
            swarm["configs"] += 1
            got = split_cases(soo)
            if rco != rcp:
                res.violation("omp-differs:swarm:exit", "optdrv exit code %d (omp, %d threads) vs %d (plain)" % (rco, t, rcp), {"kind": "impl-counterexample", "cases": sf})
            for sc in scs:
                cid = str(sc["id"])
                if refsw.get(cid) != got.get(cid):
                    swarm["differences"] += 1
                    a, b = refsw.get(cid) or [], got.get(cid) or []
                    k = next((j for j, (p, q) in enumerate(zip(a, b)) if p != q), min(len(a), len(b)))
                    res.violation("omp-differs:swarm:%s" % ((a[k].split() or ["?"])[0] if k < len(a) else "length"),
                                  "ParticleSwarm with OMP_NUM_THREADS=%d differs from the serial build at output line %d: %s / %s"
                                  % (t, k, (a[k] if k < len(a) else "")[:120], (b[k] if k < len(b) else "")[:120]),
                                  {"kind": "impl-counterexample", "script": C20.script_lines(sc), "threads": t})

    # ---- the syntactic obligation
    for f in unmatched:
        if not res.violations:
            res.violation("omp-site-unclassified:%s:%s" % (os.path.basename(f["file"]), f["func"]),
                          "OpenMP directive `%s` at %s:%d (%s) matches no proved pattern: %s; the serial and OpenMP builds agreed on all %d comparisons"
                          % (f["kind"], f["file"], f["line"], f["func"], f["note"], stats["cases_compared"]),
                          {"kind": "proof-break", "site": f}, no_input=True)
    if not tr_ok and not res.violations:
        res.violation("translator", "translator/ompsites.py rejects the source: " + tr_msg[:600], {"kind": "proof-break", "translator": tr_msg}, no_input=True)
    if proof_broken and not res.violations:
        res.violation("proof", "proof obligations of Properties_C13.v no longer check (%d/%d) %s" %
                      (props["discharged"], props["obligations"], res.coverage["forbidden_tokens"][:2]),
                      {"kind": "proof-break", "theorems": props["theorems"], "log": props["log"][-3000:]}, no_input=True)

    fam_count, cls_count = {}, {}
    for cid, sp in specs.items():
        fam_count[sp["family"]] = fam_count.get(sp["family"], 0) + 1
    for f in (facts or []):
        cls_count[f["class"]] = cls_count.get(f["class"], 0) + 1
    res.coverage.update({
        "evaluations": nruns + swarm["cases"] * (swarm["configs"] + 1),
        "distinct_nontrivial": len(nontriv),
        "rule": "scripts = make (random family/rule/dims/depth/order/limits/transform); observe; load; batch evaluation, dense and sparse basis "
                "matrices, integrate, differentiate, weights; 1-4 of {refinement of a random strategy, updateGrid, dynamic construction with "
                "shuffled deliveries, anisotropy estimate}; each script runs on the serial build and on the OpenMP build for every "
                "(OMP_NUM_THREADS, OMP_SCHEDULE) in {1,2,3,8,16} x {static, dynamic,1, guided} (thorough tier: the full cross product for the first 1600 "
                "scripts, then all five thread counts with a rotating schedule); non-trivial = at least one successful refinement / "
                "update / construction step; distinct by script hash",
        "samples": [scripts[c] for c in list(scripts)[6:8]] or [list(scripts.values())[0]],
        "programs": len(scripts), "configurations": ["%d/%s" % c for c in configs],
        "traces_validated_against_impl": stats["cases_compared"], "disagreements_checked": stats["violations"],
        "case_runs_compared": stats["cases_compared"], "case_runs_identical": stats["obs_exact"],
        "case_runs_numeric_within_1e-12_not_bitwise": stats["numeric_within_tol_not_bitwise"],
        "integer_differences_skipped_as_borderline": stats["borderline_skipped"],
        "scripts_skipped_serial_build_crashes_or_hangs": sorted(serial_broken)[:20], "timeouts_retried_with_10x_budget": stats["hang_retries"],
        "family_distribution": fam_count, "swarm": swarm,
        "omp_sites": len(facts or []), "omp_site_classes": cls_count,
        "omp_sites_unmatched": ["%s:%d %s" % (f["file"], f["line"], f["note"][:100]) for f in unmatched],
        "translator_ok": tr_ok,
    })
    res.assumptions = [
        "the pattern class of a source region is assigned by a textual matcher (trusted); pinned sites carry a hand-written justification",
        "floating-point: no class reorders a sum; numeric outputs of the two BUILDS are compared with 1e-12 * max(1, |reference|); an integer "
        "difference that follows a within-tolerance numeric difference in the same script is counted as borderline, not failed",
        "OMP_SCHEDULE only affects loops with schedule(runtime) (none in the source); it is varied as specified nevertheless",
    ]


def replay(path):
    rp = json.load(open(path))
    res = vlib.Result(PID, "quick", rp.get("seed", 1), LEVEL)
    sc = rp.get("script")
    if sc and sc[0].startswith("case ") and len(sc) > 1 and sc[1].startswith("make"):
        run(res, "quick", rp.get("seed", 1), replay_script=sc)
    else:
        run(res, "quick", rp.get("seed", 1))
    return res.finish()
