"""C07 — refinement never loses or mis-associates data and selects what it documents.

Theorems: coq/Props/Properties_C07.v (index-set algebra, the points/needed/values state machine over all histories,
the classic selection rule).  Ties: (1) MultiIndexSet/StorageSet and RuleLocal hierarchy functions vs the extracted
models, exact (harness/unitdrv); (2) the state machine vs histories executed on real grids of all five families
(harness/tsgdrv), exact; (3) the classic selection of Local Polynomial grids recomputed by the extracted model from the
implementation's coefficients.  The statement of the property is evaluated directly on every observed state."""
import os

import gridlib as gl
import rltie
import vlib
import c07strategies

LEVEL = "proof"
PID = "C07"

TRUSTED = [
    "Coq 8.16.1 kernel (vm_compute in two Examples; no native_compute)",
    "axioms: none (Print Assumptions: Closed under the global context for all theorems)",
    "extraction: ExtrOcamlBasic only; nat/Z/positive/Q stay Coq datatypes",
    "OCaml glue ocaml/core_main.ml + common.ml; C++ drivers harness/tsgdrv.cpp, harness/unitdrv.cpp (white-box via #define private public, read-only)",
    "modelled, not verified: MultiIndexSet::{addSortedIndexes,operator-,getSlot,removeIndex,sorting ctor}, StorageSet::addValues, "
    "RuleLocal hierarchy functions, loadNeededValues/mergeRefinement/clearRefinement bookkeeping of the 5 families, "
    "classic candidate selection of GridLocalPolynomial; the flagging arithmetic (|s|*c/norm > tol) is recomputed in binary64 by the harness; "
    "wavelet selection and the non-classic strategies are only checked through the state-machine invariants",
    "translator translator/rulelocal.py (clang JSON AST of tsgRuleLocalPolynomial.hpp / tsgMathUtils.hpp -> coq/gen/RuleLocalGen.v; rules R1-R6 in the generated header; stops on unknown shapes): "
    "the integer hierarchy functions are regenerated on every run and proved equal to Model/RuleLocal.v for all non-negative points (Props/Properties_RuleLocalGen.v)",
]


def key_of(coords):
    return tuple(float(v + 0.0).hex() for v in coords)


def gen_iset_cases(r, n):
    lines = []
    for i in range(n):
        d = r.randint(1, 3)
        hi = r.choice([1, 2, 3, 6])

        def rs(k):
            s = sorted(set(tuple(r.randint(0, hi) for _ in range(d)) for _ in range(k)))
            return [v for t in s for v in t]
        a, b = rs(r.randint(0, 9)), rs(r.randint(0, 9))
        op = r.choice(["merge", "diff", "sortunique", "slot", "addvalues", "remove"])
        if op == "sortunique":
            raw = [r.randint(0, hi) for _ in range(d * r.randint(0, 12))]
            lines.append("iset i%d sortunique %d a: %s" % (i, d, " ".join(map(str, raw))))
        elif op == "addvalues":
            sa = set(tuple(a[j:j + d]) for j in range(0, len(a), d))
            bl = [t for t in (tuple(b[j:j + d]) for j in range(0, len(b), d)) if t not in sa]
            b2 = [v for t in bl for v in t]
            if not a or not b2:
                continue
            lines.append("iset i%d addvalues %d old: %s new: %s vals: %s newvals: %s" % (
                i, d, " ".join(map(str, a)), " ".join(map(str, b2)),
                " ".join(vlib.hexf(100 + j) for j in range(len(a) // d)), " ".join(vlib.hexf(200 + j) for j in range(len(b2) // d))))
        elif op == "slot":
            q = [r.randint(0, hi) for _ in range(d * 5)]
            lines.append("iset i%d slot %d a: %s b: %s" % (i, d, " ".join(map(str, a)), " ".join(map(str, q))))
        elif op == "remove":
            q = [r.randint(0, hi) for _ in range(d)]
            lines.append("iset i%d remove %d a: %s b: %s" % (i, d, " ".join(map(str, a)), " ".join(map(str, q))))
        else:
            lines.append("iset i%d %s %d a: %s b: %s" % (i, op, d, " ".join(map(str, a)), " ".join(map(str, b))))
    return lines


OBS = "dump g meta points needed pidx nidx values"


def gen_history(r, cid, tier):
    spec = gl.rand_spec(r, max_dims=3)
    if spec["outs"] == 0:
        spec["outs"] = 1
    lines = ["case " + cid, gl.make_cmd(spec)]
    if r.random() < 0.15:
        lines.append(gl.trans_cmd(gl.rand_transform(r, spec)))
    lines.append(OBS)
    fn = r.choice(["hash", "hash", "poly", "affine"])
    lines.append("load g " + fn)
    lines.append(OBS)
    nops = r.randint(2, 6 if tier == "quick" else 9)
    xs = gl.rand_points(r, spec, 3)
    evalcmd = "evalb g x: " + " ".join(vlib.hexf(v) for v in xs)
    for _ in range(nops):
        k = r.random()
        if k < 0.45:
            lines.append(evalcmd)
            c = gl.refine_cmds(r, spec)
            if spec["family"] in ("localp", "wavelet") and r.random() < 0.35:
                c = c.replace(" parents ", " classic ").replace(" direction ", " classic ").replace(" fds ", " classic ").replace(" stable ", " classic ")
                if r.random() < 0.5:
                    c += " scale: " + r.choice(["ones", "ones", "half", "rand"]) + " ov: " + r.choice(["vec", "raw"])
            lines.append(c)
            lines.append(OBS + " coef")
            lines.append(evalcmd)
        elif k < 0.55:
            u = gl.update_cmd(r, spec)
            if u:
                lines.append(evalcmd)
                lines.append(u)
                lines.append(OBS)
                lines.append(evalcmd)
        elif k < 0.8:
            lines.append("load g " + r.choice(["hash", "hash", "poly", "affine"]))
            lines.append(OBS)
        elif k < 0.9:
            lines.append("clearref g")
            lines.append(OBS)
        else:
            lines.append("merge g")
            lines.append(OBS)
    return spec, lines


def blocks(vals, outs, n):
    if outs == 0:
        return ["_"] * n
    return [",".join(v.hex() for v in vals[i * outs:(i + 1) * outs]) for i in range(n)]


def check_case(res, cid, spec, steps, script, gs_lines, sel_lines, stats):
    """direct evaluation of C07 on one history; also emits the transcript for the model"""
    d, outs = spec["dims"], spec["outs"]
    expected = {}      # coordinate key -> expected values (list per output) of the loaded points
    prev = None        # previous observed state dict
    last_eval = None
    pending = None     # (kind, cmd) of the state-changing command since the last observation
    pre_needed_pts = None
    rule_map = {"localp": "localp", "semi-localp": "semilocalp", "localp-zero": "localp0", "localp-boundary": "localpb"}
    gs_lines.append("gs %s %d" % (cid, d))
    replay = {"kind": "impl-counterexample", "script": script}

    def viol(key, what):
        stats["violations"] += 1
        res.violation(key, "%s [case %s: %s]" % (what, cid, script[1]), dict(replay, detail=what))

    for st in steps:
        t = st.cmd.split()
        if t[0] in ("make", "trans"):
            if st.exc:
                return  # configuration rejected by the library: nothing to check
            continue
        if t[0] == "evalb":
            if st.exc is None and "evalb" in st.obs:
                ev = [v.hex() for v in st.obs["evalb"]]
                if last_eval is not None and pending is not None and pending[0] in ("refine", "update") and ev != last_eval[0]:
                    viol("surrogate-changed-by-" + pending[0], "evaluate() changed after %s" % pending[1])
                last_eval = (ev,)
            continue
        if t[0] in ("load", "refsurp", "refsimple", "refaniso", "update", "clearref", "merge"):
            kind = {"load": "load", "clearref": "clear", "merge": "merge", "update": "update"}.get(t[0], "refine")
            pending = (kind, st.cmd, st.exc)
            if t[0] == "load" and prev is not None and st.exc is None:
                pts = prev["needed"] if prev["nneeded"] > 0 else prev["points"]
                for i in range(len(pts) // d):
                    c = pts[i * d:(i + 1) * d]
                    expected[key_of(c)] = [gl.fn_value(t[2], c, j) for j in range(outs)]
            if t[0] == "merge" and prev is not None and st.exc is None and prev["nneeded"] > 0:
                for kk in list(expected):
                    expected[kk] = [0.0] * outs
                for i in range(prev["nneeded"]):
                    expected[key_of(prev["needed"][i * d:(i + 1) * d])] = [0.0] * outs
            if st.exc is not None and st.exc[0] == "hang":
                # running time / termination is not part of this statement (C08's clause): counted, the case ends
                stats["slow_calls_skipped"] = stats.get("slow_calls_skipped", 0) + 1
                return
            elif st.exc is not None and st.exc[0] not in ("invalid_argument", "runtime_error"):
                viol(("no-return:" if st.exc[0] == "hang" else "unexpected-exception:") + t[0], "%s raised %s" % (st.cmd, st.exc))
            if t[0] == "refsurp" and "scale:" in t and st.exc is not None and "scale_correction" in st.exc[1]:
                viol("scale-size-rejected", "documented scale_correction size rejected: %s -> %s" % (st.cmd, st.exc[1]))
            continue
        if t[0] == "dump" and (st.exc is not None or "truncated" in st.obs):
            # the child reached its limit while printing a (huge) state, e.g. an anisotropic refinement that proposes 2e7 points:
            # the observation is incomplete and the rest of the case was not executed
            stats["cases_cut_short_by_the_case_limit"] = stats.get("cases_cut_short_by_the_case_limit", 0) + 1
            return
        if t[0] != "dump" or "meta" not in st.obs:
            continue
        m = st.obs["meta"]
        if int(m["loaded"]) + int(m["needed"]) > 150000:
            # a refinement on noisy data proposed hundreds of thousands of points: beyond what the exact model replays in minutes; the case ends
            stats["cases_ended_at_a_state_too_large_for_the_model"] = stats.get("cases_ended_at_a_state_too_large_for_the_model", 0) + 1
            return
        cur = {"nloaded": int(m["loaded"]), "nneeded": int(m["needed"]), "points": st.obs.get("points", []), "needed": st.obs.get("needed", []),
               "pidx": st.obs.get("pidx", []), "nidx": st.obs.get("nidx", []), "values": st.obs.get("values", []), "limits": st.obs.get("limits", []),
               "coef": st.obs.get("coef")}
        prow = [tuple(cur["pidx"][i * d:(i + 1) * d]) for i in range(cur["nloaded"])]
        nrow = [tuple(cur["nidx"][i * d:(i + 1) * d]) for i in range(cur["nneeded"])]
        stats["states"] += 1
        # -- duplicate-free and disjoint
        if len(set(prow)) != len(prow):
            viol("loaded-duplicates", "loaded point set has duplicates")
        if len(set(nrow)) != len(nrow):
            viol("needed-duplicates", "needed point set has duplicates")
        if set(prow) & set(nrow):
            viol("needed-loaded-overlap", "needed and loaded sets overlap: %s" % sorted(set(prow) & set(nrow))[:3])
        # -- values stay attached to their coordinates
        if outs > 0 and cur["nloaded"] > 0:
            if len(cur["values"]) != outs * cur["nloaded"]:
                viol("values-size", "getLoadedValues has %d entries for %d points x %d outputs" % (len(cur["values"]), cur["nloaded"], outs))
            else:
                for i in range(cur["nloaded"]):
                    c = cur["points"][i * d:(i + 1) * d]
                    e = expected.get(key_of(c))
                    if e is None:
                        viol("unknown-loaded-point", "loaded point %s was never supplied a value" % (c,))
                        break
                    got = cur["values"][i * outs:(i + 1) * outs]
                    if [v.hex() for v in got] != [v.hex() for v in e]:
                        viol("value-misassociated", "value at %s is %s, the value supplied for that point was %s (after %s)" % (c, got, e, pending and pending[1]))
                        break
        if prev is not None and pending is not None:
            kind, cmd, exc = pending
            pset, pn = set(prev["prow"]), set(prev["nrow"])
            if kind == "load" and exc is None:
                if prev["nneeded"] > 0:
                    if set(prow) != pset | pn:
                        viol("load-not-exact", "after loadNeededValues loaded set != old loaded + old needed")
                    if cur["nneeded"] != 0:
                        viol("load-leaves-needed", "needed points remain after loadNeededValues")
                elif set(prow) != pset:
                    viol("reload-changed-points", "overwriting reload changed the loaded set")
            if kind in ("refine", "update", "clear"):
                if prow != prev["prow"]:
                    viol(kind + "-changed-loaded-points", "%s changed the loaded points" % cmd)
                if [v.hex() for v in cur["values"]] != [v.hex() for v in prev["values"]]:
                    viol(kind + "-changed-values", "%s changed the loaded values" % cmd)
            if kind == "clear" and exc is None and cur["nneeded"] != 0:
                viol("clear-leaves-needed", "clearRefinement left needed points")
            if kind == "merge" and exc is None and prev["nneeded"] > 0:
                if set(prow) != pset | pn or cur["nneeded"] != 0:
                    viol("merge-not-union", "mergeRefinement: loaded set != old loaded + old needed")
            if not pset <= set(prow):
                viol("loaded-point-lost", "a loaded point disappeared after %s" % cmd)
            # -- transcript for the model
            vb = blocks(cur["values"], outs, cur["nloaded"])
            if exc is None:
                if kind == "load":
                    npts = prev["nneeded"] if prev["nneeded"] > 0 else prev["nloaded"]
                    pts = prev["needed"] if prev["nneeded"] > 0 else prev["points"]
                    fn = cmd.split()[2]
                    lv = [",".join(gl.fn_value(fn, pts[i * d:(i + 1) * d], j).hex() for j in range(outs)) if outs else "_" for i in range(npts)]
                    gs_lines.append("op load vals: " + " ".join(lv))
                elif kind in ("refine", "update"):
                    gs_lines.append("op propose cand: " + " ".join(map(str, cur["nidx"])))
                elif kind == "clear":
                    gs_lines.append("op clear")
                elif kind == "merge":
                    gs_lines.append("op merge zero: " + (",".join([(0.0).hex()] * outs) if outs else "_"))
            # -- classic selection of local polynomial grids
            tt = cmd.split()
            if (kind == "refine" and exc is None and tt[0] == "refsurp" and tt[3] == "classic" and spec["family"] == "localp"
                    and spec["order"] != 0 and prev.get("coef") is not None and outs > 0):
                tol, out = float.fromhex(tt[2]), int(tt[4])
                coef, vals, n = prev["coef"], prev["values"], prev["nloaded"]
                sc = "none"
                if "scale:" in tt:
                    sc = tt[tt.index("scale:") + 1]
                act = outs if out == -1 else 1

                def scale(i, k):
                    if sc == "none" or sc == "ones":
                        return 1.0
                    if sc == "half":
                        return 0.5
                    return float(gl.mix(i * act + k + 17) % 1000) / 500.0
                norm = [max([abs(vals[i * outs + k]) for i in range(n)] + [0.0]) for k in range(outs)]
                flags, border = [], False
                for i in range(n):
                    fl_ = False
                    for kk, k in enumerate(range(outs) if out == -1 else [out]):
                        if tol == 0.0:
                            fl_ = True
                            continue
                        if norm[k] == 0.0:
                            border = True
                            continue
                        ratio = scale(i, kk) * abs(coef[i * outs + k]) / norm[k]
                        if abs(ratio - tol) <= 1e-12 * max(1.0, tol):
                            border = True
                        if ratio > tol:
                            fl_ = True
                    flags.append(fl_)
                if border:
                    stats["selection_skipped_borderline"] += 1
                else:
                    stats["selection_checked"] += 1
                    sel_lines.append("sel %s %s %d limits: %s pidx: %s flags: %s nidx: %s" % (
                        cid, rule_map[spec["rule"]], d, " ".join(map(str, cur["limits"])), " ".join(map(str, prev["pidx"])),
                        " ".join("1" if f else "0" for f in flags), " ".join(map(str, cur["nidx"]))))
                    if not any(flags) and cur["nneeded"] != 0:
                        viol("proposes-below-tolerance", "refinement proposes %d points although every coefficient is below the tolerance" % cur["nneeded"])
        gs_lines.append("st pidx: %s nidx: %s vals: %s" % (" ".join(map(str, cur["pidx"])), " ".join(map(str, cur["nidx"])),
                                                         " ".join(blocks(cur["values"], outs, cur["nloaded"]))))
        cur["prow"], cur["nrow"] = prow, nrow
        if cur["coef"] is None and prev is not None:
            cur["coef"] = None
        prev = cur
        pending = None
        last_eval = None


def run(res, tier, seed, replay_script=None):
    props = vlib.coq_props(PID)
    vlib.proof_coverage(res, PID, props, "cd coq && make Props/Properties_C07.vo && coqc -Q . TV Props/Properties_C07.v", TRUSTED)
    rl_break = rltie.run(res, PID)      # the RuleLocal integer functions re-translated from the header and re-proved equal to the model
    ok_ext, elog = vlib.coq_make(["Extract/ExtractCore.vo"])
    proof_broken = (not props["ok"]) or bool(res.coverage["forbidden_tokens"])
    runner = vlib.ocaml_runner("core") if ok_ext else None
    udrv, uerr = vlib.try_build_driver("unitdrv")
    gdrv = vlib.build_driver("tsgdrv")
    wd = os.path.join(vlib.BUILD, "work", PID)
    os.makedirs(wd, exist_ok=True)
    r = vlib.rng(seed, PID)
    mism = []
    agree = 0

    # ---- tie 1: index sets and hierarchy functions, exact
    ucases = gen_iset_cases(r, {"quick": 300, "thorough": 3000}[tier])
    maxp = {"quick": 700, "thorough": 6000}[tier]
    for rule in ("localp", "semilocalp", "localp0", "localpb", "pwc"):
        ucases.append("rlint %s %d" % (rule, maxp))
    ucf = os.path.join(wd, "unit.txt")
    open(ucf, "w").write("\n".join(ucases) + "\n")
    if udrv is None:
        mism.append("white-box driver unitdrv no longer compiles against the source: " + uerr[-400:])
        rc, so, se = 0, "", ""
    else:
        rc, so, se = vlib.run([udrv, ucf], timeout=600)
    open(os.path.join(wd, "unit.out"), "w").write(so)
    if rc != 0:
        res.violation("unitdrv-crash", "unitdrv exited with %d %s" % (rc, se[-300:]), {"kind": "impl-counterexample", "cases": ucf})
    if runner and udrv is not None:
        rc2, mo, me = vlib.run([runner, ucf, os.path.join(wd, "unit.out")], timeout=900)
        for line in mo.split("\n"):
            if line.startswith("MISMATCH"):
                mism.append(line[:400])
            elif line.startswith("agree"):
                agree += int(line.split()[1])
        if rc2 != 0:
            mism.append("core runner failed on unit cases: " + me[-300:])

    # ---- tie 2 + direct evaluation: histories on real grids
    n = {"quick": 260, "thorough": 4000}[tier] * (3 if proof_broken else 1)
    lines, specs, scripts = [], {}, {}
    if replay_script:
        lines = list(replay_script)
        n = 0
    # regression corpus first: the documented scale_correction sizes must be accepted (defect repaired in /repo)
    corpus = [("corpusF1", {"family": "localp", "dims": 2, "outs": 1, "depth": 2, "order": 1, "rule": "localp", "ll": []},
               ["case corpusF1", "make localp g 2 1 2 1 localp", OBS, "load g hash", OBS,
                "refsurp g 0x1p-10 classic -1 scale: ones ov: vec", OBS + " coef", "clearref g", OBS,
                "refsurp g 0x1p-10 classic 0 scale: ones ov: vec", OBS + " coef"]),
              ("corpusF1b", {"family": "localp", "dims": 2, "outs": 2, "depth": 2, "order": 1, "rule": "localp", "ll": []},
               ["case corpusF1b", "make localp g 2 2 2 1 localp", OBS, "load g hash", OBS,
                "refsurp g 0x1p-10 classic -1 scale: half ov: vec", OBS + " coef", "clearref g", OBS,
                "refsurp g 0x1p-10 classic 1 scale: rand ov: vec", OBS + " coef"])]
    if not replay_script:
        for cid, spec, ls in corpus:
            specs[cid], scripts[cid] = spec, ls
            lines += ls
    # systematic matrix: every local rule x every strategy x {tolerance 0, small} x {constant, smooth} data (and wavelets),
    # two refinement rounds each, so that every strategy/rule pair and the "tolerance 0 refines everything" branch is always exercised
    if not replay_script:
        mi = 0
        for fam, rule, order in [("localp", "localp", 1), ("localp", "localp", 2), ("localp", "semi-localp", 2), ("localp", "localp-zero", 1),
                                 ("localp", "localp-boundary", 1), ("localp", "localp-boundary", 3), ("localp", "localp", 0), ("wavelet", "", 1), ("wavelet", "", 3)]:
            for crit in gl.REFINE:
                for tol in (0.0, 1e-3):
                    fnm = ["one", "smooth"][mi % 2] if tol == 0.0 else ["smooth", "hash"][mi % 2]
                    dd = 1 + (mi % 2)
                    cid = "x%d" % mi
                    mi += 1
                    spec = {"family": fam, "dims": dd, "outs": 1, "depth": 2 if fam == "localp" else 1, "order": order, "rule": rule, "ll": []}
                    ls = ["case " + cid, gl.make_cmd(spec), OBS, "load g " + fnm, OBS + " coef",
                          "refsurp g %s %s -1" % (vlib.hexf(tol), crit), OBS + " coef", "load g " + fnm, OBS + " coef",
                          "refsurp g %s %s 0" % (vlib.hexf(tol), crit), OBS + " coef"]
                    specs[cid], scripts[cid] = spec, ls
                    lines += ls
    for i in range(n):
        cid = "h%d" % i
        spec, ls = gen_history(r, cid, tier)
        specs[cid], scripts[cid] = spec, ls
        lines += ls
    # metamorphic cases for the scale correction: scaling every coefficient by 1/2 is the same as doubling the tolerance
    meta_cases = {}
    for i in range(0 if replay_script else {"quick": 40, "thorough": 400}[tier]):
        cid = "m%d" % i
        spec = gl.rand_spec(r, family=r.choice(["localp", "wavelet"]), max_dims=2)
        if spec["outs"] == 0:
            spec["outs"] = 1
        tol = r.choice([0.5, 0.25, 0.125, 0.0625, 0.03125])
        crit = r.choice(gl.REFINE)
        out = r.choice([-1] + list(range(spec["outs"])))
        ls = ["case " + cid, gl.make_cmd(spec), "load g " + r.choice(["hash", "smooth", "poly"]),
              "refsurp g %s %s %d scale: half ov: %s" % (vlib.hexf(tol), crit, out, r.choice(["vec", "raw"])), "dump g meta nidx",
              "clearref g", "refsurp g %s %s %d" % (vlib.hexf(2 * tol), crit, out), "dump g meta nidx"]
        meta_cases[cid] = (spec, ls)
        lines += ls
    # level limits HELD by the grid (given to make or to an earlier refinement call) bind a later surplus refinement that passes none:
    # every proposed point of every strategy stays within them (Local Polynomial and Wavelet grids, two rounds)
    held_cases = {}
    if not replay_script:
        import C08 as c08mod
        rh = vlib.rng(seed, PID + "-held-limits")
        hi = 0
        for fam, rule, order in [("wavelet", "", 1), ("wavelet", "", 3), ("localp", "localp", 1), ("localp", "semi-localp", 2), ("localp", "localp-boundary", 1),
                                 ("localp", "localp-zero", 2)]:
            for crit in gl.REFINE:
                dd = 2 + (hi % 2)
                ll = [rh.choice([0, 1, 2, 3]) for _ in range(dd)]
                if all(l == 0 for l in ll):
                    ll[rh.randrange(dd)] = 2
                cid = "wl%d" % hi
                hi += 1
                spec = {"family": fam, "dims": dd, "outs": 1, "depth": 1 if fam == "wavelet" else 2, "order": order, "rule": rule, "ll": ll}
                how = hi % 3     # limits given to make | to a first refinement call | to make and replaced by a refinement call
                mk = gl.make_cmd(dict(spec, ll=[]) if how == 1 else spec)
                # limits given after make must not be tighter than the points the grid already holds (their children in OTHER directions inherit the coordinate)
                ll2 = [max(l, 1) for l in ll] if how == 2 else [max(l, spec["depth"]) for l in ll] if how == 1 else ll
                ls = ["case " + cid, mk, "load g smooth"]
                if how != 0:
                    ls += ["refsurp g 0x0p+0 %s -1 ll: %s" % (crit, " ".join(str(l) for l in ll2)), "dump g meta nidx", "load g smooth"]
                ls += ["refsurp g 0x0p+0 %s -1" % crit, "dump g meta nidx", "load g hash", "refsurp g 0x1p-20 %s 0" % crit, "dump g meta nidx"]
                held_cases[cid] = (spec, ll2, ls)
                lines += ls
    rc, cases, so, se = gl.run_scripts(gdrv, lines, wd, "hist", timeout=1500)
    for cid, (spec, ll, ls) in held_cases.items():
        steps = cases.pop(cid, [])
        for st in steps:
            if st.exc is not None and st.exc[0] != "hang" and not st.cmd.startswith("dump"):
                res.violation("unexpected-exception", "%s raised %s [%s]" % (st.cmd, st.exc, ls[1]), {"kind": "impl-counterexample", "script": ls})
                break
            if st.cmd.startswith("dump") and "nidx" in st.obs:
                nidx, dd = st.obs["nidx"], spec["dims"]
                stats_held = res.coverage.setdefault("held_limit_refinements", {"dumps": 0, "needed_points_checked": 0})
                stats_held["dumps"] += 1
                bad = None
                for i in range(len(nidx) // dd):
                    pt = nidx[i * dd:(i + 1) * dd]
                    stats_held["needed_points_checked"] += 1
                    for j in range(dd):
                        if c08mod.level_of(spec, None, pt[j]) > ll[j]:
                            bad = (pt, j)
                            break
                    if bad:
                        break
                if bad:
                    res.violation("needed-above-held-limits:" + spec["family"], "surplus refinement without new limits proposes point %s whose level in dimension %d exceeds the "
                                  "limits %s held by the grid [%s]" % (bad[0], bad[1], ll, " ; ".join(ls[1:])), {"kind": "impl-counterexample", "script": ls})
                    break
    for cid, (spec, ls) in meta_cases.items():
        steps = cases.pop(cid, [])
        dumps = [s for s in steps if s.cmd.startswith("dump") and "nidx" in s.obs]
        excs = [s for s in steps if s.exc is not None]
        if excs:
            res.violation("scale-size-rejected" if "scale_correction" in excs[0].exc[1] else "unexpected-exception",
                          "%s raised %s [%s]" % (excs[0].cmd, excs[0].exc, ls[1]), {"kind": "impl-counterexample", "script": ls})
        elif len(dumps) == 2 and dumps[0].obs["nidx"] != dumps[1].obs["nidx"]:
            res.violation("scale-correction-ignored:" + spec["family"],
                          "surplus refinement with scale correction 1/2 and tolerance t proposes a different set than no correction and tolerance 2t "
                          "(%d vs %d points) [%s ; %s]" % (len(dumps[0].obs["nidx"]) // spec["dims"], len(dumps[1].obs["nidx"]) // spec["dims"], ls[1], ls[3]),
                          {"kind": "impl-counterexample", "script": ls})
    if rc != 0:
        res.violation("tsgdrv-crash", "tsgdrv exited with %d: %s" % (rc, se[-400:]), {"kind": "impl-counterexample", "script": lines[-40:]})
    stats = {"states": 0, "violations": 0, "selection_checked": 0, "selection_skipped_borderline": 0}
    gs_lines, sel_lines = [], []
    fam_count, nontrivial = {}, 0
    if replay_script:
        # specs unknown: reconstruct minimal spec from the make line
        for cid, steps in cases.items():
            mk = [s for s in steps if s.cmd.startswith("make")][0].cmd.split()
            fam = mk[1]
            spec = {"family": fam, "dims": int(mk[3]), "outs": int(mk[4])}
            if fam == "localp":
                spec["order"], spec["rule"] = int(mk[6]), mk[7]
            specs[cid], scripts[cid] = spec, gl.case_script(lines, cid)
    for cid, steps in cases.items():
        spec = specs[cid]
        fam_count[spec["family"]] = fam_count.get(spec["family"], 0) + 1
        check_case(res, cid, spec, steps, scripts[cid], gs_lines, sel_lines, stats)
        nchg = sum(1 for s in steps if s.cmd.split()[0] in ("refsurp", "refsimple", "refaniso", "update", "merge", "load", "clearref") and s.exc is None)
        if nchg >= 3:
            nontrivial += 1
    gsf = os.path.join(wd, "gs.txt")
    open(gsf, "w").write("\n".join(gs_lines + sel_lines) + "\n")
    if runner:
        rc3, mo, me = vlib.run([runner, "--gs", gsf], timeout=900)
        for line in mo.split("\n"):
            if line.startswith("MISMATCH"):
                mism.append(line[:400])
            elif line.startswith("agree"):
                agree += int(line.split()[1])
        if rc3 != 0:
            mism.append("core runner failed on transcripts: " + me[-300:])

    if mism and not res.violations:
        # search for a concrete failing input among the mismatching cases: a selection mismatch IS a property failure
        selm = [m for m in mism if "classic-selection" in m]
        if selm:
            cid = selm[0].split()[1]
            res.violation("classic-selection-differs", "classic refinement does not propose exactly the admissible children of the flagged points: " + selm[0][:300],
                          {"kind": "impl-counterexample", "script": scripts.get(cid, []), "detail": selm[:5]})
        else:
            res.violation("correspondence", "model and implementation disagree on %d cases, e.g. %s" % (len(mism), mism[0][:300]),
                          {"kind": "correspondence-break", "correspondence": "IndexSets/GridState/RuleLocal/Selection models vs implementation",
                           "examples": mism[:10]}, no_input=True)
    # all five refinement criteria of Local Polynomial grids: model of getRefinementCanidates from the white-box update map (props/c07strategies.py)
    if not replay_script:
        c07strategies.run(res, tier, seed)
    rltie.report(res, rl_break)
    if proof_broken and not res.violations:
        res.violation("proof", "proof obligations of Properties_C07.v no longer check (%d/%d) %s" %
                      (props["discharged"], props["obligations"], res.coverage["forbidden_tokens"][:2]),
                      {"kind": "proof-break", "theorems": props["theorems"], "log": props["log"][-3000:]}, no_input=True)
    if not ok_ext and not res.violations:
        res.violation("extraction", "extraction of the model failed", {"kind": "proof-break", "log": elog[-2000:]}, no_input=True)

    res.coverage["calls_not_returning_within_the_case_limit_not_judged"] = stats.get("slow_calls_skipped", 0)
    res.coverage["cases_cut_short_by_the_case_limit"] = stats.get("cases_cut_short_by_the_case_limit", 0)
    res.coverage["cases_ended_at_a_state_too_large_for_the_model"] = stats.get("cases_ended_at_a_state_too_large_for_the_model", 0)
    res.coverage.update({
        "evaluations": len(cases) + len(ucases), "distinct_nontrivial": nontrivial,
        "rule": "histories = make (random family/rule/dims/depth/order/limits/transform) ; load ; 2-9 random ops among surplus/anisotropic "
                "refinement (all strategies, scale corrections, both overloads), updateGrid, loads incl. overwriting reloads, clearRefinement, "
                "mergeRefinement; values are tags of the coordinates; non-trivial = at least 3 successful state-changing calls; distinct by case id (independent random draws)",
        "samples": [scripts[c] for c in list(scripts)[2:4]],
        "programs": len(cases), "traces_validated_against_impl": agree, "disagreements_checked": len(mism),
        "states_observed": stats["states"], "family_distribution": fam_count,
        "unit_cases": len(ucases), "hierarchy_points_exhaustive_up_to": maxp,
        "scale_metamorphic_cases": len(meta_cases),
        "classic_selections_recomputed": stats["selection_checked"], "classic_selections_skipped_borderline": stats["selection_skipped_borderline"],
        "direct_property_violations": stats["violations"],
    })
    res.assumptions = [
        "value arrays have the documented size; candidate sets produced by the families are sets (checked on every observation)",
        "flagging arithmetic is recomputed in binary64; cases with a ratio within 1e-12 of the tolerance are skipped and counted",
    ]


def replay(path):
    import json
    rp = json.load(open(path))
    res = vlib.Result(PID, "quick", rp.get("seed", 1), LEVEL)
    if rp.get("driver") == "seldrv":
        c07strategies.run(res, "quick", rp.get("seed", 1), replay_script=rp.get("script"))
        return res.finish()
    run(res, "quick", rp.get("seed", 1), replay_script=rp.get("script"))
    return res.finish()
