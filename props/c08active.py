"""C08 (also C01, C02): the ACTIVE tensors of a Global grid (createActiveTensors: tensors with a non-zero weight of computeTensorWeights)
dominate the lower tensor set, hence  nested_points n Theta = full_points n (active_tensors Theta (tw_cpp Theta))  WITHOUT the domination
hypothesis of c08p_points_of_active_tensors.

Theorems: coq/Props/Properties_C08_active.v (proofs coq/Proofs/ActiveTensors.v, on top of Proofs/NestedPointsProofs.v,
Proofs/TensorWeightsProofs.v and Proofs/TensorWeightsCpp.v):
  (1) a maximal element of a lower set has inclusion-exclusion value 1;  (2) every element of a finite set is below a maximal one;
  (3) the tensors with a non-zero weight (incl_excl, tw_lines, tw_cpp) dominate a sorted lower set; the maximal tensors are active;
  (4) nested_points = full_points of the active tensors for the weights of tw_cpp (and tw_lines), d >= 1, growth_ok n;
  (5) the weight depends only on the corner {t + e}; the active weights sum to 1.
No executable tie of its own: tw_cpp / tw_lines are tied to computeTensorWeights by props/c02weights.py, the point sets by props/C08.py.

Used through run(res); stand-alone:  python3 props/c08active.py   (exit 0/1, nothing written under evidence/)."""
import json
import os
import re
import sys
import time

sys.path.insert(0, os.path.join(os.path.dirname(os.path.dirname(os.path.abspath(__file__))), "tools"))
import vlib  # noqa: E402

PID = "C08"
SUB = "C08_active"
WORK = "act"
FILES = ["coq/Proofs/ActiveTensors.v", "coq/Props/Properties_C08_active.v"]
REQUIRED = ["c08a_maximal_weight_one", "c08a_dominated_by_maximal", "c08a_active_dominate", "c08a_nonzero_weight_dominate",
            "c08a_maximal_active", "c08a_points_of_active_tensors_unconditional", "c08a_points_of_active_tensors_lines",
            "c08a_weight_depends_on_corner", "c08a_active_weights_sum_to_one"]
REQUIRED_EXAMPLES = ["c08a_ex_2d_hyps", "c08a_ex_2d_maximal", "c08a_ex_2d_active", "c08a_ex_2d_points", "c08a_ex_2d_by_theorem",
                     "c08a_ex_3d_active", "c08a_ex_3d_by_theorem", "c08a_ex_3d_by_computation", "c08a_ex_corner", "c08a_ex_lower_needed"]
FORBIDDEN = re.compile(r"\b(Axiom|Axioms|Parameter|Parameters|Conjecture|Admitted|admit|Abort|Unset\s+Guard|Unset\s+Positivity|bypass_check)\b")

TRUSTED = [
    "Coq 8.16.1 kernel (vm_compute in the Examples only); axioms: none (Print Assumptions: closed under the global context)",
    "the reading of createActiveTensors as `keep the tensors whose weight is non-zero, in order` (Model/NestedPoints.active_tensors) and of "
    "computeTensorWeights as tw_cpp (tied to the implementation by props/c02weights.py); `int` overflow of the weights not modelled",
    "hypotheses of the theorems: Theta strictly sorted (MultiIndexSet), one dimension d >= 1, non-negative entries, lower; point count n with "
    "n(0) >= 1 and strictly increasing (growth_ok, proved for every generated table)",
]


def strip_comments(txt):
    out, depth, i = [], 0, 0
    while i < len(txt):
        if txt.startswith("(*", i):
            depth += 1
            i += 2
        elif txt.startswith("*)", i) and depth:
            depth -= 1
            i += 2
        else:
            if depth == 0:
                out.append(txt[i])
            elif txt[i] == "\n":
                out.append("\n")
            i += 1
    return "".join(out)


def forbidden_tokens():
    hits = []
    for rel in FILES:
        p = os.path.join(vlib.ROOT, rel)
        if not os.path.exists(p):
            hits.append(rel + ": missing")
            continue
        for i, line in enumerate(strip_comments(open(p, errors="replace").read()).split("\n"), 1):
            if FORBIDDEN.search(line):
                hits.append("%s:%d: %s" % (rel, i, line.strip()[:120]))
    return hits


def run(res, tier="quick", seed=1):
    t0 = time.time()
    cov = {}
    res.coverage["active_tensors"] = cov
    props = vlib.coq_props(SUB)
    src = strip_comments(open(os.path.join(vlib.ROOT, FILES[1])).read())
    examples = re.findall(r"^\s*Example\s+(\w+)", src, re.M)
    bad_axioms = {k: v for k, v in props["assumptions"].items() if not v.startswith("Closed under the global context")}
    missing = [t for t in REQUIRED if t not in props["theorems"]] + [e for e in REQUIRED_EXAMPLES if e not in examples]
    unprinted = [t for t in props["theorems"] if t not in props["assumptions"]] if props["ok"] else []
    forb = forbidden_tokens()
    # statements only in the Props file: every Theorem is closed by  Proof. exact <lemma>. Qed.
    not_exact = [m.group(1) for m in re.finditer(r"Theorem\s+(\w+)\b(.*?)\bQed\.", src, re.S)
                 if not re.search(r"Proof\.\s*exact\s+[\w.']+\.\s*$", m.group(2).strip())]
    cov.update({"props_file": FILES[1], "proof_file": FILES[0], "obligations": props["obligations"], "discharged": props["discharged"],
                "theorems": props["theorems"], "examples": examples, "print_assumptions": props["assumptions"],
                "forbidden_tokens": forb, "trusted_base": TRUSTED,
                "checker_cmd": "cd coq && make Props/Properties_C08_active.vo && coqc -Q . TV Props/Properties_C08_active.v",
                "executable_tie": "none of its own; tw_cpp / tw_lines are tied by props/c02weights.py, nested_points / active tensors by props/C08.py"})
    broken = (not props["ok"]) or bool(bad_axioms) or bool(missing) or bool(unprinted) or bool(forb) or bool(not_exact) \
        or props["discharged"] != props["obligations"]
    if broken:
        why = []
        if not props["ok"]:
            why.append("Properties_C08_active.v does not compile (%d/%d)" % (props["discharged"], props["obligations"]))
        if bad_axioms:
            why.append("not closed under the global context: %s" % sorted(bad_axioms)[:3])
        if missing:
            why.append("missing statements: %s" % missing[:4])
        if unprinted:
            why.append("no Print Assumptions for: %s" % unprinted[:4])
        if forb:
            why.append("forbidden constructs: %s" % forb[:3])
        if not_exact:
            why.append("theorems not closed by `exact`: %s" % not_exact[:3])
        res.violation("active-tensors-theorems-broken", "the theorems `the active tensors dominate the lower set` no longer check: " + "; ".join(why),
                      {"kind": "proof-break", "theorems": props["theorems"], "log": props["log"][-3000:]}, no_input=True)
    cov["wall_s"] = round(time.time() - t0, 1)
    return not broken


def main():
    res = vlib.Result(PID, "quick", int(os.environ.get("VERIF_SEED", "1") or 1), "proof")
    try:
        run(res)
    except vlib.BuildError as e:
        res.violation("active-tensors-theorems-broken", "build failed: " + str(e)[:1500], {"kind": "build-failure", "detail": str(e)}, no_input=True)
    cov = res.coverage.get("active_tensors", {})
    wd = os.path.join(vlib.BUILD, "work", WORK)
    os.makedirs(wd, exist_ok=True)
    with open(os.path.join(wd, "evidence-standalone.json"), "w") as fh:
        json.dump({"property_id": PID, "part": "active_tensors", "coverage": cov, "violations": len(res.violations),
                   "known": [k for k, _ in res.known_hit]}, fh, indent=1, default=str)
    for key, text in res.known_hit:
        print("KNOWN-FINDING: property=%s key=%s %s" % (PID, key, text))
    for v in res.violations:
        print("DETAIL property=%s key=%s %s" % (PID, v["key"], v["what"][:600].replace("\n", " ")))
        print("VIOLATION property=%s replay=%s%s" % (PID, v["replay"], " no-failing-input-found" if v["no_input"] else ""))
    print("SUMMARY " + json.dumps({k: cov.get(k) for k in ("obligations", "discharged", "theorems", "examples", "forbidden_tokens", "wall_s")}, default=str))
    print("closed: %d/%d" % (sum(1 for v in cov.get("print_assumptions", {}).values() if v.startswith("Closed under the global context")),
                             cov.get("obligations", 0)))
    sys.stdout.flush()
    return 1 if res.violations else 0


if __name__ == "__main__":
    sys.exit(main())
