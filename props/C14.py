"""C14 — misuse is reported by the documented exceptions and never corrupts a grid.

Level `other`: (a) Coq theorems (coq/Props/Properties_C14.v) about the STRUCTURE of every method of class
TasmanianSparseGrid, over tables regenerated from the current source by translator/apiguards.py (clang JSON AST):
at every point where an exception can leave a method, which data members can already have been modified — proved
sound against an oracle-driven semantics of the statement trees; plus the abstract guarded call and the abstract
token-stream reader with a failure at any position; (b) run-time enumeration: for every `\\throws` clause of
TasmanianSparseGrid.hpp (regenerated list, coq/gen/DocThrows.v) one or more violating calls (recipes, table below +
harness/misusedrv.cpp), each issued in every grid state class in which it is a misuse, under ASan+UBSan, one forked
child per case.  Judged per case: an exception is thrown; its dynamic type is the documented one; what() is not empty;
the state digest (points, needed points, values, coefficients, surrogate at probe points | limits, transforms | bytes
of the binary image) is the one before the call or that of an empty grid after a failed make/read; six follow-up
calls behave exactly as on a twin grid that never saw the bad call."""
import concurrent.futures as cf
import importlib.util
import json
import os
import re
import shutil

import vlib

LEVEL = "other"
PID = "C14"
WORK = os.path.join(vlib.BUILD, "work", PID)

TRUSTED = [
    "Coq 8.16.1 kernel (vm_compute for the facts about the regenerated tables; no native_compute); axioms: none",
    "translator/apiguards.py: clang++ 14 -ast-dump=json of TasmanianSparseGrid.cpp -> statement trees over effects; syntactic, "
    "fails loudly on shapes outside its subset; classification of effects in Model/ApiGuards.v (classify): "
    "A1 const calls through base do not throw (supported by the regenerated inventory of throw statements of the other sources), "
    "A2 a non-const family call returns or throws before changing the family object (only observed at run time), "
    "std::bad_alloc and the externals of ext_nothrow are ignored",
    "C++ driver harness/misusedrv.cpp (public API only), g++ -fsanitize=address,undefined, Python judge of this file",
    "the recipe table of this file is hand-written: one or more violating calls per documented clause",
    "no extraction: the model is only evaluated inside coqc",
]

IA, RE = "invalid_argument", "runtime_error"


# ---------------------------------------------------------------------------------------------------- states
class St:
    """abstract description of a grid state built by `setup` lines"""

    def __init__(self, variant, kind, dims, outs, setup, **kw):
        self.variant, self.kind, self.dims, self.outs, self.setup = variant, kind, dims, outs, setup
        self.empty = variant == "empty"
        self.gtype = None if self.empty else variant.split("-")[0]
        self.nested = variant not in ("global-gl", "global-custom")
        self.seqrule = variant in ("global-leja", "sequence")
        self.loaded = kind in ("loaded", "loadedcfg", "pending", "merged", "constructing")
        self.constructing = kind in ("constructing", "constructing-fresh")
        self.trans = kind in ("configured", "loadedcfg")
        self.limits = kind in ("configured", "loadedcfg")
        self.vals = (not self.empty) and self.loaded and self.outs > 0
        self.table = variant in ("global-gp", "global-custom")
        self.name = "%s/%s/d%do%d" % (variant, kind, dims, outs)
        self.nontrivial = kind in ("loaded", "loadedcfg", "pending", "merged", "constructing", "constructing-fresh", "configured")


TABLE = ("description: verif table\nlevels: 3\n1 1\n2 3\n3 5\n2.0 0.0\n1.0 -0.5773502691896257\n1.0 0.5773502691896257\n"
         "0.5555555555555556 -0.7745966692414834\n0.8888888888888888 0.0\n0.5555555555555556 0.7745966692414834\n")


def gen_states(r, tier):
    """the state classes {empty, fresh, configured, loaded, loaded+transform+limits, pending refinement, merged,
    active construction with parked samples (with and without loaded values), zero outputs} x family variants"""
    out = [St("empty", "empty", 0, 0, [])]
    fn = lambda: r.choice(["hash", "poly", "smooth"])
    reps = 1 if tier == "quick" else 3
    for rep in range(reps):
        d = 2 if rep == 0 else r.choice([1, 2, 3])
        o = r.choice([1, 2]) if rep == 0 else r.choice([1, 2, 3])
        variants = {
            "global-cc": ("make global %d %%d %d level clenshaw-curtis" % (d, 2 if d < 3 else 1), "refaniso iptotal 3 0"),
            "global-leja": ("make global %d %%d %d level leja" % (d, 3 if d < 3 else 2), "refsimple 0x1p-10 0"),
            "global-gl": ("make global %d %%d 2 level gauss-legendre" % d, None),
            "global-gp": ("make global %d %%d 1 level gauss-patterson" % d, "refaniso iptotal 2 0"),
            "global-custom": ("make global %d %%d 1 level custom-tabulated file: table.txt" % d, None),
            "sequence": ("make sequence %d %%d %d level %s" % (d, 3 if d < 3 else 2, r.choice(["rleja", "leja", "min-delta"])), "refsimple 0x1p-10 0"),
            "localp": ("make localp %d %%d %d %d %s" % (d, 3 if d < 3 else 2, r.choice([1, 2]), r.choice(["localp", "semi-localp"])), "refsurp 0x1p-10 classic -1"),
            "wavelet": ("make wavelet %d %%d %d 1" % (d, 1 if d < 3 else 0), "refsurp 0x1p-10 classic -1"),
            "fourier": ("make fourier %d %%d %d level" % (d, 2 if d < 3 else 1), "refaniso iptotal 3 0"),
        }
        if rep > 0:
            variants.pop("global-gl"), variants.pop("global-custom"), variants.pop("global-gp")
        for v, (mk, ref) in variants.items():
            mko, mk0 = mk % o, mk % 0
            ll = " ll: " + " ".join(["4"] * d)
            a, b = ("0x0p+0", "0x1p+1") if v == "fourier" else ("-0x1p+0", "0x1.8p+1")
            tr = "trans a: %s b: %s" % (" ".join([a] * d), " ".join([b] * d))
            f = fn()
            S = lambda kind, lines, oo=o: out.append(St(v, kind, d, oo, ["setup " + l for l in lines]))
            S("fresh", [mko])
            S("zero", [mk0], 0)
            S("loaded", [mko, "load " + f])
            if rep == 0 or r.random() < 0.5:
                S("configured", [mko + ll, tr] + (["conformal " + " ".join(["4"] * d)] if v == "localp" else []))
                S("loadedcfg", [mko + ll, tr, "load " + f])
            if ref:
                S("pending", [mko, "load " + f, ref])
                # Fourier: evaluate() right after mergeRefinement() reads out of bounds (coefficients are not resized; a defect outside
                # C14, reported) — the documented continuation setHierarchicalCoefficients() is part of the state
                S("merged", [mko, "load " + f, ref, "merge"] + (["setcoef " + f] if v == "fourier" else []))
            if v not in ("global-gl", "global-custom", "global-gp"):
                S("constructing", [mko, "load " + f, "begin", "park " + f])
                S("constructing-fresh", [mko, "begin", "parkonly " + f])
    return out


# ---------------------------------------------------------------------------------------------------- recipes
class Rc:
    def __init__(self, name, clauses, doc, misuse, exact=None, may_empty=False, contract=True, note=""):
        self.name, self.clauses, self.doc, self.misuse = name, clauses if isinstance(clauses, list) else ([clauses] if clauses else []), doc, misuse
        self.exact = exact if exact is not None else misuse
        self.may_empty, self.contract, self.note = may_empty, contract, note
        self.site = self.clauses[0] if self.clauses else "undocumented:" + name


ALWAYS = lambda s: True
NE = lambda s: not s.empty
EMPTY = lambda s: s.empty
NONLOCAL = ("global", "sequence", "fourier")


def recipes():
    R = []
    add = lambda *a, **k: R.append(Rc(*a, **k))
    # ---- make*: the guards do not depend on the state; a failed make may leave the object unchanged or empty
    for n in ["dims0", "dimsneg", "outsneg", "depthneg", "rule-localp", "rule-fourier", "rule-none", "aw-long", "aw-curved-short", "ll-long", "ll-short"]:
        add("mg." + n, "makeGlobalGrid#0.t0", IA, ALWAYS)
    for n in ["custom-nofilename", "custom-nofile", "custom-badformat", "custom-badline2", "custom-dir"]:
        add("mg." + n, "makeGlobalGrid#0.t1", RE, ALWAYS, may_empty=True)
    add("mg.custom-tooshort", "makeGlobalGrid#0.t2?", None, ALWAYS, may_empty=True, note="custom table shorter than the requested depth (late failure inside rule construction)")
    add("mg.gp-toodeep", "makeGlobalGrid#0.t2?", None, ALWAYS, may_empty=True, note="Gauss-Patterson table shorter than the requested depth (late failure)")
    for n in ["dims0", "outsneg", "depthneg", "rule-wavelet"]:
        add("mgraw." + n, "makeGlobalGrid#1.p0", IA, ALWAYS)
    for n in ["dims0", "outsneg", "depthneg", "rule-cc", "rule-localp", "aw-long", "aw-curved-short", "ll-long"]:
        add("ms." + n, "makeSequenceGrid#0.t0", IA, ALWAYS)
    for n in ["dims0", "rule-gl"]:
        add("msraw." + n, "makeSequenceGrid#1.p0", IA, ALWAYS)
    for n in ["dims0", "outsneg", "depthneg", "order-2", "rule-leja", "rule-wavelet", "ll-long"]:
        add("ml." + n, "makeLocalPolynomialGrid#0.t0", IA, ALWAYS)
    for n in ["dims0", "order-5"]:
        add("mlraw." + n, "makeLocalPolynomialGrid#1.p0", IA, ALWAYS)
    for n in ["dims0", "outsneg", "depthneg", "order2", "order0", "ll-long"]:
        add("mw." + n, "makeWaveletGrid#0.t0", IA, ALWAYS)
    for n in ["dims0", "order5"]:
        add("mwraw." + n, "makeWaveletGrid#1.p0", IA, ALWAYS)
    for n in ["dims0", "outsneg", "depthneg", "aw-long", "ll-long"]:
        add("mf." + n, "makeFourierGrid#0.p0", IA, ALWAYS)
    for n in ["dims0", "depthneg"]:
        add("mfraw." + n, "makeFourierGrid#1.p0", IA, ALWAYS)
    # ---- update
    notupd = lambda s: s.gtype not in NONLOCAL
    for n in ["vec", "vec-limits", "raw"]:
        add("upd." + n, "updateGrid#0.t0", RE, notupd)
    for n in ["depthneg", "aw-long", "ll-long"]:
        add("upd." + n, None, None, NE, note="updateGrid with invalid arguments (documented only by reference)")
    add("updglobal.vec", "updateGlobalGrid#0.p1", RE, lambda s: s.gtype != "global")
    add("updseq.vec", "updateSequenceGrid#0.p1", RE, lambda s: s.gtype != "sequence")
    add("updfourier.vec", "updateFourierGrid#0.p1", RE, lambda s: s.gtype != "fourier")
    add("updglobal.depthneg", "updateGlobalGrid#0.p0", IA, NE, lambda s: s.gtype == "global")
    add("updglobal.aw-long", "updateGlobalGrid#0.p0", IA, NE, lambda s: s.gtype == "global")
    add("updseq.depthneg", "updateSequenceGrid#0.p0", IA, NE, lambda s: s.gtype == "sequence")
    add("updseq.ll-long", "updateSequenceGrid#0.p0", IA, NE, lambda s: s.gtype == "sequence")
    add("updfourier.depthneg", "updateFourierGrid#0.p0", IA, NE, lambda s: s.gtype == "fourier")
    add("updfourier.aw-long", "updateFourierGrid#0.p0", IA, NE, lambda s: s.gtype == "fourier")
    add("upd.table-toodeep", None, None, lambda s: s.table, note="update beyond the depth of the rule table (late failure in the family call, limits stored first)")
    # ---- weights, evaluate, load
    for n in ["iw.long", "iw.short", "iw2.long"]:
        add(n, "getInterpolationWeights#0.t0", RE, NE)
    for n in ["dw.long", "dw.short", "dw2.long"]:
        add(n, "getDifferentiationWeights#0.t0", RE, NE)
    for n in ["load.long", "load.short", "load.empty", "loadpts.long"]:
        add(n, "loadNeededValues#0.t0", RE, NE)
    add("eval.long", "evaluate#0.t0", RE, ALWAYS, NE)
    add("eval.short", "evaluate#0.t0", RE, NE)      # on an empty grid an empty x has the "right" size
    add("evalbatch.float", "evaluateBatch#0.t0", RE, ALWAYS)
    add("evalfast.float", "evaluateBatch#0.t0", RE, ALWAYS)
    add("evalbatch.floatraw", "evaluateBatch#2.t0", RE, ALWAYS)
    add("evalbatchgpu.double", "evaluateBatchGPU#0.t0", RE, ALWAYS)
    add("evalbatchgpu.float", "evaluateBatchGPU#0.t0", RE, ALWAYS)
    # ---- transforms
    for n in ["a-long", "b-long", "both-short", "a-empty"]:
        add("trans." + n, "setDomainTransform#0.t1", IA, NE)
    add("trans.empty-grid", "setDomainTransform#0.t0", RE, EMPTY)
    add("transraw.empty-grid", "setDomainTransform#0.t0", RE, EMPTY)
    add("gettrans.raw", "getDomainTransform#1.t0", RE, lambda s: s.empty or not s.trans)
    add("getconformal.unset", None, None, lambda s: not (s.variant == "localp" and s.trans), note="getConformalTransformASIN without a conformal map")
    add("setconformal.empty-grid", None, None, EMPTY)
    # ---- refinement
    aniso_fam = lambda s: s.gtype in ("sequence", "fourier") or (s.gtype == "global" and s.nested)
    aniso_mis = lambda s: s.constructing or not s.vals or not aniso_fam(s)
    for n in ["aniso.call", "anisoraw.call", "aniso.call-limits", "getaniso.call"]:
        add(n, "setAnisotropicRefinement#0.t0", RE, aniso_mis)
    add("aniso.growth0", "setAnisotropicRefinement#0.t1", IA, ALWAYS, lambda s: not s.empty and not s.constructing)
    add("aniso.growthneg", "setAnisotropicRefinement#0.t1", IA, ALWAYS, lambda s: not s.empty and not s.constructing)
    for n in ["aniso.out-high", "aniso.out-low", "aniso.ll-long"]:
        add(n, "setAnisotropicRefinement#0.t1", IA, ALWAYS, lambda s: s.vals and not s.constructing)
    add("anisoraw.growth0", "setAnisotropicRefinement#0.t1", IA, ALWAYS, lambda s: not s.empty and not s.constructing)
    add("anisoraw.out-high", "setAnisotropicRefinement#0.t1", IA, ALWAYS, lambda s: s.vals and not s.constructing)
    est_mis = lambda s: not s.vals or not aniso_fam(s)
    add("estimate.call", "estimateAnisotropicCoefficients#0.t0", RE, est_mis)
    add("estimate.out-high", "estimateAnisotropicCoefficients#0.t1", IA, ALWAYS, lambda s: s.vals)
    add("estimate.out-low", "estimateAnisotropicCoefficients#0.t1", IA, ALWAYS, lambda s: s.vals)
    surp_fam = lambda s: s.seqrule
    surp_mis = lambda s: s.constructing or not s.vals or not surp_fam(s)
    for n in ["surp.call", "surpraw.call", "surp.call-limits", "getsurp.call"]:
        add(n, "setSurplusRefinement#0.t0", RE, surp_mis)
    for n in ["surp.out-high", "surp.out-low", "surp.tolneg", "surp.tolneg-limits", "surp.ll-long"]:
        add(n, "setSurplusRefinement#0.t1", IA, ALWAYS, lambda s: s.vals and not s.constructing)
    lsurp_fam = lambda s: s.gtype in ("localp", "wavelet") or s.seqrule     # Global/Sequence with a sequence rule fall back to the other variant
    lsurp_mis = lambda s: s.constructing or not s.vals or not lsurp_fam(s)
    for n in ["lsurp.call", "lsurp.call-limits", "lsurpraw.call", "lsurpraw.call-limits", "getlsurp.call"]:
        add(n, "setSurplusRefinement#2.t0", RE, lsurp_mis)
    for n in ["lsurp.out-high", "lsurp.out-high-limits", "lsurp.out-low", "lsurpraw.out-high"]:
        add(n, "setSurplusRefinement#2.t1", IA, ALWAYS, lambda s: s.vals and not s.constructing)
    for n in ["lsurp.ll-long", "lsurp.scale-long", "lsurp.scale-short-all"]:
        add(n, "setSurplusRefinement#2.t1", IA, ALWAYS, NE)
    add("lsurp.tolneg-limits", None, None, ALWAYS, note="negative tolerance with valid new limits (limits stored first)")
    # ---- construction
    cand_mis = lambda s: not s.constructing or s.gtype in ("localp", "wavelet")
    add("cand.aw", "getCandidateConstructionPoints#0.t0", RE, cand_mis)
    add("cand.aw-limits", "getCandidateConstructionPoints#0.t0", RE, cand_mis)
    for n in ["cand.aw-long", "cand.aw-empty", "cand.aw-curved-short", "cand.aw-curved-short-plain", "cand.aw-curved-short-qp", "cand.aw-level-long2", "cand.aw-ll-long"]:
        add(n, "getCandidateConstructionPoints#0.t1", IA, ALWAYS, lambda s: s.constructing and s.gtype in NONLOCAL)
    add("cand.out", "getCandidateConstructionPoints#1.t0", RE, lambda s: cand_mis(s) or s.outs == 0, cand_mis)
    for n in ["cand.out-high", "cand.out-low", "cand.out-ll-long"]:
        add(n, "getCandidateConstructionPoints#1.t1", IA, ALWAYS, lambda s: s.constructing and s.gtype in NONLOCAL and s.outs > 0)
    add("cand.surp", None, None, lambda s: not s.constructing or s.gtype in NONLOCAL or s.outs == 0)
    add("cand.surp-out-high", None, None, ALWAYS)
    add("cand.surp-ll-long", None, None, ALWAYS)
    add("loadc.y-short", "loadConstructedPoints#0.t0", RE, lambda s: not s.empty and s.outs > 0)
    add("loadc.y-empty", "loadConstructedPoints#0.t0", RE, lambda s: not s.empty and s.outs > 0)
    add("loadc.call", None, None, lambda s: not s.empty and not s.constructing, note="loadConstructedPoints before beginConstruction")
    add("loadcraw.call", None, None, lambda s: not s.constructing, note="loadConstructedPoints (arrays) before beginConstruction")
    add("begin.empty-grid", None, None, EMPTY)
    # ---- hierarchical coefficients / basis
    add("coef.long", "setHierarchicalCoefficients#0.t0", RE, ALWAYS, NE)
    add("coef.empty", "setHierarchicalCoefficients#0.t0", RE, ALWAYS, NE)
    add("coef.fourier-half", "setHierarchicalCoefficients#0.t0", RE, lambda s: s.gtype == "fourier" and s.outs > 0 and s.kind != "constructing-fresh")
    add("polyspace.call", "getGlobalPolynomialSpace#0.t0", RE, lambda s: s.gtype not in ("global", "sequence"))
    add("polyspace.quad", "getGlobalPolynomialSpace#0.t0", RE, lambda s: s.gtype not in ("global", "sequence"))
    add("remove.tol", "removePointsByHierarchicalCoefficient#0.t0", RE, lambda s: s.gtype != "localp")
    add("remove.count", "removePointsByHierarchicalCoefficient#1.t0", RE, lambda s: s.gtype != "localp")
    for n in ["hbasis.empty-grid", "hint.empty-grid", "pidx.empty-grid"]:
        add(n, None, None, EMPTY)
    add("hsparse.call", None, None, lambda s: s.gtype not in ("localp", "wavelet"))
    add("nidx.call", None, None, lambda s: s.gtype != "localp")
    # ---- acceleration (this build has no GPU back end)
    for n, c in [("cublas", "setCuBlasHandle#0.t0"), ("cusparse", "setCuSparseHandle#0.t0"), ("cusolver", "setCuSolverHandle#0.t0"),
                 ("rocblas", "setRocBlasHandle#0.t0"), ("rocsparse", "setRocSparseHandle#0.t0"), ("sycl", "setSycleQueue#0.t0")]:
        add(n, c, RE, ALWAYS)
    add("gpuid.neg", "setGPUID#0.t0", RE, ALWAYS)
    add("gpuid.high", "setGPUID#0.t0", RE, ALWAYS)
    add("hbasisgpu", "evaluateHierarchicalFunctionsGPU#0.t0", RE, ALWAYS)
    add("hbasisgpu.float", "evaluateHierarchicalFunctionsGPU#0.t0", RE, ALWAYS)
    add("hsparsegpu", "evaluateSparseHierarchicalFunctionsGPU#0.t0", RE, ALWAYS)
    # ---- files and streams: a failed read may leave the object unchanged (header) or empty
    # header failures (before clear()) must leave the object unchanged; failures in the body may leave it empty
    for n in ["magic", "magic3", "version", "version-future", "trunc0", "trunc2", "trunc3", "ascii-as-binary"]:
        add("rb." + n, "readBinary#0.t0", RE, ALWAYS)
    for n in ["type", "type-upper", "domainflag", "endflag", "empty-domain", "empty-limits", "empty-conformal"]:
        add("rb." + n, "readBinary#0.t0", RE, ALWAYS, may_empty=True)
    for n in ["word1", "word2", "future", "future-minor", "old", "nodot", "version-text", "version-huge", "warning", "empty", "binary-as-ascii"]:
        add("ra." + n, "readAscii#0.t0", RE, ALWAYS)
    for n in ["type", "domain", "end", "empty-domain"]:
        add("ra." + n, "readAscii#0.t0", RE, ALWAYS, may_empty=True)
    for n in ["magic", "version"]:
        add("rf." + n, "readBinary#0.t0", RE, ALWAYS)
    for n in ["type", "trunc4"]:
        add("rf." + n, "readBinary#0.t0", RE, ALWAYS, may_empty=True)
    for n in ["dir", "emptyfile", "text", "future"]:
        add("rf." + n, "readAscii#0.t0", RE, ALWAYS)
    add("rf.nofile", None, RE, ALWAYS, note="unreadable path (listed by the property, no \\throws clause on read(filename))")
    add("rf.nofile-string", None, RE, ALWAYS)
    add("wf.nodir", None, RE, ALWAYS, note="unwritable path")
    add("wf.nodir-ascii", None, RE, ALWAYS)
    # ---- calls whose documentation does not cover the empty grid: observed, never judged (outside the contract)
    for n in ["iw.long", "dw.long", "load.long", "loadc.y-short", "trans.a-long", "evalbatch.float"]:
        R.append(Rc(n, None, None, EMPTY, contract=False, note="empty grid not covered by the clause"))
    return R


# clauses that cannot be violated in this build (no GPU back end)
UNREACHABLE = {"evaluateBatch#2.t1": "needs a failing GPU evaluation", "evaluateBatchGPU#0.t1": "needs a GPU build"}


# ---------------------------------------------------------------------------------------------------- translator / driver
def regenerate():
    spec = importlib.util.spec_from_file_location("apiguards", os.path.join(vlib.ROOT, "translator", "apiguards.py"))
    mod = importlib.util.module_from_spec(spec)
    spec.loader.exec_module(mod)
    try:
        g = mod.generate(vlib.REPO, vlib.build_lib("plain")["cflags"])
    except mod.TranslatorError as e:
        return None, str(e)
    with vlib.Lock("coq"):
        ch = [mod.write_if_changed(os.path.join(vlib.COQDIR, "gen", "ApiGuards.v"), g["api"]),
              mod.write_if_changed(os.path.join(vlib.COQDIR, "gen", "DocThrows.v"), g["doc"])]
    g["rewritten"] = ch
    return g, ""


def parse_digest(t):
    d = dict(x.split("=", 1) for x in t if "=" in x)
    return d


def parse_cases(text):
    cases, cur = {}, None
    for line in text.split("\n"):
        t = line.split()
        if not t:
            continue
        if t[0] == "case":
            cur = {"id": t[1], "setup_exc": [], "pre": None, "twin": None, "post": None, "x": None, "f": {"g": {}, "r": {}}, "done": False,
                   "crash": None, "skip": None, "callbegin": False}
            cases[t[1]] = cur
        elif cur is None:
            continue
        elif t[0] == "s" and t[1] != "none":
            cur["setup_exc"].append(" ".join(t[1:]))
        elif t[0] in ("pre", "twin", "post"):
            cur[t[0]] = parse_digest(t[1:])
        elif t[0] == "x":
            cur["x"] = {"type": t[1], "len": int(t[2]) if len(t) > 2 and t[1] != "none" else 0, "what": " ".join(t[3:])}
        elif t[0] == "f":
            cur["f"][t[1]][t[2]] = " ".join(t[3:])
        elif t[0] == "skip":
            cur["skip"] = " ".join(t[1:])
        elif t[0] == "callbegin":
            cur["callbegin"] = True
        elif t[0] == "done":
            cur["done"] = True
        elif t[0] == "crash":
            cur["crash"] = " ".join(t[1:])
    return cases


def run_driver(drv, scripts, case_timeout=20):
    """scripts: list of (chunk name, lines).  returns (cases dict, stderr by case id)"""
    def one(arg):
        name, lines = arg
        wd = os.path.join(WORK, name)
        shutil.rmtree(wd, ignore_errors=True)
        os.makedirs(wd, exist_ok=True)
        open(os.path.join(wd, "table.txt"), "w").write(TABLE)
        sp = os.path.join(wd, "script.txt")
        open(sp, "w").write("\n".join(lines) + "\n")
        env = dict(os.environ, ASAN_OPTIONS="detect_leaks=0:abort_on_error=0:exitcode=77", UBSAN_OPTIONS="print_stacktrace=0:halt_on_error=1")
        rc, so, se = vlib.run([drv, sp, wd, str(case_timeout)], timeout=3000, env=env)
        open(os.path.join(wd, "out.txt"), "w").write(so)
        open(os.path.join(wd, "err.txt"), "w").write(se)
        return rc, so, se
    cases, errs, rcs = {}, {}, []
    with cf.ThreadPoolExecutor(max(2, vlib.NCPU)) as ex:
        for rc, so, se in ex.map(one, scripts):
            rcs.append(rc)
            cases.update(parse_cases(so))
            cur = None
            for line in se.split("\n"):
                if line.startswith("@@case "):
                    cur = line[7:].strip()
                elif cur and line.strip():
                    errs.setdefault(cur, []).append(line[:300])
    return cases, errs, rcs


# ---------------------------------------------------------------------------------------------------- judge
def judge(res, c, rc, st, script, err, stats, obs, doc_types=None):
    """one case.  returns True when the recipe threw in a misuse state (counts as an evaluation of the clause)"""
    site = rc.site
    doc = (doc_types or {}).get(rc.clauses[0], rc.doc) if rc.clauses else rc.doc
    where = "%s in state %s" % (rc.name, st.name)
    replay = {"kind": "impl-counterexample", "script": script, "recipe": rc.name, "state": st.name, "clauses": rc.clauses}

    def viol(key, what):
        stats["violations"] += 1
        res.violation(key, "%s [%s]" % (what, where), dict(replay, detail=what, stderr=err[:12]))

    if c is None or c["skip"] or c["setup_exc"]:
        stats["setup_failed"] += 1
        obs["setup_failed"].append("%s: %s" % (where, c and (c["skip"] or c["setup_exc"])))
        return False
    if not rc.contract:
        # outside the documented contract: recorded only
        outcome = "crash: " + c["crash"] if (c["crash"] and c["x"] is None) else (c["x"]["type"] if c["x"] else "?")
        obs["outside_contract"][rc.name] = outcome + ((" | " + err[0][:160]) if err and c["crash"] else "")
        return False
    if c["x"] is None and not c["callbegin"]:
        # the valid set-up calls (or the queries of the digest) fail in this state before the bad call is issued: not C14's subject
        stats["setup_failed"] += 1
        obs["setup_failed"].append("%s: %s %s" % (st.name, c["crash"], (err[0][:140] if err else "")))
        return False
    if c["x"] is None:
        # the call itself did not return: crash / sanitizer abort / hang
        kind = "hang" if (c["crash"] or "").startswith("hang") else "crash"
        viol("%s:%s" % (kind, site), "the call does not return normally (%s) %s" % (c["crash"], " | ".join(err[:2])[:300]))
        return False
    x = c["x"]
    stats["calls"] += 1
    threw = x["type"] != "none"
    if not threw:
        viol("no-exception:%s" % site, "documented misuse raises no exception")
    else:
        if x["type"] not in (IA, RE):
            viol("wrong-exception-type:%s" % site, "raises %s instead of std::invalid_argument/std::runtime_error: %s" % (x["type"], x["what"][:120]))
        elif doc and rc.exact(st) and x["type"] != doc:
            viol("doc-type:%s" % site, "raises std::%s, the clause documents std::%s: %s" % (x["type"], doc, x["what"][:120]))
        elif doc and rc.exact(st):
            stats["exact_type_checked"] += 1
        if x["len"] == 0:
            viol("empty-what:%s" % site, "what() is empty")
    pre, post, twin = c["pre"], c["post"], c["twin"]
    if post is None:
        viol("crash:%s" % site, "the object cannot be inspected after the call (%s) %s" % (c["crash"], " | ".join(err[:2])[:300]))
        return threw
    if pre != twin:
        stats["nondeterministic_setup"] += 1
    same_core, same_aux, same_bytes = pre["core"] == post["core"], pre["aux"] == post["aux"], pre["bytes"] == post["bytes"]
    went_empty = post["empty"] == "1" and pre["empty"] == "0"
    if threw:
        if went_empty and rc.may_empty:
            stats["left_empty"] += 1
            if post["limits"] != "-":
                obs["empty_with_limits"].add(rc.name)
        elif not same_core:
            viol("state-changed:%s" % site, "points/values/surrogate differ after the failed call (loaded %s->%s needed %s->%s empty %s->%s)" %
                 (pre["loaded"], post["loaded"], pre["needed"], post["needed"], pre["empty"], post["empty"]))
        elif not same_aux:
            if pre["limits"] != post["limits"]:
                obs["limits_changed"].setdefault(rc.name, set()).add(st.name)
                stats["limits_changed"] += 1
            else:
                viol("state-changed:%s" % site, "domain or conformal transform differs after the failed call")
        elif not same_bytes:
            viol("hidden-state-changed:%s" % site, "binary image differs after the failed call although points, values, surrogate, limits and transforms agree")
        else:
            stats["unchanged"] += 1
    # follow-ups (the reference runs first)
    fg, fr = c["f"]["g"], c["f"]["r"]
    if "end" not in fr:
        stats["reference_followups_failed"] += 1
        obs["reference_followups_failed"].add("%s (%s) after %s: %s" % (st.name, c["crash"], list(fr)[-1] if fr else "-", (err[0][:140] if err else "")))
        return threw
    if not c["done"]:
        viol("followup-crash:%s" % site, "a follow-up call after the exception does not return normally (%s) after %s: %s" %
             (c["crash"], list(fg)[-1] if fg else "-", " | ".join(err[:2])[:300]))
        return threw
    if threw:
        comparable = same_aux or (went_empty and rc.may_empty)
        for k, v in fg.items():
            if k.endswith("DIFFERENT") or v == "DIFFERENT":
                viol("followup-differs:%s" % site, "follow-up %s: write/read or copy of the object does not reproduce it" % k)
                break
            if k in fr and fr[k] != v:
                if k == "end":
                    continue
                if k in ("evaluate", "getpoints", "refine", "load", "write", "copy", "empty.queries", "empty.write-read", "empty.copy", "empty.remake") and v != "none":
                    viol("followup-exception:%s" % site, "follow-up %s raises %s on the object, %s on the reference" % (k, v[:80], fr[k][:40]))
                    break
                if comparable and not (went_empty and k == "empty.queries.value" and post["limits"] != "-"):
                    viol("followup-differs:%s" % site, "follow-up %s gives a different result than on the reference grid" % k)
                    break
                if not comparable:
                    obs["followup_diverges_after_limits_change"].add(rc.name)
        stats["followups"] += len(fg)
    return threw


# ---------------------------------------------------------------------------------------------------- main
def run(res, tier, seed, replay_obj=None):
    os.makedirs(WORK, exist_ok=True)
    if replay_obj is None and os.path.isdir(vlib.REPLAY):      # replay files of earlier C14 runs are stale
        for f in os.listdir(vlib.REPLAY):
            if f.startswith(PID + "-") and f.endswith(".json"):
                os.remove(os.path.join(vlib.REPLAY, f))
    gen, tr_msg = regenerate()
    props = vlib.coq_props(PID)
    vlib.proof_coverage(res, PID, props, "python3 translator/apiguards.py $REPO coq/gen && cd coq && make Props/Properties_C14.vo && coqc -Q . TV Props/Properties_C14.v", TRUSTED)
    proof_broken = gen is None or not props["ok"] or bool(res.coverage["forbidden_tokens"])
    drv = vlib.build_driver("misusedrv", "asan")
    rc_, so, _ = vlib.run([drv, "--list"])
    drv_recipes = set(so.split())
    RCS = recipes()
    known_clauses = set(c[0] for c in gen["clauses"]) if gen else set()
    for x in RCS:      # clauses marked `?` exist only in some versions of the header
        x.clauses = [c.rstrip("?") for c in x.clauses if not c.endswith("?") or c.rstrip("?") in known_clauses]
        x.site = x.clauses[0] if x.clauses else "undocumented:" + x.name
    table_names = set(r.name for r in RCS)
    missing = sorted(table_names - drv_recipes)
    if missing:
        raise vlib.BuildError("recipes of props/C14.py without an implementation in harness/misusedrv.cpp: %s" % missing)

    r = vlib.rng(seed, PID)
    states = gen_states(r, tier)
    # ---- cases
    cases_meta, lines = {}, []
    keep_compound = {"quick": 0.2, "thorough": 1.0}[tier] * (2 if proof_broken and tier == "quick" else 1)
    if replay_obj is not None:
        states, keep_compound = [], 0
    n = 0
    for st in states:
        for rcp in RCS:
            if not rcp.misuse(st):
                continue
            if st.empty and not rcp.contract:
                pass
            elif not rcp.contract:
                continue
            exact = rcp.exact(st)
            if not exact and rcp.contract and r.random() > keep_compound:
                continue
            cid = "c%d" % n
            n += 1
            script = ["case " + cid] + st.setup + ["bad " + rcp.name, "follow"]
            cases_meta[cid] = (rcp, st, script)
            lines.append(script)
    if replay_obj is not None:
        byname = {x.name: x for x in RCS if x.contract}
        st = St(replay_obj["state"].split("/")[0], replay_obj["state"].split("/")[1], 2, 1, [l for l in replay_obj["script"] if l.startswith("setup ")])
        m = re.match(r".*/d(\d+)o(\d+)$", replay_obj["state"])
        if m:
            st = St(replay_obj["state"].split("/")[0], replay_obj["state"].split("/")[1], int(m.group(1)), int(m.group(2)), st.setup)
        script = ["case c0"] + [l for l in replay_obj["script"][1:]]
        cases_meta["c0"] = (byname[replay_obj["recipe"]], st, script)
        lines = [script]
    nchunks = max(1, min(4 * vlib.NCPU, len(lines) // 40 + 1))
    chunks = [("chunk%02d" % i, [l for s in lines[i::nchunks] for l in s]) for i in range(nchunks)]
    cases, errs, rcs = run_driver(drv, chunks)
    if any(x != 0 for x in rcs):
        res.violation("driver-exit", "misusedrv exited with %s" % rcs, {"kind": "impl-counterexample"}, no_input=True)

    stats = {k: 0 for k in ["violations", "calls", "exact_type_checked", "left_empty", "unchanged", "limits_changed", "followups", "setup_failed",
                            "nondeterministic_setup", "reference_followups_failed"]}
    obs = {"limits_changed": {}, "empty_with_limits": set(), "followup_diverges_after_limits_change": set(), "outside_contract": {}, "setup_failed": [],
           "reference_followups_failed": set()}
    xt = {"std::invalid_argument": IA, "std::runtime_error": RE}
    doc_types = {c[0]: xt.get(c[3]) for c in (gen["clauses"] if gen else []) if xt.get(c[3])}
    thrown_by_clause, cases_by_clause, states_by_recipe = {}, {}, {}
    nontrivial = set()
    for cid, (rcp, st, script) in cases_meta.items():
        threw = judge(res, cases.get(cid), rcp, st, script, errs.get(cid, []), stats, obs, doc_types)
        for cl in rcp.clauses:
            cases_by_clause[cl] = cases_by_clause.get(cl, 0) + 1
            if threw:
                thrown_by_clause[cl] = thrown_by_clause.get(cl, 0) + 1
        if threw and st.nontrivial:
            nontrivial.add((rcp.name, st.name))
        states_by_recipe.setdefault(rcp.name, set()).add(st.kind)

    # ---- coverage of the documented clauses
    clauses = gen["clauses"] if gen else []
    tagged = [c for c in clauses if c[2] == "tagged"]
    prose = [c for c in clauses if c[2] == "prose"]
    with_recipe = set(cl for x in RCS for cl in x.clauses)
    unknown = sorted(with_recipe - set(c[0] for c in clauses))
    uncovered = [c[0] for c in tagged if c[0] not in with_recipe]
    uncovered_prose = [c[0] for c in prose if c[0] not in with_recipe]
    cov = (len(tagged) - len(uncovered)) / max(1, len(tagged))
    if gen and replay_obj is None:
        if cov < 0.9:
            res.violation("clause-coverage", "only %d of %d documented \\throws clauses have a recipe (new clauses: %s)" %
                          (len(tagged) - len(uncovered), len(tagged), uncovered[:8]), {"kind": "proof-break", "uncovered": uncovered}, no_input=True)
        if unknown:
            res.violation("clause-vanished", "recipes refer to clauses that are no longer in the header: %s" % unknown[:8],
                          {"kind": "proof-break", "unknown": unknown}, no_input=True)
    if gen is None and not res.violations:
        res.violation("translator", "translator/apiguards.py rejects the source: " + tr_msg[:600], {"kind": "proof-break", "translator": tr_msg}, no_input=True)
    if (not props["ok"] or res.coverage["forbidden_tokens"]) and not res.violations:
        res.violation("proof", "proof obligations of Properties_C14.v no longer check against the regenerated tables (%d/%d) %s" %
                      (props["discharged"], props["obligations"], res.coverage["forbidden_tokens"][:2]),
                      {"kind": "proof-break", "theorems": props["theorems"], "log": props["log"][-3000:]}, no_input=True)

    kinds = {}
    for _, (rcp, st, _s) in cases_meta.items():
        kinds[st.variant + "/" + st.kind] = kinds.get(st.variant + "/" + st.kind, 0) + 1
    res.coverage.update({
        "explanation": "Proof of structural facts over tables regenerated from the source (which members can be modified before an exception "
                       "leaves each method; sound w.r.t. an oracle semantics) + exhaustive enumeration of the documented \\throws clauses at run "
                       "time: every recipe in every state class in which it is a misuse, ASan+UBSan, fork per case.",
        "evaluations": len(cases_meta), "distinct_nontrivial": len(nontrivial),
        "rule": "case = (recipe, state); states = {empty, fresh, configured, loaded, loaded+transform+limits, pending refinement, merged, "
                "construction with parked samples (with/without values), zero outputs} x {global cc/leja/gauss-legendre/gauss-patterson/custom, "
                "sequence, localp, wavelet, fourier}; all cases in which the recipe violates exactly its clause, plus a seed-chosen share of "
                "the states in which it violates several; non-trivial = an exception was raised in a state with at least one step after make; "
                "distinct by (recipe, state)",
        "samples": [cases_meta[c][2] for c in list(cases_meta)[5:8]],
        "clauses_documented": len(tagged), "clauses_with_recipe": len(tagged) - len(uncovered), "clause_coverage": round(cov, 4),
        "clauses_uncovered": [{"clause": u, "why": UNREACHABLE.get(u, "no recipe")} for u in uncovered],
        "prose_clauses": len(prose), "prose_clauses_with_recipe": len(prose) - len(uncovered_prose), "prose_uncovered": uncovered_prose,
        "recipes": len([x for x in RCS if x.contract]), "undocumented_recipes": len([x for x in RCS if x.contract and not x.clauses]),
        "cases_per_clause": cases_by_clause, "exceptions_per_clause": thrown_by_clause,
        "states": len(states), "state_classes": kinds, "driver_calls": stats["calls"], "exact_type_checked": stats["exact_type_checked"],
        "object_unchanged": stats["unchanged"], "object_left_empty": stats["left_empty"], "followup_results_compared": stats["followups"],
        "setup_failed": stats["setup_failed"], "direct_property_violations": stats["violations"],
        "observations": {
            "level_limits_changed_by_failed_call": {k: {"states": len(v), "examples": sorted(v)[:4]} for k, v in sorted(obs["limits_changed"].items())},
            "level_limits_verdict": "the property lists points, values and surrogate: a changed getLevelLimits() after a failed call is recorded "
                                    "here and not counted as a violation; it does change what a later refinement with empty limits proposes "
                                    "(followup_diverges_after_limits_change)",
            "followup_diverges_after_limits_change": sorted(obs["followup_diverges_after_limits_change"]),
            "empty_grid_keeps_limits_after_failed_make": sorted(obs["empty_with_limits"]),
            "outside_contract_on_empty_grid": obs["outside_contract"],
            "states_in_which_the_follow_ups_fail_on_the_untouched_twin": sorted(obs["reference_followups_failed"])[:20],
            "states_whose_valid_setup_or_digest_fails": sorted(set(obs["setup_failed"]))[:12],
        },
        "translator": {"ok": gen is not None, "message": tr_msg[:300], "methods": len(gen["methods"]) if gen else 0,
                       "family_throw_sites": len(gen["family_throw_sites"]) if gen else 0},
        "programs": len(cases_meta), "traces_validated_against_impl": stats["calls"], "disagreements_checked": stats["violations"],
    })
    res.assumptions = [
        "A1: const queries of the grid families do not throw (inventory of throw statements regenerated and compared)",
        "A2: a non-const family call returns or throws before changing the family object (observed at run time only, through the digests)",
        "the digest observes the object through the public API (points, needed points, values, coefficients, evaluateBatch at probe points, "
        "limits, transforms, bytes of write()); acceleration settings are not part of the grid",
        "std::bad_alloc / allocation failures are not modelled; GPU-only clauses cannot be violated in this build",
    ]


def replay(path):
    rp = json.load(open(path))
    res = vlib.Result(PID, "quick", rp.get("seed", 1), LEVEL)
    run(res, "quick", rp.get("seed", 1), replay_obj=rp if "recipe" in rp else None)
    return res.finish()
