#!/usr/bin/env python3
"""props/rulelocalgen.py — re-check the hand-written Coq model of the integer hierarchy of namespace RuleLocal against the CURRENT header.

regenerate_and_check(res=None) -> dict
  1. translator/rulelocal.py: coq/gen/RuleLocalGen.v from <repo>/SparseGrids/tsgRuleLocalPolynomial.hpp + tsgMathUtils.hpp (clang AST);
  2. build Props/Properties_RuleLocalGen.vo: Proofs/RuleLocalGenProofs.v proves g_f = f (Model/RuleLocal.v) for every non-negative
     point and transports kid_level / kid_parent / tf_level to the generated functions; every theorem must be closed;
  3. on failure: evaluate both definitions in Coq (vm_compute) on all rules, points 0..2000 (levels 0..40, kids 0..3) and return the
     first differing input, together with the value of the compiled header at that input (who is wrong: model or translator).
  keys: ok, stage ('ok' | 'translator' | 'coq'), log, theorems, assumptions, source_hash, differing_input (None or dict(function,
        rule, args, generated, model, header, verdict)), differences (first difference of every function), wall_s.
  When run on a scratch tree (VERIF_REPO) the generated file is put back to the translation of /repo afterwards.
stand-alone: python3 props/rulelocalgen.py   prints the dict (json), exit 0 iff ok."""
import importlib
import json
import os
import re
import sys
import time

ROOT = os.path.dirname(os.path.dirname(os.path.abspath(__file__)))
for d in ("tools", "translator"):
    if os.path.join(ROOT, d) not in sys.path:
        sys.path.insert(0, os.path.join(ROOT, d))
import vlib  # noqa: E402

WORK = os.path.join(vlib.BUILD, "work", "trl")
GEN = os.path.join(vlib.COQDIR, "gen", "RuleLocalGen.v")
TARGET = "Props/Properties_RuleLocalGen.vo"
RULES = ["Pwc", "Localp", "Semilocalp", "Localp0", "Localpb"]
NPOINTS, NLEVELS = 2000, 40
# function -> (arity without the rule, takes a rule, C++ namespace)
SHAPE = {"intlog2": (1, False), "int2log2": (1, False), "int3log3": (1, False), "getNumPoints": (1, True), "getMaxNumKids": (0, True),
         "getMaxNumParents": (0, True), "getParent": (1, True), "getStepParent": (1, True), "getKid": (2, True), "getLevel": (1, True)}


def _translate(repo):
    mod = importlib.import_module("rulelocal")
    cfg = os.path.join(WORK, "cfg-" + re.sub(r"\W", "_", os.path.realpath(repo))[-40:])
    saved, vlib.REPO = vlib.REPO, repo
    try:
        vlib.gen_config(cfg)
    finally:
        vlib.REPO = saved
    return mod, cfg, mod.generate(repo, cfg, WORK)


def _search_script():
    """scratch .v: first differing input of every function (the generated file must compile)"""
    lines = ["From TV Require Import Common.Prelude Model.RuleLocal gen.RuleLocalGen.", "Local Open Scope Z_scope.",
             "Set Printing Width 400. Set Printing Depth 1000.",
             "Definition rules := [Pwc; Localp; Semilocalp; Localp0; Localpb].",
             "Definition upto (n : nat) : list Z := map Z.of_nat (seq 0 (S n)).",
             "Fixpoint first_diff {A} (l : list A) (g m : A -> Z) : option (A * Z * Z) :=",
             "  match l with [] => None | a :: t => if g a =? m a then first_diff t g m else Some (a, g a, m a) end.",
             "Definition rp (n : nat) : list (erule * Z) := flat_map (fun r => map (fun p => (r, p)) (upto n)) rules.",
             "Definition rpk : list (erule * Z * Z) := flat_map (fun x => map (fun k => (x, k)) (upto 3)) (rp %d)." % NPOINTS]
    for f, (ar, ruled) in SHAPE.items():
        if not ruled:
            lines.append("Eval vm_compute in first_diff (upto %d) g_%s %s." % (NPOINTS, f, f))
        elif ar == 0:
            lines.append("Eval vm_compute in first_diff rules g_%s %s." % (f, f))
        elif ar == 1:
            lines.append("Eval vm_compute in first_diff (rp %d) (fun x => g_%s (fst x) (snd x)) (fun x => %s (fst x) (snd x))."
                         % (NLEVELS if f == "getNumPoints" else NPOINTS, f, f))
        else:
            lines.append("Eval vm_compute in first_diff rpk (fun x => g_%s (fst (fst x)) (snd (fst x)) (snd x)) "
                         "(fun x => %s (fst (fst x)) (snd (fst x)) (snd x))." % (f, f))
    return "\n".join(lines) + "\n"


def _header_value(repo, cfg, fn, rule, args):
    """value of the compiled header at one input (None when it cannot be obtained)"""
    call = ("TasGrid::RuleLocal::%s<TasGrid::RuleLocal::erule::%s>(%s)" % (fn, rule.lower(), ", ".join(map(str, args)))) if rule \
        else "TasGrid::Maths::%s(%s)" % (fn, ", ".join(map(str, args)))
    src, exe = os.path.join(WORK, "hv.cpp"), os.path.join(WORK, "hv")
    with open(src, "w") as fh:
        fh.write('#include <cstdio>\n#include "tsgMathUtils.hpp"\n#include "tsgRuleLocalPolynomial.hpp"\n'
                 'int main(){ std::printf("%%d\\n", %s); return 0; }\n' % call)
    rc, so, se = vlib.run(["g++", "-std=c++11", "-O0", "-I" + cfg, "-I" + os.path.join(repo, "SparseGrids"), src, "-o", exe], timeout=120)
    if rc != 0:
        return None
    rc, so, se = vlib.run([exe], timeout=10)
    return int(so.strip()) if rc == 0 and re.fullmatch(r"-?\d+", so.strip()) else None


def _find_difference(repo, cfg):
    """-> (first differing input or None, {function: difference}, log)"""
    ok, log = vlib.coq_make(["gen/RuleLocalGen.vo"], timeout=300)
    if not ok:
        return None, {}, "gen/RuleLocalGen.v does not compile (signature changed?):\n" + log[-1500:]
    path = os.path.join(WORK, "search.v")
    with open(path, "w") as fh:
        fh.write(_search_script())
    with vlib.Lock("coq"):
        rc, so, se = vlib.run(["coqc", "-Q", vlib.COQDIR, "TV", "-w", "-notation-overridden", path], timeout=600)
    if rc != 0:
        return None, {}, "search script failed:\n" + (so + se)[-1500:]
    answers = re.findall(r"^\s*= (None|Some\s*\((.*?)\))\s*:\s*option", so, re.M | re.S)
    if len(answers) != len(SHAPE):
        return None, {}, "search script: %d answers for %d functions\n%s" % (len(answers), len(SHAPE), so[-1500:])
    diffs, first = {}, None
    for (f, (ar, ruled)), (whole, inner) in zip(SHAPE.items(), answers):
        if whole == "None":
            continue
        parts = [x.strip() for x in inner.replace("(", " ").replace(")", " ").split(",")]
        rule = parts.pop(0) if ruled else None
        vals = [int(x.replace(" ", "")) for x in parts]
        d = {"function": f, "rule": rule, "args": vals[:-2], "generated": vals[-2], "model": vals[-1]}
        d["header"] = _header_value(repo, cfg, f, rule, d["args"])
        d["verdict"] = ("header value not available" if d["header"] is None else
                        "the header now differs from the model Model/RuleLocal.v (compiled header = generated definition)"
                        if d["header"] == d["generated"] else
                        "TRANSLATOR BUG: the compiled header gives %d, the generated definition %d" % (d["header"], d["generated"])
                        if d["header"] == d["model"] else "compiled header, generated definition and model all differ")
        diffs[f] = d
        first = first or d
    return first, diffs, "searched rules x points 0..%d (levels 0..%d, kids 0..3): %d function(s) differ" % (NPOINTS, NLEVELS, len(diffs))


def regenerate_and_check(res=None):
    t0 = time.time()
    os.makedirs(WORK, exist_ok=True)
    out = {"ok": False, "stage": "translator", "log": "", "theorems": [], "assumptions": {}, "source_hash": None,
           "differing_input": None, "differences": {}}
    mod = importlib.import_module("rulelocal")
    out["source_hash"] = mod.source_hash(vlib.REPO)
    try:
        try:
            mod, cfg, (text, facts) = _translate(vlib.REPO)
        except mod.TranslatorError as e:
            out["log"] = "translator/rulelocal.py rejects the source: " + str(e)
            return out
        bad = [f for f, (ar, _r) in SHAPE.items() if facts["arity"].get(f) != ar]
        if bad:
            out["log"] = "parameter lists changed: " + ", ".join("%s has %s int parameter(s), expected %d" % (f, facts["arity"].get(f), SHAPE[f][0]) for f in bad)
            return out
        with vlib.Lock("coq"):
            mod.write_if_changed(GEN, text)
        out["stage"] = "coq"
        props = vlib.coq_props("RuleLocalGen", timeout=600)
        out["theorems"], out["assumptions"] = props["theorems"], props["assumptions"]
        open_thms = [t for t in props["theorems"] if props["assumptions"].get(t) != "Closed under the global context"]
        forbidden = [h for h in vlib.coq_forbidden_tokens() if "RuleLocalGen" in h]
        if props["ok"] and not open_thms and not forbidden:
            out.update(ok=True, stage="ok", log="%d theorems, all closed under the global context" % len(props["theorems"]))
        else:
            why = "build of %s failed" % TARGET if not props["ok"] else "not closed: %s %s" % (open_thms, forbidden)
            first, diffs, slog = _find_difference(vlib.REPO, cfg)
            out.update(differing_input=first, differences=diffs, log=why + "\n" + slog + "\n--- coq log (tail) ---\n" + props["log"][-2500:])
        return out
    finally:
        if vlib._SCRATCH:                       # never leave the translation of a scratch tree in coq/gen
            try:
                _m, _c, (text0, _f) = _translate("/repo")
                with vlib.Lock("coq"):
                    mod.write_if_changed(GEN, text0)
            except Exception as e:              # noqa: BLE001
                out["log"] += "\n(restoring gen/RuleLocalGen.v from /repo failed: %s)" % e
        out["wall_s"] = round(time.time() - t0, 2)
        if res is not None and hasattr(res, "coverage"):
            res.coverage["rulelocalgen"] = {k: out[k] for k in ("ok", "stage", "source_hash", "theorems", "differing_input", "wall_s")}


if __name__ == "__main__":
    r = regenerate_and_check(None)
    print(json.dumps(r, indent=1))
    sys.exit(0 if r["ok"] else 1)
