"""C08 — level limits bound every point a grid ever contains or proposes.

Theorems: coq/Props/Properties_C08.v (generation of index sets under a criterion, level-type tensor selection within limits,
-1 unrestricted, local refinement children within limits, termination of the anisotropic growth loop once the limits are
exhausted).  Ties: selectTensors(type_level) and isLimitsBoxFull vs the extracted models, exact.  Direct evaluation on all
five families: every loaded, needed and candidate point (and every tensor of Global/Fourier grids) is within the limits in
force, limits persist across calls that pass none, saturated limits return with zero needed points instead of hanging."""
import os

import gridlib as gl
import rltie
import vlib
import c08tables
import c08points
import c08active

LEVEL = "proof"
PID = "C08"

TRUSTED = [
    "Coq 8.16.1 kernel (vm_compute in one Example); no native_compute; axioms: none",
    "extraction: ExtrOcamlBasic only; OCaml glue ocaml/core_main.ml; C++ drivers harness/tsgdrv.cpp, harness/unitdrv.cpp (white-box, read-only)",
    "modelled: breadth-first index generation, level-type selection with limits, isLimitsBoxFull, the growth loop, classic local refinement; "
    "NOT modelled: curved/hyperbolic contour weights (floating point), ip/qp exactness tables, wavelet and non-classic local strategies, "
    "construction candidate ordering - for those the statement is evaluated on the implementation; "
    "one-dimensional level of a point index is recomputed by the harness (RuleLocal/RuleWavelet formulas, numPoints tables read from the library)",
    "translator translator/rulelocal.py (clang JSON AST of tsgRuleLocalPolynomial.hpp / tsgMathUtils.hpp -> coq/gen/RuleLocalGen.v; rules R1-R6 in the generated header; stops on unknown shapes): "
    "the integer hierarchy functions are regenerated on every run and proved equal to Model/RuleLocal.v for all non-negative points (Props/Properties_RuleLocalGen.v)",
]


def intlog2(i):
    r = 0
    while i > 1:
        i >>= 1
        r += 1
    return r


def level_of(spec, numpoints, p):
    fam = spec["family"]
    if fam == "sequence":
        return p
    if fam == "localp":
        rule, order = spec["rule"], spec["order"]
        if order == 0:
            l = 0
            while p >= 1:
                p //= 3
                l += 1
            return l
        if rule in ("localp", "semi-localp"):
            return 0 if p == 0 else 1 if p == 1 else intlog2(p - 1) + 1
        if rule == "localp-zero":
            return intlog2(p + 1)
        return 0 if p <= 1 else intlog2(p - 1) + 1
    if fam == "wavelet":
        if spec["order"] == 1:
            return 0 if p <= 2 else intlog2(p - 1)
        return 0 if p < 5 else intlog2(p - 1) - 1
    if fam == "fourier":
        l, n = 0, 1
        while p >= n:
            n *= 3
            l += 1
        return l
    # global nested: smallest level whose rule contains point index p
    for l, n in enumerate(numpoints):
        if p < n:
            return l
    return len(numpoints)


def gen_case(r, cid, tier):
    fam = r.choice(gl.FAMILIES)
    spec = gl.rand_spec(r, family=fam, max_dims=3, limits_prob=0.0)
    if spec["outs"] == 0:
        spec["outs"] = 1
    if fam == "global":
        spec["rule"] = r.choice([x for x in gl.GLOBAL_NESTED if x not in ("rleja-double2", "rleja-double4")])
        spec.pop("ab", None)
    d = spec["dims"]

    def limits():
        return [r.choice([-1, 0, 1, 1, 2, 2, 3]) for _ in range(d)]
    OBS = "dump g meta pidx nidx tensors"
    lines = ["case " + cid]
    if fam == "global":
        lines.append("numpoints %s 9" % spec["rule"])
    where = r.random()
    eff = []           # limits in force according to the documentation
    if where < 0.5:
        eff = limits()
        spec["ll"] = eff
    lines += [gl.make_cmd(spec), "#eff " + " ".join(map(str, eff)), OBS, "load g " + r.choice(["smooth", "poly", "hash"]), OBS]
    for _ in range(r.randint(1, 4 if tier == "quick" else 6)):
        k = r.random()
        newl = limits() if r.random() < 0.45 else None
        llarg = gl.kv("ll:", newl) if newl else ""
        if newl:
            eff = newl
        out = r.choice([-1] + list(range(spec["outs"])))
        if k < 0.45:
            if fam in ("localp", "wavelet"):
                c = "refsurp g %s %s %d%s" % (vlib.hexf(r.choice([0.0, 1e-4, 1e-2, 1e-1])), r.choice(gl.REFINE), out, llarg)
                if newl and r.random() < 0.5:
                    c += " ov: raw"
            elif fam == "sequence" and r.random() < 0.5:
                c = "refsimple g %s %d%s" % (vlib.hexf(r.choice([1e-4, 1e-2, 1e-1])), out, llarg)
            elif fam == "global" and r.random() < 0.3:
                c = "refsimple g %s %d%s" % (vlib.hexf(r.choice([1e-4, 1e-2, 1e-1])), max(out, 0), llarg)
            else:
                c = "refaniso g %s %d %d%s" % (r.choice(["iptotal", "ipcurved", "qptotal", "iphyperbolic"]), r.randint(1, 8), max(out, 0) if fam == "global" else out, llarg)
            lines += [c, "#eff " + " ".join(map(str, eff)), OBS]
            if r.random() < 0.7:
                lines += ["load g " + r.choice(["smooth", "poly", "hash"]), OBS]
        elif k < 0.65 and fam in ("global", "sequence", "fourier"):
            ty = r.choice(gl.DEPTH_TYPES[:9])
            lines += ["update g %d %s%s%s" % (r.randint(1, 5), ty, gl.kv("aw:", gl.rand_aw(r, d, ty) if r.random() < 0.3 else []), llarg),
                      "#eff " + " ".join(map(str, eff)), OBS]
            if r.random() < 0.7:
                lines += ["load g " + r.choice(["smooth", "poly", "hash"]), OBS]
        elif k < 0.9:
            lines += ["begin g"]
            for _ in range(r.randint(1, 2)):
                if fam in ("localp", "wavelet"):
                    c = "cand g surp %s %s %d%s" % (vlib.hexf(r.choice([0.0, 1e-3, 1e-1])), r.choice(["classic", "stable", "fds", "parents"]), out, llarg)
                else:
                    ty = r.choice(["level", "iptotal", "ipcurved", "iphyperbolic"])
                    c = r.choice(["cand g aw %s aw: %s%s" % (ty, " ".join(map(str, gl.rand_aw(r, d, ty))), llarg),
                                  "cand g out %s %d%s" % (r.choice(["iptotal", "ipcurved", "iphyperbolic"]), max(out, 0) if fam == "global" else out, llarg)])
                lines += [c, "#eff " + " ".join(map(str, eff)), "dump g meta pidx nidx tensors"]
                lines += ["deliver g %s idx: %s" % (r.choice(["smooth", "poly"]), " ".join(map(str, r.sample(range(8), r.randint(1, 6))))), OBS]
                llarg = ""
            lines += ["finish g", OBS]
        else:
            lines += ["clearlimits g", "#eff ", OBS]
            eff = []
    return spec, lines


def matrix_cases(r):
    """dynamic construction from a full tensor (so that children in EARLIER dimensions already exist) under limits that differ between the
    dimensions, several candidate rounds with everything delivered: every (family, limits) pair, not left to chance"""
    OBS = "dump g meta pidx nidx tensors"
    out = []
    lims = {2: [[3, 1], [2, 1], [1, 3], [2, 0], [0, 2], [-1, 1], [1, -1]], 3: [[3, 1, 2], [2, 0, 1], [1, 2, 3], [3, 2, 1], [-1, 1, 0]]}
    k = 0
    for fam, rule in (("global", "clenshaw-curtis"), ("global", "leja"), ("sequence", "rleja"), ("sequence", "min-lebesgue"), ("fourier", "")):
        for d in (2, 3):
            for L in lims[d]:
                cid = "M%d" % k
                k += 1
                spec = {"family": fam, "dims": d, "outs": 1, "rule": rule, "type": "tensor", "depth": 1, "aw": [], "ll": []}
                lines = ["case " + cid]
                if fam == "global":
                    lines.append("numpoints %s 9" % rule)
                lines += [gl.make_cmd(spec), "#eff ", OBS, "load g smooth", OBS, "begin g"]
                ty = r.choice(["level", "iptotal", "iphyperbolic"])
                first = True
                for rnd in range(3):
                    c = "cand g aw %s aw: %s%s" % (ty, " ".join(["1"] * d), gl.kv("ll:", L) if first else "")
                    if rnd > 0 and k % 2 == 1:      # the output-based overload, no limits passed: the stored ones must apply
                        c = "cand g out %s 0" % r.choice(["iptotal", "iphyperbolic"])
                    first = False
                    lines += [c, "#eff " + " ".join(map(str, L)), OBS, "deliverall g smooth 12", OBS]
                lines += ["finish g", OBS]
                out.append((cid, spec, lines))
    return out


def run(res, tier, seed, replay_script=None):
    props = vlib.coq_props(PID)
    vlib.proof_coverage(res, PID, props, "cd coq && make Props/Properties_C08.vo && coqc -Q . TV Props/Properties_C08.v", TRUSTED)
    rl_break = rltie.run(res, PID)      # the RuleLocal integer functions re-translated from the header and re-proved equal to the model
    ok_ext, elog = vlib.coq_make(["Extract/ExtractCore.vo"])
    proof_broken = (not props["ok"]) or bool(res.coverage["forbidden_tokens"])
    runner = vlib.ocaml_runner("core") if ok_ext else None
    udrv, uerr = vlib.try_build_driver("unitdrv")
    drv = vlib.build_driver("tsgdrv")
    wd = os.path.join(vlib.BUILD, "work", PID)
    os.makedirs(wd, exist_ok=True)
    r = vlib.rng(seed, PID)
    mism, agree = [], 0

    # ---- tie: tensor selection (type_level) with limits, isLimitsBoxFull
    ucases = []
    for i in range({"quick": 300, "thorough": 3000}[tier]):
        d = r.randint(1, 4)
        w = [r.randint(1, 3) for _ in range(d)] if r.random() < 0.6 else []
        ll = [r.choice([-1, 0, 1, 2, 3]) for _ in range(d)] if r.random() < 0.7 else []
        ucases.append("lset s%d %d %d w: %s ll: %s" % (i, d, r.randint(0, 5), " ".join(map(str, w)), " ".join(map(str, ll))))
    for i in range({"quick": 200, "thorough": 2000}[tier]):
        d = r.randint(1, 3)
        ll = [r.choice([-1, 0, 1, 2]) for _ in range(d)]
        box = [[]]
        for l in ll:
            box = [b + [v] for b in box for v in range(max(l, 1) + 2)]
        s = sorted(set(tuple(b) for b in box if r.random() < 0.85 or all(b[j] <= ll[j] for j in range(d) if True) and r.random() < 0.97))
        ucases.append("boxfull b%d %d ll: %s a: %s" % (i, d, " ".join(map(str, ll)), " ".join(str(v) for t in s for v in t)))
    ucf = os.path.join(wd, "unit.txt")
    open(ucf, "w").write("\n".join(ucases) + "\n")
    if udrv is None:
        mism.append("white-box driver unitdrv no longer compiles against the source: " + uerr[-400:])
        rc, so, se = 0, "", ""
    else:
        rc, so, se = vlib.run([udrv, ucf], timeout=600)
    open(os.path.join(wd, "unit.out"), "w").write(so)
    if rc != 0:
        res.violation("unitdrv-crash", "unitdrv exited with %d %s" % (rc, se[-300:]), {"kind": "impl-counterexample", "cases": ucf})
    if runner and udrv is not None:
        rc2, mo, me = vlib.run([runner, ucf, os.path.join(wd, "unit.out")], timeout=900)
        for line in mo.split("\n"):
            if line.startswith("MISMATCH"):
                mism.append(line[:400])
            elif line.startswith("agree"):
                agree += int(line.split()[1])
        if rc2 != 0:
            mism.append("core runner failed: " + me[-300:])

    # ---- direct evaluation on histories with limits
    n = {"quick": 240, "thorough": 3500}[tier] * (3 if proof_broken else 1)
    specs, scripts = {}, {}
    corpus = [
        ("corpusF2", {"family": "global", "dims": 2, "outs": 1, "rule": "leja"},
         ["case corpusF2", "numpoints leja 9", "make global g 2 1 6 curved leja aw: 1 1 -2 -2 ll: -1 2", "#eff -1 2", "dump g meta pidx nidx tensors",
          "make global h 2 1 6 curved leja aw: 1 1 -2 -2 ll: 100 2", "dump h meta"]),
        ("corpusF3", {"family": "sequence", "dims": 2, "outs": 1, "rule": "leja"},
         ["case corpusF3", "make sequence g 2 1 1 level leja", "#eff ", "dump g meta pidx nidx tensors", "load g smooth", "dump g meta pidx nidx tensors", "begin g",
          "cand g aw level aw: 1 1 ll: 5 0", "#eff 5 0", "dump g meta pidx nidx tensors", "deliver g smooth idx: 0 1 2", "dump g meta pidx nidx tensors", "finish g"]),
        ("corpusF4", {"family": "sequence", "dims": 2, "outs": 1, "rule": "leja"},
         ["case corpusF4", "make sequence g 2 1 1 level leja ll: 1 1", "#eff 1 1", "dump g meta pidx nidx tensors", "load g hash",
          "refaniso g iptotal 1 0", "#eff 1 1", "dump g meta pidx nidx tensors", "load g hash", "refaniso g iptotal 1 0", "#eff 1 1", "dump g meta pidx nidx tensors",
          "update g 7 level", "#eff 1 1", "dump g meta pidx nidx tensors"]),
    ]
    if replay_script:
        cid = replay_script[0].split()[1]
        scripts[cid] = list(replay_script)
        mk = [l for l in replay_script if l.startswith("make")][0].split()
        specs[cid] = {"family": mk[1], "dims": int(mk[3]), "outs": int(mk[4]), "rule": mk[7] if mk[1] in ("localp", "global", "sequence") else "",
                      "order": int(mk[6]) if mk[1] in ("localp", "wavelet") else 0}
        if mk[1] in ("global", "sequence"):
            specs[cid]["rule"] = mk[7]
    else:
        for cid, spec, ls in corpus + matrix_cases(r):
            specs[cid], scripts[cid] = spec, ls
        for i in range(n):
            cid = "L%d" % i
            specs[cid], scripts[cid] = gen_case(r, cid, tier)
    lines = [l for cid in scripts for l in scripts[cid]]
    # "#eff" lines are comments for the driver; the parser below re-reads them from the script
    rc, cases, so, se = gl.run_scripts(drv, lines, wd, "hist", timeout=1500, case_timeout=20)
    if rc != 0:
        res.violation("tsgdrv-crash", "tsgdrv exited with %d: %s" % (rc, se[-400:]), {"kind": "impl-counterexample", "script": lines[-40:]})
    stats = {"states": 0, "points_checked": 0, "violations": 0, "with_limits": 0, "saturated_returns": 0, "persist_checks": 0}
    fam_count, nontrivial = {}, 0
    for cid, steps in cases.items():
        spec, script = specs[cid], scripts[cid]
        fam, d = spec["family"], spec["dims"]
        fam_count[fam] = fam_count.get(fam, 0) + 1
        effs = [[int(v) for v in l.split()[1:]] for l in script if l.startswith("#eff")]
        # the i-th "#eff" belongs to the dump that follows it; walk the script and the steps together
        exec_lines = [l for l in script if not l.startswith("#") and not l.startswith("case")]
        eff_at = {}
        cur_eff, k = [], 0
        si = 0
        for l in script[1:]:
            if l.startswith("#eff"):
                cur_eff = [int(v) for v in l.split()[1:]]
                continue
            eff_at[si] = list(cur_eff)
            si += 1
        numpoints = []
        aborted = False
        nlim = 0
        last_loaded, last_tensors = [], []
        checked_dims, prev_eff = [True] * d, None
        rejected_with_limits = None
        for si, st in enumerate(steps):
            t = st.cmd.split()
            replay = {"kind": "impl-counterexample", "script": script}
            if st.exc is not None and st.exc[0] == "hang" and not gl.still_hangs(drv, script, st.cmd, wd, long_timeout=400):
                stats["slow_calls_skipped"] = stats.get("slow_calls_skipped", 0) + 1     # completed under the long limit (or not re-run): slow, not a hang
                aborted = True
                break
            if st.exc is not None and st.exc[0] == "hang":
                # the statement promises termination "when the limits leave no admissible new point": all limits non-negative and every
                # point of the box already present.  A growth loop that spins while admissible points remain (extreme anisotropic weights
                # from noisy data need astronomically many level increments to reach the last point, or a dimension is unrestricted) is
                # outside that clause: counted, not reported.
                lim = eff_at.get(si + 1) or eff_at.get(si) or []
                saturated = bool(lim) and all(v >= 0 for v in lim) and t[0] in ("refaniso", "refsurp", "refsimple", "update")
                if saturated:
                    box = 1
                    for j in range(d):
                        cnt = 0
                        while cnt < 100000 and level_of(spec, numpoints, cnt) <= lim[j]:
                            cnt += 1
                        box *= cnt
                    inside = set()
                    for i in range(0, len(last_loaded), d):
                        if all(level_of(spec, numpoints, last_loaded[i + j]) <= lim[j] for j in range(d)):
                            inside.add(tuple(last_loaded[i:i + d]))
                    saturated = (len(inside) >= box)
                if not saturated:
                    stats["unbounded_growth_outside_the_termination_clause"] = stats.get("unbounded_growth_outside_the_termination_clause", 0) + 1
                    aborted = True
                    break
            if st.exc is not None and (st.exc[0] == "hang" or st.exc[0].startswith("crash")):
                stats["violations"] += 1
                key = ("does-not-terminate:" if st.exc[0] == "hang" else "crash:") + t[0] + ":" + fam
                res.violation(key, "%s does not return (%s) with limits %s [%s]" % (st.cmd, st.exc[0], eff_at.get(si), script[1 if fam != "global" else 2]), replay)
                aborted = True
                break
            if t[0] == "numpoints":
                numpoints = st.obs.get("numpoints", [])
                continue
            if st.exc is not None:
                # a rejected call must not change the limits in force: the "#eff" written by the generator after this command assumed that it
                # is accepted; fall back to the limits that were in force when it was issued, up to the next command that passes limits
                old_eff, new_eff = eff_at.get(si, []), eff_at.get(si + 1)
                if new_eff is not None and new_eff != old_eff:
                    for sj in range(si + 1, len(exec_lines) + 1):
                        if eff_at.get(sj) == new_eff and not (sj - 1 > si and sj - 1 < len(exec_lines) and " ll:" in exec_lines[sj - 1]):
                            eff_at[sj] = list(old_eff)
                        else:
                            break
                if " ll:" in st.cmd:
                    rejected_with_limits = (st.cmd, list(old_eff))
                continue
            if t[0] in ("refaniso", "refsurp", "refsimple", "update") and eff_at.get(si):
                pass
            if t[0] != "dump" or "meta" not in st.obs or t[1] != "g":
                if t[0] == "cand" and "cand" in st.obs:
                    last_cand = st.obs["cand"]
                continue
            eff = eff_at.get(si, [])
            if eff != prev_eff:
                # limits replaced: a dimension in which an already loaded point (or tensor) exceeds the NEW limit is not judged
                # until the limits are replaced again (the property is about points created under the limits in force)
                checked_dims = [True] * d
                if eff:
                    for i in range(0, len(last_loaded), d):
                        for j in range(d):
                            if eff[j] >= 0 and level_of(spec, numpoints, last_loaded[i + j]) > eff[j]:
                                checked_dims[j] = False
                    for i in range(0, len(last_tensors), d):
                        for j in range(d):
                            if eff[j] >= 0 and last_tensors[i + j] > eff[j]:
                                checked_dims[j] = False
                prev_eff = list(eff)
            m = st.obs["meta"]
            stats["states"] += 1
            api_l = st.obs.get("limits", [])
            if rejected_with_limits is not None:
                rcmd, keep = rejected_with_limits
                rejected_with_limits = None
                if api_l != keep and not (not keep and all(v == -1 for v in api_l)):
                    stats["violations"] += 1
                    res.violation("limits-replaced-by-rejected-call:" + fam, "%s was rejected (%s) but getLevelLimits() changed from %s to %s; the pending points were "
                                  "selected under the old limits [%s]" % (rcmd, "exception", keep, api_l, script[1 if fam != "global" else 2]), replay)
            if eff and api_l != eff:
                stats["violations"] += 1
                res.violation("limits-not-persisted:" + fam, "getLevelLimits() = %s but the limits in force are %s after %s [%s]" % (api_l, eff, steps[si - 1].cmd if si else "", script[1]), replay)
            if eff:
                stats["with_limits"] += 1
                nlim += 1
            stats["persist_checks"] += 1
            sets = [("loaded", st.obs.get("pidx", [])), ("needed", st.obs.get("nidx", []))]
            for name, flat in sets:
                if not eff:
                    continue
                if fam == "global" and not numpoints:
                    continue
                for i in range(0, len(flat), d):
                    p = flat[i:i + d]
                    stats["points_checked"] += 1
                    for j in range(d):
                        if checked_dims[j] and eff[j] >= 0 and level_of(spec, numpoints, p[j]) > eff[j]:
                            stats["violations"] += 1
                            res.violation("%s-point-above-limit:%s" % (name, fam), "%s point %s has level %d > limit %d in dimension %d (limits %s) after %s [%s]" % (
                                name, p, level_of(spec, numpoints, p[j]), eff[j], j, eff, steps[si - 1].cmd if si else "make", script[1 if fam != "global" else 2]), replay)
                            break
                    else:
                        continue
                    break
            for name in ("tensors", "utensors"):
                flat = st.obs.get(name, [])
                if eff and flat:
                    for i in range(0, len(flat), d):
                        tt = flat[i:i + d]
                        if any(checked_dims[j] and eff[j] >= 0 and tt[j] > eff[j] for j in range(d)):
                            stats["violations"] += 1
                            res.violation("tensor-above-limit:" + fam, "%s %s exceeds the limits %s after %s [%s]" % (name, tt, eff, steps[si - 1].cmd if si else "make", script[1 if fam != "global" else 2]), replay)
                            break
            last_loaded = st.obs.get("pidx", [])
            last_tensors = st.obs.get("tensors", [])
        if nlim >= 2 and not aborted:
            nontrivial += 1
    # corpus F2: limit -1 is not a bound
    c2 = cases.get("corpusF2")
    if c2:
        d_ = [s for s in c2 if s.cmd.startswith("dump") and "meta" in s.obs]
        if len(d_) == 2 and d_[0].obs["meta"]["points"] != d_[1].obs["meta"]["points"]:
            res.violation("minus-one-treated-as-bound", "curved selection with limits {-1,2} has %s points, with limits {100,2} it has %s" % (
                d_[0].obs["meta"]["points"], d_[1].obs["meta"]["points"]), {"kind": "impl-counterexample", "script": scripts["corpusF2"]})
    c4 = cases.get("corpusF4")
    if c4:
        d_ = [s for s in c4 if s.cmd.startswith("dump") and "meta" in s.obs]
        if len(d_) >= 3 and int(d_[2].obs["meta"]["needed"]) == 0:
            stats["saturated_returns"] += 1

    if mism and not res.violations:
        res.violation("correspondence", "model and implementation disagree on %d cases, e.g. %s" % (len(mism), mism[0][:300]),
                      {"kind": "correspondence-break", "correspondence": "Model.LowerSets.select_level / limits_box_full vs selectTensors / isLimitsBoxFull",
                       "examples": mism[:10]}, no_input=True)
    # tensor selection of the six integer depth types and the declared polynomial space, with the exactness tables regenerated from the source
    if not replay_script:
        c08tables.run(res, tier, seed)
        # the point sets of Global / Fourier grids: generateNestedPoints, active tensors, needed = new minus loaded (Properties_C08_points.v, exact tie)
        c08points.run(res, tier, seed)
        # maximal tensors have weight one, every tensor is dominated by an active one: points = full blocks of the ACTIVE tensors, unconditionally (Properties_C08_active.v)
        c08active.run(res)
    rltie.report(res, rl_break)
    if proof_broken and not res.violations:
        res.violation("proof", "proof obligations of Properties_C08.v no longer check (%d/%d) %s" % (props["discharged"], props["obligations"], res.coverage["forbidden_tokens"][:2]),
                      {"kind": "proof-break", "theorems": props["theorems"], "log": props["log"][-3000:]}, no_input=True)
    if not ok_ext and not res.violations:
        res.violation("extraction", "extraction of the model failed", {"kind": "proof-break", "log": elog[-2000:]}, no_input=True)
    res.coverage["slow_calls_completed_under_the_long_limit_skipped"] = stats.get("slow_calls_skipped", 0)
    res.coverage["calls_not_returning_while_admissible_points_remain_not_judged"] = stats.get("unbounded_growth_outside_the_termination_clause", 0)
    res.coverage.update({
        "evaluations": stats["states"] + len(ucases), "distinct_nontrivial": nontrivial,
        "rule": "case = make (random family, nested rules; limits given at make in half of the cases) ; load ; 1-6 of: refinement of a random strategy / "
                "anisotropic refinement / updateGrid / construction candidates + delivery, each with new limits (45%) or none (limits must persist), clearLevelLimits; "
                "after every call all loaded, needed points and all tensors are checked against the limits in force; non-trivial = at least 2 observations under non-empty limits",
        "samples": [scripts[c] for c in list(scripts)[3:5]],
        "programs": len(cases), "traces_validated_against_impl": agree, "disagreements_checked": len(mism),
        "family_distribution": fam_count, "states_observed": stats["states"], "states_with_limits": stats["with_limits"],
        "points_checked": stats["points_checked"], "direct_property_violations": stats["violations"],
    })
    res.assumptions = ["one-dimensional levels of point indexes are recomputed by the harness from the RuleLocal/RuleWavelet formulas and the library's numPoints tables",
                       "a call that throws must leave the limits unchanged (it is then not counted as having set limits)"]


def replay(path):
    import json
    rp = json.load(open(path))
    res = vlib.Result(PID, "quick", rp.get("seed", 1), LEVEL)
    if rp.get("driver") == "nptsdrv":
        c08points.run(res, "quick", rp.get("seed", 1), replay_cases=rp.get("cases"))
        return res.finish()
    if rp.get("driver") == "seltabdrv":
        c08tables.run(res, "quick", rp.get("seed", 1), replay_cases=rp.get("cases"))
        return res.finish()
    run(res, "quick", rp.get("seed", 1), replay_script=rp.get("script"))
    return res.finish()
