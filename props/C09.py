"""C09 — dynamic construction does not depend on arrival order or batching of samples.

Theorems: coq/Props/Properties_C09.v about the model coq/Model/Construct.v (parking / promotion machine with the
admissibility tests of the families, candidate generation, the tensor parking of Global/Fourier grids).
Tie: every delivery history executed on the real grids (harness/condrv = tsgdrv + white-box dump of the parked
samples) is replayed by the extracted model, which must predict loaded set (with values), parked set and remaining
initial points after EVERY loadConstructedPoints call, the Sequence candidate sets, and for Global/Fourier the tensor
state (the tensor model is run with and without the proposed repair of the single-point entry).
Direct evaluation: a fixed target set is delivered in K permutations x batchings (one at a time, all at once, random);
across orders and against a one-batch loadNeededValues: final loaded index sets (exact), values at coordinates (exact),
evaluateBatch at probe points (1e-11 relative), nothing dropped while construction is active, candidates never loaded."""
import concurrent.futures as cf
import hashlib
import os

import gridlib as gl
import vlib

LEVEL = "proof"
PID = "C09"

TRUSTED = [
    "Coq 8.16.1 kernel (vm_compute in Examples and in the two refutation witnesses; no native_compute)",
    "axioms: none (Print Assumptions: Closed under the global context for all 22 theorems)",
    "extraction: ExtrOcamlBasic only; nat/Z/positive stay Coq datatypes",
    "OCaml glue ocaml/construct_main.ml + common.ml; Python orchestration props/C09.py (coordinate <-> index tables taken from the implementation's own dumps)",
    "C++ driver harness/condrv.cpp (= harness/tsgdrv.cpp + read-only white-box dump of dynamic_values via #define private public)",
    "modelled, not verified: TasmanianSparseGrid::loadConstructedPoints dispatch, loadConstructedPoint(s)/loadConstructedPoints of GridSequence, "
    "GridLocalPolynomial, GridWavelet, SimpleConstructData, getLargestCompletion, isLowerComplete, addExclusiveChildren, getLargestConnected, "
    "touchAllImmediateRelatives, DynamicConstructorDataGlobal (addNewNode/addTensor/clearTesnors/ejectCompleteTensor), GridGlobal/GridFourier "
    "loadConstructedPoint(s)/loadConstructedTensors and the tensor registration of getCandidateConstructionPoints",
    "NOT modelled (only evaluated on the implementation): the surplus / coefficient updates after a delivery (expandGrid, recomputeSurpluses, "
    "wavelet solve, Fourier transform), candidate ORDER (weights), the surplus-based candidate sets of Local Polynomial / Wavelet grids, domain transforms",
    "hypotheses checked at run time: relatives relation of the local rule symmetric (rel_sym_upto, proved by vm_compute up to point 4096 for localp, "
    "localp-zero, localp-boundary, order 0); parent_complete of the final Local Polynomial sets (extracted predicate)",
]

RULE_MAP = {"localp": "localp", "semi-localp": "semilocalp", "localp-zero": "localp0", "localp-boundary": "localpb"}
GLOBAL_RULES = ["clenshaw-curtis", "clenshaw-curtis-zero", "fejer2", "leja", "rleja", "rleja-double2", "rleja-double4", "rleja-shifted",
                "max-lebesgue", "min-lebesgue", "min-delta", "leja-odd", "rleja-odd", "gauss-patterson"]
KEY_SINGLE = "single-point-delivery-leaves-complete-tensor-parked"
KEY_CAND = "candidate-request-forgets-tensor-with-parked-samples"
KEY_SEMI = "connectivity-test-differs-single-vs-batch"
KEY_STEP = "single-point-surplus-update-misses-step-children:semi-localp"


def hx(v):
    return vlib.hexf(v)


def ckey(coords):
    return tuple(float(v + 0.0).hex() for v in coords)


def erule(spec):
    if spec["family"] != "localp":
        return "-"
    if spec["order"] == 0:
        return "pwc"
    if spec["rule"] == "semi-localp" and spec["order"] < 2:
        return "localp"      # GridLocalPolynomial: semi-localp with order < 2 (including -1) uses the localp effective rule
    return RULE_MAP[spec["rule"]]


# ------------------------------------------------------------------------------------------------ case generation
def gen_case(r, ci, tier):
    fam = r.choice(["global", "global", "sequence", "sequence", "localp", "localp", "localp", "wavelet", "fourier"])
    d = r.choice([1, 2, 2, 2, 3])
    outs = r.choice([1, 1, 2, 3])
    spec = {"family": fam, "dims": d, "outs": outs, "ll": []}
    if fam == "global":
        spec["rule"] = r.choice(GLOBAL_RULES)
        spec["type"] = r.choice(["level", "level", "iptotal", "hyperbolic", "curved"])
        big = spec["rule"] in ("clenshaw-curtis", "clenshaw-curtis-zero", "fejer2", "rleja-double2", "rleja-double4", "gauss-patterson")
        spec["depth"] = r.randint(0, 1 if big else 2)
        steps = [1, 2] if (big or d == 3) else [1, 2, 3]
        if spec["type"] == "iptotal":
            spec["depth"] = r.randint(0, 3)
            steps = [1, 2, 3, 4] if d < 3 else [1, 2]
    elif fam == "sequence":
        spec["rule"] = r.choice(gl.SEQUENCE_RULES)
        spec["type"] = r.choice(["level", "level", "iptotal", "hyperbolic", "curved", "tensor"])
        spec["depth"] = r.randint(0, 2)
        steps = [1, 2, 3] if d < 3 else [1, 2]
        if spec["type"] == "tensor":
            spec["depth"] = r.randint(0, 1)
            steps = [1, 2] if d < 3 else [1]
    elif fam == "fourier":
        spec["type"] = r.choice(["level", "level", "iptotal", "hyperbolic"])
        spec["depth"] = r.randint(0, 1)
        steps = [1, 2] if d == 1 else [1]
        if spec["type"] == "iptotal":
            steps = [1, 2, 3] if d < 3 else [1, 2]
    elif fam == "localp":
        spec["rule"] = r.choice(gl.LOCAL_RULES)
        spec["order"] = r.choice([1, 1, 2, 2, 3, -1, 0]) if spec["rule"] != "semi-localp" else r.choice([2, 2, 3, -1])
        if spec["order"] == 0:
            spec["rule"] = "localp"
        spec["depth"] = r.randint(0, 2)
        steps = [1, 2, 3] if d == 1 else ([1, 2] if d == 2 else [1])
    else:
        spec["order"] = r.choice([1, 1, 3])
        spec["depth"] = r.randint(0, 1)
        steps = [1, 2] if d == 1 else [1]
        if d == 3:
            spec["depth"] = 0
    if spec.get("type") == "curved":
        spec["aw"] = [r.randint(1, 2) for _ in range(d)] + [r.randint(0, 1) for _ in range(d)]
    elif fam in ("global", "sequence", "fourier") and r.random() < 0.3 and spec["type"] != "tensor":
        spec["aw"] = [r.randint(1, 2) for _ in range(d)]
    if r.random() < 0.3:
        spec["ll"] = [r.choice([-1, 1, 2, 3, 4]) for _ in range(d)]
    case = {"id": "c%d" % ci, "spec": spec, "steps": steps, "start": r.choice(["empty", "loaded", "loaded"]),
            "target": r.choice(["complete", "complete", "complete", "subset"]), "fn": "hash",
            "probe_seed": r.randint(0, 10 ** 6), "order_seed": r.randint(0, 10 ** 9),
            "cand_prob": r.choice([0.0, 0.0, 0.15, 0.3]), "cand_first": r.random() < 0.5}
    return case


def table_cmd(spec):
    """a one-dimensional grid of the same rule with many levels: its points give the node <-> index table"""
    fam = spec["family"]
    if fam == "global":
        dep = {"clenshaw-curtis": 6, "clenshaw-curtis-zero": 6, "fejer2": 6, "rleja-double2": 6, "rleja-double4": 5, "gauss-patterson": 5}.get(spec["rule"], 24)
        return "make global t 1 1 %d level %s" % (dep, spec["rule"])
    if fam == "sequence":
        return "make sequence t 1 1 24 level %s" % spec["rule"]
    if fam == "fourier":
        return "make fourier t 1 1 5 level"
    if fam == "localp":
        return "make localp t 1 1 %d %d %s" % (8 if spec["order"] != 0 else 5, spec["order"], spec["rule"])
    return "make wavelet t 1 1 6 %d" % spec["order"]


def ref_spec(spec, step):
    s = dict(spec)
    s["depth"] = spec["depth"] + step
    return s


def cand_cmd(r, spec):
    fam, d = spec["family"], spec["dims"]
    if fam in ("localp", "wavelet"):
        return "cand g surp %s %s %d" % (hx(r.choice([0.0, 1e-3, 1e-1, 1.0])), r.choice(gl.REFINE), r.choice([-1] + list(range(spec["outs"]))))
    ty = r.choice(["level", "iptotal", "hyperbolic", "curved"])
    aw = [r.randint(1, 2) for _ in range(d)] + ([r.randint(0, 1) for _ in range(d)] if ty == "curved" else [])
    ll = gl.kv("ll:", [r.choice([-1, 2, 3, 4]) for _ in range(d)]) if r.random() < 0.25 else ""
    return "cand g aw %s aw: %s%s" % (ty, " ".join(map(str, aw)), ll)


def tab_script(case):
    spec = case["spec"]
    lines = ["case %s.tab" % case["id"], table_cmd(spec), "dump t needed nidx", gl.make_cmd(spec, "g"), "dump g meta needed nidx"]
    for k, st in enumerate(case["steps"]):
        lines += [gl.make_cmd(ref_spec(spec, st), "r%d" % k), "dump r%d meta needed nidx" % k]
    if spec["family"] in ("global", "fourier"):
        lines.append("numpoints %s 12" % ("fourier" if spec["family"] == "fourier" else spec["rule"]))
    return lines


OBS = "dump g meta pidx points values"


def order_script(case, oi, order):
    spec = case["spec"]
    glob = spec["family"] in ("global", "fourier")
    obs = OBS + (" tensors" if glob else "")
    lines = ["case %s.o%d" % (case["id"], oi), gl.make_cmd(spec, "g")]
    if case["start"] == "loaded":
        lines.append("load g " + case["fn"])
    lines += ["begin g", obs, "xdump g parked"]
    for op in order["ops"]:
        if op[0] == "cand":
            lines += [op[1], obs, "xdump g parked"]
        else:
            xs = [v for p in op[1] for v in case["coords"][p]]
            lines += ["deliverx g %s x: %s" % (case["fn"], " ".join(hx(v) for v in xs)), obs, "xdump g parked"]
    ev = "evalb g x: " + " ".join(hx(v) for v in case["probes"])
    lines += [ev, "finish g", obs, ev]
    return lines


def ref_script(case):
    """one-batch reference: the grid made directly with the final point set, loaded by loadNeededValues"""
    spec = ref_spec(case["spec"], case["steps"][case["ref_k"]])
    return ["case %s.ref" % case["id"], gl.make_cmd(spec, "g"), "load g " + case["fn"], OBS,
            "evalb g x: " + " ".join(hx(v) for v in case["probes"])]


def make_orders(r, case, tier):
    K = {"quick": 4, "thorough": 8}[tier]
    tgt = sorted(case["target_idx"])
    orders = []
    for k in range(K):
        perm = list(tgt)
        r.shuffle(perm)
        mode = ["all", "one", "rand", "rand"][k] if k < 4 else r.choice(["one", "rand", "rand", "all"])
        if mode == "all":
            batches = [perm]
        elif mode == "one":
            batches = [[p] for p in perm]
        else:
            batches, i = [], 0
            while i < len(perm):
                n = r.choice([1, 1, 2, 3, 5, 8])
                batches.append(perm[i:i + n])
                i += n
        ops = []
        if case["cand_first"] and k % 2 == 0:
            ops.append(("cand", cand_cmd(r, case["spec"])))
        for b in batches:
            ops.append(("del", b))
            if r.random() < case["cand_prob"]:
                ops.append(("cand", cand_cmd(r, case["spec"])))
        orders.append({"mode": mode, "ops": ops})
    return orders


# ------------------------------------------------------------------------------------------------ running the driver
INT_TAGS = ("limits", "conformal", "pidx", "nidx", "apipidx", "apinidx", "polyi", "polyq", "hsp_pntr", "hsp_indx", "inside", "estaniso",
            "tensors", "utensors", "numpoints", "cparked", "cinit", "ctens", "ctdone", "cstate")


def _parse_obs(step, tag, t):
    if tag == "meta":
        step.obs["meta"] = dict(x.split("=", 1) for x in t[2:])
    elif tag == "cstate":
        step.obs[tag] = [int(t[2])]
    elif tag in INT_TAGS:
        step.obs[tag] = [int(v) for v in t[3:]]
    elif tag in ("bytes", "written"):
        step.obs[tag] = (int(t[2]), t[3])
    else:
        step.obs[tag] = [gl.fl(v) for v in t[3:]]


def parse_output(text):
    """as gridlib.parse_output, with the integer-valued tags of condrv's xdump"""
    cases, cur, step = {}, None, None
    for line in text.split("\n"):
        if not line:
            continue
        c = line[0]
        if line.startswith("case "):
            cur = []
            cases[line[5:].strip()] = cur
            step = None
        elif c == "c" and line[1] == " " and cur is not None:
            step = gl.Step(line[2:])
            cur.append(step)
        elif c == "o" and step is not None:
            t = line.split()
            if len(t) < 2:
                continue
            tag = t[1]
            try:
                _parse_obs(step, tag, t)
            except (ValueError, IndexError):
                pass     # a line cut short by a crash of the case: the crash itself is reported by the driver
            continue
            if tag == "meta":
                step.obs["meta"] = dict(x.split("=", 1) for x in t[2:])
            elif tag == "cstate":
                step.obs[tag] = [int(t[2])]
            elif tag in INT_TAGS:
                step.obs[tag] = [int(v) for v in t[3:]]
            elif tag in ("bytes", "written"):
                step.obs[tag] = (int(t[2]), t[3])
            else:
                step.obs[tag] = [gl.fl(v) for v in t[3:]]
        elif c == "x" and step is not None:
            t = line.split(None, 2)
            step.exc = (t[1], t[2] if len(t) > 2 else "")
    return cases


def run_scripts(drv, lines, workdir, name, timeout=1700, case_timeout=30, env=None):
    os.makedirs(workdir, exist_ok=True)
    sp = os.path.join(workdir, name + ".txt")
    with open(sp, "w") as fh:
        fh.write("\n".join(lines) + "\n")
    rc, so, se = vlib.run([drv, sp, workdir, str(case_timeout)], timeout=timeout, env=env)
    with open(os.path.join(workdir, name + ".out"), "w") as fh:
        fh.write(so)
    return rc, parse_output(so), so, se


def run_parallel(drv, scripts, wd, name, case_timeout=30):
    """scripts: list of line lists (one per case); distributed over the cores; returns dict case id -> steps, stderr"""
    nproc = max(1, min(vlib.NCPU, len(scripts)))
    chunks = [[] for _ in range(nproc)]
    for i, s in enumerate(scripts):
        chunks[i % nproc] += s
    out, errs = {}, []

    def one(i):
        return run_scripts(drv, chunks[i], wd, "%s_%d" % (name, i), timeout=1700, case_timeout=case_timeout)
    with cf.ThreadPoolExecutor(nproc) as ex:
        for rc, cases, so, se in ex.map(one, range(nproc)):
            out.update(cases)
            if rc != 0:
                errs.append("driver exit %d: %s" % (rc, se[-300:]))
    return out, errs


def rows(flat, d):
    return [tuple(flat[i:i + d]) for i in range(0, len(flat), d)]


def blocks(vals, outs, n):
    if outs == 0:
        return ["_"] * n
    return [",".join(float(v).hex() for v in vals[i * outs:(i + 1) * outs]) for i in range(n)]


class Table:
    """node <-> index of the 1-d rule, from the implementation's own 1-d grid"""

    def __init__(self, coords, idx):
        self.n2i = {float(c + 0.0).hex(): i for c, i in zip(coords, idx)}

    def index(self, coords):
        try:
            return tuple(self.n2i[float(c + 0.0).hex()] for c in coords)
        except KeyError:
            return None


# ------------------------------------------------------------------------------------------------ the check
def run(res, tier, seed, replay_cases=None):
    props = vlib.coq_props(PID)
    vlib.proof_coverage(res, PID, props, "cd coq && make Props/Properties_C09.vo && coqc -Q . TV Props/Properties_C09.v", TRUSTED)
    ok_ext, elog = vlib.coq_make(["Extract/ExtractConstruct.vo"])
    proof_broken = (not props["ok"]) or bool(res.coverage["forbidden_tokens"])
    runner = vlib.ocaml_runner("construct") if ok_ext else None
    th = hashlib.sha256(open(os.path.join(vlib.HARNESS, "tsgdrv.cpp"), "rb").read()).hexdigest()[:12]
    drv = vlib.build_driver("condrv", extra_flags=['-DTSGDRV_SRC_HASH="%s"' % th])
    wd = os.path.join(vlib.BUILD, "work", PID)
    os.makedirs(wd, exist_ok=True)
    r = vlib.rng(seed, PID)
    ncases = {"quick": 130, "thorough": 2200}[tier] * (3 if proof_broken else 1)
    maxt = {"quick": 60, "thorough": 110}[tier]

    if replay_cases is not None:
        cases = replay_cases
    else:
        cases = corpus_cases() + [gen_case(r, i, tier) for i in range(ncases)]
        # a direction that is never refined (level limit 0) on the families with several unrelated roots (Wavelet 3^d / 5^d, localp-boundary, pwc):
        # construction from an empty grid must still pick up every root whatever the batching (own stream, ids z<k>)
        rz = vlib.rng(seed, PID + "-zero-limit")
        for zi in range({"quick": 8, "thorough": 60}[tier]):
            zc = gen_case(rz, 100000 + zi, tier)
            zs = zc["spec"]
            dz = 2 + zi % 2
            zs.update({"family": ["wavelet", "localp"][zi % 4 == 3], "dims": dz, "outs": 1})
            for k in ("type", "aw", "rule", "order"):
                zs.pop(k, None)
            if zs["family"] == "wavelet":
                zs.update({"order": [1, 3][(zi // 2) % 2], "depth": 0})
            else:
                zs.update({"rule": "localp-boundary", "order": 1, "depth": 0})
            zs["ll"] = [0] * dz
            zs["ll"][rz.randrange(dz)] = 2
            zc.update({"id": "z%d" % zi, "steps": [1, 2] if dz == 2 else [1], "start": "empty", "target": "complete", "cand_prob": 0.0, "cand_first": False})
            cases.append(zc)

    # ---- pass 1: tables, base and reference point sets
    tabs, errs = run_parallel(drv, [tab_script(c) for c in cases], wd, "tab")
    live = []
    stats = {"skipped_config": 0, "orders": 0, "deliveries": 0, "states": 0, "violations": 0, "eval_compared": 0, "eval_skipped_incomplete": 0,
             "cand_calls": 0, "cand_points": 0, "ref_compared": 0, "subset_targets": 0, "complete_targets": 0}
    for c in cases:
        steps = tabs.get(c["id"] + ".tab", [])
        if not steps or any(s.exc for s in steps):
            stats["skipped_config"] += 1
            continue
        d = c["spec"]["dims"]
        dumps = [s for s in steps if s.cmd.startswith("dump")]
        tb = Table(dumps[0].obs.get("needed", []), dumps[0].obs.get("nidx", []))
        c["table"] = tb
        base = dict(zip(rows(dumps[1].obs["nidx"], d), rows(dumps[1].obs["needed"], d)))
        pick = None
        for k in range(len(c["steps"])):
            ref = dict(zip(rows(dumps[2 + k].obs["nidx"], d), rows(dumps[2 + k].obs["needed"], d)))
            if len(ref) <= maxt + len(base) or pick is None:
                if pick is None or len(ref) > len(pick[1]):
                    pick = (k, ref)
        c["ref_k"], ref = pick
        allp = dict(ref)
        allp.update(base)
        c["coords"] = allp
        c["ref_is_union"] = set(base) <= set(ref)
        start_loaded = set(base) if c["start"] == "loaded" else set()
        tgt = [p for p in allp if p not in start_loaded]
        rr = vlib.rng(c["order_seed"], "target")
        if c["target"] == "explicit":      # hand-made history (aimed at a case split of the proofs)
            tgt = [tuple(p) for p in c["explicit_target"]]
            if any(p not in allp for p in tgt):
                stats["skipped_config"] += 1
                continue
            c["orders"] = [{"mode": "explicit", "ops": [("del", [tuple(p) for p in b]) for b in o]} for o in c["explicit_orders"]]
            stats["subset_targets"] += 1
        elif c["target"] == "subset":
            tgt = [p for p in tgt if rr.random() < 0.75]
            stats["subset_targets"] += 1
        else:
            stats["complete_targets"] += 1
        if not tgt:
            stats["skipped_config"] += 1
            continue
        c["target_idx"] = tgt
        c["start_loaded"] = sorted(start_loaded)
        np_ = [s for s in steps if s.cmd.startswith("numpoints")]
        c["npts"] = np_[0].obs.get("numpoints", []) if np_ else []
        pr = vlib.rng(c["probe_seed"], "probe")
        probes = gl.rand_points(pr, c["spec"], 6)
        for p in pr.sample(sorted(allp), min(2, len(allp))):
            probes += list(allp[p])
        c["probes"] = probes
        if "orders" not in c:
            c["orders"] = make_orders(vlib.rng(c["order_seed"], "orders"), c, tier)
        live.append(c)

    # ---- pass 2: the delivery histories and the one-batch references
    scripts = []
    for c in live:
        for oi, o in enumerate(c["orders"]):
            scripts.append(order_script(c, oi, o))
        if c["target"] == "complete" and c["ref_is_union"]:
            scripts.append(ref_script(c))
    outs_, errs2 = run_parallel(drv, scripts, wd, "ord")
    for e in errs + errs2:
        res.violation("driver-crash", e, {"kind": "impl-counterexample", "detail": e})

    # ---- evaluate
    tr_lines, pc_lines = [], []
    case_of_order = {}
    fam_count, nontrivial = {}, 0
    for c in live:
        fam_count[c["spec"]["family"]] = fam_count.get(c["spec"]["family"], 0) + 1
        nt = check_case(res, c, outs_, tr_lines, pc_lines, stats, case_of_order)
        nontrivial += nt

    # ---- the extracted model on the same histories
    mism, okc, modes = [], 0, {}
    pcres = {}
    if runner:
        tf = os.path.join(wd, "transcript.txt")
        open(tf, "w").write("\n".join(tr_lines + pc_lines) + "\n")
        rc, mo, me = vlib.run([runner, tf], timeout=1700)
        open(os.path.join(wd, "model.out"), "w").write(mo)
        for line in mo.split("\n"):
            t = line.split()
            if not t:
                continue
            if t[0] == "ok":
                okc += 1
                kv = dict(x.split("=") for x in t[2:] if "=" in x)
                if "mode" in kv:
                    modes[t[1]] = kv["mode"]
            elif t[0] == "MISMATCH":
                mism.append(line[:600])
            elif t[0] == "pc":
                pcres[t[1]] = t[2] == "1"
        if rc != 0:
            mism.append("runner exit %d %s" % (rc, me[-300:]))
    # deferred evaluateBatch comparisons of Local Polynomial grids: only on parent-complete final sets (extracted predicate)
    for c in live:
        for (oid, what, a, b, scale) in c.get("deferred_eval", []):
            if not pcres.get(oid, False):
                stats["eval_skipped_incomplete"] += 1
                continue
            compare_eval(res, c, oid, what, a, b, scale, stats)

    # ---- classification of tensor-model outcomes (variants: T/F = with/without the repair of the single-point entry, of clearTesnors)
    def keys_of(mode):
        ag = set(mode.split(","))
        if "TT" in ag:
            return []
        if "TF" in ag:
            return [KEY_CAND]
        if "FT" in ag:
            return [KEY_SINGLE]
        return [KEY_SINGLE, KEY_CAND]
    for c in live:
        fam = c["spec"]["family"]
        ks = set()
        for k in range(len(c["orders"])):
            for kk in keys_of(modes.get("%s.o%d" % (c["id"], k), "TT")):
                ks.add(kk)
        for what, oi in c.get("deferred_viol", []):
            stats["violations"] += 1
            for key in (sorted("%s:%s" % (k, fam) for k in ks) or ["final-set-depends-on-order:" + fam]):
                res.violation(key, "%s [%s; start %s; target %s; order %d %s]" % (what, gl.make_cmd(c["spec"]), c["start"], c["target"], oi, c["orders"][oi]["mode"]),
                              replay_of(c, oi))
    seen_ck = set()
    for oid, m in modes.items():
        c, oi = case_of_order[oid]
        fam = c["spec"]["family"]
        for k in keys_of(m):
            if (c["id"], k) in seen_ck:
                continue          # one replay file per case and key
            seen_ck.add((c["id"], k))
            stats["violations"] += 1
            text = {KEY_SINGLE: "a single-point loadConstructedPoints call for a point whose tensor is not registered leaves the complete, admissible tensor parked",
                    KEY_CAND: "getCandidateConstructionPoints un-registers a tensor whose samples are parked; the samples are not promoted when the tensor becomes admissible"}[k]
            res.violation("%s:%s" % (k, fam), "%s: the implementation follows the model of the code as it stands, not the order-independent one [%s, order %d]"
                          % (text, gl.make_cmd(c["spec"]), oi), replay_of(c, oi))
    real_mism = []
    for m in mism:
        oid = m.split()[1] if len(m.split()) > 1 else ""
        if oid in case_of_order:
            c, oi = case_of_order[oid]
            has_cand = any(op[0] == "cand" for op in c["orders"][oi]["ops"])
            _ = has_cand
        real_mism.append(m)
    if real_mism and not res.violations:
        oid = real_mism[0].split()[1] if len(real_mism[0].split()) > 1 else ""
        rp = {"kind": "correspondence-break", "correspondence": "Model.Construct (extracted) vs loadConstructedPoints histories", "examples": real_mism[:10]}
        if oid in case_of_order:
            rp.update(replay_of(*case_of_order[oid]))
        res.violation("correspondence", "model and implementation disagree on %d histories, e.g. %s" % (len(real_mism), real_mism[0][:400]), rp, no_input=True)
    if proof_broken and not res.violations:
        res.violation("proof", "proof obligations of Properties_C09.v no longer check (%d/%d) %s" %
                      (props["discharged"], props["obligations"], res.coverage["forbidden_tokens"][:2]),
                      {"kind": "proof-break", "theorems": props["theorems"], "log": props["log"][-3000:]}, no_input=True)
    if not ok_ext and not res.violations:
        res.violation("extraction", "extraction of the model failed", {"kind": "proof-break", "log": elog[-2000:]}, no_input=True)

    sample = []
    if live:
        c = live[min(2, len(live) - 1)]
        sample = [order_script(c, 1 if len(c["orders"]) > 1 else 0, c["orders"][1 if len(c["orders"]) > 1 else 0])[:12]]
    res.coverage.update({
        "evaluations": stats["orders"], "distinct_nontrivial": nontrivial,
        "rule": "case = (family, rule/order, dims 1-3, outputs 1-3, selection type, anisotropy, level limits, start empty|loaded, target = all points of a "
                "deeper reference grid or a random 75% subset); every case is delivered in K random permutations x batchings (all at once, one at a time, "
                "random sizes 1-8), optionally with getCandidateConstructionPoints calls in between; one evaluation = one delivery history; "
                "non-trivial = at least 2 loadConstructedPoints calls and at least one sample parked at some time; distinct by (case, permutation)",
        "samples": sample, "programs": len(live), "cases": len(live), "cases_skipped_config": stats["skipped_config"],
        "traces_validated_against_impl": okc, "disagreements_checked": len(mism),
        "correspondence": {"histories_agreeing": okc, "mismatches": len(real_mism), "tensor_histories_by_model": {m: list(modes.values()).count(m) for m in set(modes.values())}},
        "deliveries": stats["deliveries"], "states_observed": stats["states"], "family_distribution": fam_count,
        "complete_targets": stats["complete_targets"], "subset_targets": stats["subset_targets"],
        "evaluate_comparisons": stats["eval_compared"], "evaluate_skipped_not_parent_complete": stats["eval_skipped_incomplete"],
        "one_batch_reference_comparisons": stats["ref_compared"], "candidate_calls": stats["cand_calls"], "candidate_points_checked": stats["cand_points"],
        "direct_property_violations": stats["violations"],
    })
    res.assumptions = [
        "every delivered point is a grid node (coordinates come from the implementation's own point lists) and is delivered once",
        "evaluateBatch across orders is compared with tolerance 1e-11 * max(1, |values|); for Local Polynomial grids only when the final set is parent-complete",
        "domain transforms are not used in construction histories (C10 covers the coordinate maps)",
    ]


def replay_of(c, oi):
    cc = {k: v for k, v in c.items() if k in ("id", "spec", "steps", "start", "target", "fn", "probe_seed", "order_seed", "cand_prob", "cand_first",
                                              "tie_only", "explicit_target", "explicit_orders")}
    return {"kind": "impl-counterexample", "case": cc, "order": oi, "script": order_script(c, oi, c["orders"][oi])[:400]}


def compare_eval(res, c, oid, what, a, b, scale, stats):
    stats["eval_compared"] += 1
    if len(a) != len(b):
        res.violation("evaluate-size", "evaluateBatch sizes differ (%s)" % what, replay_of(c, int(oid.split(".o")[1]) if ".o" in oid else 0))
        stats["violations"] += 1
        return
    tol = 1e-11 * max(1.0, scale)
    worst = max([abs(x - y) for x, y in zip(a, b)] + [0.0])
    if worst > tol or any((x != x) != (y != y) for x, y in zip(a, b)):
        oi = int(oid.split(".o")[1]) if ".o" in oid else 0
        key = "surrogate-depends-on-order:%s" % c["spec"]["family"]
        if erule(c["spec"]) == "semilocalp":
            key = KEY_STEP
        res.violation(key,
                      "evaluateBatch differs by %.3g (tolerance %.3g) %s [%s]" % (worst, tol, what, gl.make_cmd(c["spec"])), replay_of(c, oi))
        stats["violations"] += 1


def check_case(res, c, outs_, tr_lines, pc_lines, stats, case_of_order):
    """direct evaluation of C09 on all orders of one case; emits the transcripts for the model; returns #non-trivial histories"""
    spec = c["spec"]
    d, no, fam = spec["dims"], spec["outs"], spec["family"]
    glob = fam in ("global", "fourier")
    tb = c["table"]
    finals, evals, nontrivial = {}, {}, 0
    supplied_all = set(c["start_loaded"]) | set(c["target_idx"])
    c["deferred_eval"] = []
    c["cand_forget"] = {}
    scale = 32.0

    def viol(key, what, oi):
        stats["violations"] += 1
        res.violation(key, "%s [%s; start %s; target %s; order %d %s]" % (what, gl.make_cmd(spec), c["start"], c["target"], oi, c["orders"][oi]["mode"]),
                      replay_of(c, oi))

    for oi, o in enumerate(c["orders"]):
        oid = "%s.o%d" % (c["id"], oi)
        steps = outs_.get(oid)
        if not steps:
            viol("no-output", "the history produced no output", oi)
            continue
        stats["orders"] += 1
        case_of_order[oid] = (c, oi)
        bad = [s for s in steps if s.exc is not None]
        if bad and bad[0].exc[0] == "hang":     # running time is not part of the statement: this order is not judged, counted
            stats["orders_cut_short_by_a_slow_call"] = stats.get("orders_cut_short_by_a_slow_call", 0) + 1
            continue
        if bad:
            k = bad[0].exc[0]
            viol(("no-return:" if k == "hang" else "crash:" if k.startswith("crash") else "unexpected-exception:") + bad[0].cmd.split()[0],
                 "%s raised %s" % (bad[0].cmd[:80], bad[0].exc), oi)
            continue
        tl = []
        if glob:
            tl.append("gcon %s %d npts: %s" % (oid, d, " ".join(map(str, c["npts"]))))
        else:
            tl.append("con %s %s %d %s %d" % (oid, {"sequence": "seq", "localp": "localp", "wavelet": "wavelet"}[fam], d, erule(spec), spec.get("order", 0)))
        delivered = set()
        cur_ll = list(spec.get("ll") or [])
        ever_parked = False
        ndel = 0
        i = 0
        pending = None
        last_state = None
        while i < len(steps):
            s = steps[i]
            t = s.cmd.split()
            if t[0] == "deliverx":
                k = t.index("x:")
                xs = [gl.fl(v) for v in t[k + 1:]]
                pts = rows(xs, d)
                idxs = [tb.index(p) for p in pts]
                vals = [[gl.fn_value(c["fn"], list(p), j) for j in range(no)] for p in pts]
                pending = ("del", idxs, vals)
                for q in idxs:
                    delivered.add(q)
                ndel += 1
                stats["deliveries"] += 1
            elif t[0] == "cand":
                cand = rows(s.obs.get("cand", []), d)
                if "ll:" in t:    # the limits given to a candidate request replace the stored ones
                    cur_ll = [int(v) for v in t[t.index("ll:") + 1:]]
                pending = ("cand", cand, list(cur_ll))
                stats["cand_calls"] += 1
            elif t[0] == "finish":
                pending = ("fin",)
            elif t[0] == "evalb":
                evals.setdefault(oi, []).append(s.obs.get("evalb", []))
            elif t[0] == "dump" and "meta" in s.obs:
                x = steps[i + 1] if i + 1 < len(steps) and steps[i + 1].cmd.startswith("xdump") else None
                m = s.obs["meta"]
                nl = int(m["loaded"])
                prow = rows(s.obs.get("pidx", []), d)
                pcoord = rows(s.obs.get("points", []), d)
                vals = s.obs.get("values", [])
                constr = x is not None and x.obs.get("cstate", [0]) != [0] and "cparked" in x.obs
                parked = rows(x.obs.get("cparked", []), d) if constr else []
                pvals = x.obs.get("cpvals", []) if constr else []
                stats["states"] += 1
                if parked:
                    ever_parked = True
                # ---- direct checks on this state
                if len(set(prow)) != len(prow) or len(set(parked)) != len(parked) or set(prow) & set(parked):
                    viol("duplicate-or-overlap", "loaded/parked sets have duplicates or overlap", oi)
                if len(vals) == nl * no and len(pcoord) == nl:
                    for j in range(nl):
                        e = [gl.fn_value(c["fn"], list(pcoord[j]), q) for q in range(no)]
                        if [v.hex() for v in vals[j * no:(j + 1) * no]] != [v.hex() for v in e]:
                            viol("value-misassociated:" + fam, "loaded value at %s is %s, supplied %s" % (pcoord[j], vals[j * no:(j + 1) * no], e), oi)
                            break
                else:
                    viol("values-size", "getLoadedValues/getLoadedPoints sizes do not match %d points x %d outputs" % (nl, no), oi)
                if constr and len(pvals) == len(parked) * no:
                    for j, q in enumerate(parked):
                        co = c["coords"].get(q)
                        if co is None:
                            viol("unknown-parked-point", "parked index %s was never delivered" % (q,), oi)
                            break
                        e = [gl.fn_value(c["fn"], list(co), k2) for k2 in range(no)]
                        if [v.hex() for v in pvals[j * no:(j + 1) * no]] != [v.hex() for v in e]:
                            viol("parked-value-misassociated:" + fam, "parked value of %s is %s, supplied %s" % (q, pvals[j * no:(j + 1) * no], e), oi)
                            break
                if pending is None or pending[0] != "fin":
                    if constr or pending is None:
                        have = set(prow) | set(parked)
                        want = set(c["start_loaded"]) | delivered
                        if have != want:
                            lost = sorted(want - have)[:4]
                            extra = sorted(have - want)[:4]
                            viol("sample-dropped:" + fam if lost else "unexpected-point:" + fam,
                                 "while construction is active loaded+parked != start+delivered (missing %s, extra %s) after %s" % (lost, extra, steps[i - 1].cmd[:60]), oi)
                if pending is not None and pending[0] == "cand":
                    lk = set(ckey(p) for p in pcoord)
                    ck = [ckey(p) for p in pending[1]]
                    stats["cand_points"] += len(ck)
                    hit = [p for p, k2 in zip(pending[1], ck) if k2 in lk]
                    if hit:
                        viol("candidate-already-loaded:" + fam, "candidate list contains the loaded point %s" % (hit[0],), oi)
                    if len(set(ck)) != len(ck):
                        viol("candidate-duplicates:" + fam, "candidate list contains a point twice", oi)
                    pk = set(ckey(c["coords"][q]) for q in parked if q in c["coords"])
                    # (parked samples may legitimately be proposed again by the local families: not judged here, see C18)
                if pending is not None and pending[0] == "fin":
                    if last_state is not None and (set(prow) != last_state[0] or int(m["constr"]) != 0):
                        viol("finish-changed-points:" + fam, "finishConstruction changed the loaded points or left construction active", oi)
                # ---- transcript for the model
                if glob:
                    tens = rows(s.obs.get("tensors", []), d)
                    ct = rows(x.obs.get("ctens", []), d) if constr else []
                    cw = x.obs.get("ctw", []) if constr else []
                    tinit = [q for q, w in zip(ct, cw) if w < 0]
                    treg = [q for q, w in zip(ct, cw) if w >= 0]
                    if pending is not None and pending[0] == "del":
                        if None in pending[1]:
                            tl = None
                        else:
                            tl.append("gdel idx: %s vals: %s" % (" ".join(str(v) for q in pending[1] for v in q),
                                                                 " ".join(",".join(float(v).hex() for v in vv) for vv in pending[2])))
                    elif pending is not None and pending[0] == "cand" and tl is not None:
                        ci = [tb.index(p) for p in pending[1]]
                        if None in ci:
                            tl = None
                        else:
                            tl.append("gcand limits: %s impl: %s" % (" ".join(map(str, pending[2])), " ".join(str(v) for q in ci for v in q)))
                            # direct: a tensor with parked samples must stay registered (else its samples can never be promoted)
                            regs = set(ct)
                            lv = c["npts"]
                            for q in parked:
                                tq = tuple(next((l for l in range(len(lv)) if k2 < lv[l]), len(lv)) for k2 in q)
                                if tq not in regs:
                                    c["cand_forget"][oi] = True
                    if tl is not None and (pending is None or pending[0] != "fin"):
                        tl.append("gst tensors: %s pidx: %s vals: %s parked: %s pvals: %s tinit: %s treg: %s" % (
                            " ".join(str(v) for q in tens for v in q), " ".join(str(v) for q in prow for v in q), " ".join(blocks(vals, no, nl)),
                            " ".join(str(v) for q in parked for v in q), " ".join(blocks(pvals, no, len(parked))),
                            " ".join(str(v) for q in tinit for v in q), " ".join(str(v) for q in treg for v in q)))
                elif tl is not None:
                    init = rows(x.obs.get("cinit", []), d) if constr else []
                    if pending is not None and pending[0] == "del":
                        if None in pending[1]:
                            tl = None
                        else:
                            tl.append("del idx: %s vals: %s" % (" ".join(str(v) for q in pending[1] for v in q),
                                                                " ".join(",".join(float(v).hex() for v in vv) for vv in pending[2])))
                    elif pending is not None and pending[0] == "cand" and fam == "sequence":
                        ci = [tb.index(p) for p in pending[1]]
                        if None not in ci:
                            tl.append("cand limits: %s impl: %s" % (" ".join(map(str, pending[2])), " ".join(str(v) for q in ci for v in q)))
                    elif pending is not None and pending[0] == "fin":
                        tl.append("fin")
                    if tl is not None:
                        tl.append("st pidx: %s vals: %s parked: %s pvals: %s init: %s" % (
                            " ".join(str(v) for q in prow for v in q), " ".join(blocks(vals, no, nl)),
                            " ".join(str(v) for q in parked for v in q), " ".join(blocks(pvals, no, len(parked))),
                            " ".join(str(v) for q in init for v in q)))
                last_state = (set(prow), set(parked))
                if pending is not None and pending[0] == "fin":
                    finals[oi] = last_state[0]
                    c.setdefault("final_pidx", {})[oi] = prow
                pending = None
            i += 1
        if tl is not None:
            tr_lines.extend(tl)
        if ndel >= 2 and ever_parked:
            nontrivial += 1
        if fam == "localp" and oi in finals:
            pc_lines.append("pc %s %s %d pidx: %s" % (oid, erule(spec), d, " ".join(str(v) for q in c["final_pidx"][oi] for v in q)))
        # finish must not change the surrogate
        ev = evals.get(oi, [])
        if len(ev) == 2 and [v.hex() for v in ev[0]] != [v.hex() for v in ev[1]]:
            viol("finish-changed-surrogate:" + fam, "evaluateBatch changed across finishConstruction", oi)

    # ---- across orders
    ois = sorted(finals)
    if c.get("tie_only"):
        ois = []        # only the stepwise prediction of the model is judged
    if ois:
        f0 = finals[ois[0]]
        for oi in ois[1:]:
            if finals[oi] != f0:
                key = "final-set-depends-on-order:" + fam
                if fam == "localp" and erule(spec) == "semilocalp" and c["target"] == "subset":
                    key = "%s:semi-localp" % KEY_SEMI
                d1, d2 = sorted(f0 - finals[oi])[:4], sorted(finals[oi] - f0)[:4]
                what = ("final loaded sets differ between order %d (%s) and order %d (%s): only in first %s, only in second %s"
                        % (ois[0], c["orders"][ois[0]]["mode"], oi, c["orders"][oi]["mode"], d1, d2))
                if glob:
                    c.setdefault("deferred_viol", []).append((what, oi))
                else:
                    viol(key, what, oi)
                break
        if c["target"] == "complete":
            for oi in ois:
                if finals[oi] != supplied_all:
                    what = ("the admissible target was not loaded completely: %d of %d points, missing e.g. %s"
                            % (len(finals[oi]), len(supplied_all), sorted(supplied_all - finals[oi])[:4]))
                    if glob:
                        c.setdefault("deferred_viol", []).append((what, oi))
                    else:
                        viol("complete-target-not-loaded:" + fam, what, oi)
                    break
        # surrogate across orders (first evaluation of each order = before finish)
        base_oi = next((oi for oi in ois if oi in evals and evals[oi]), None)
        for oi in ois:
            if oi == base_oi or oi not in evals or not evals[oi] or finals[oi] != finals[base_oi]:
                continue
            what = "between order %d and order %d" % (base_oi, oi)
            if fam == "localp":
                c["deferred_eval"].append(("%s.o%d" % (c["id"], oi), what, evals[base_oi][0], evals[oi][0], scale))
            else:
                compare_eval(res, c, "%s.o%d" % (c["id"], oi), what, evals[base_oi][0], evals[oi][0], scale, stats)
        # one-batch reference
        rs = outs_.get(c["id"] + ".ref")
        if rs and not any(s.exc for s in rs) and base_oi is not None:
            dm = [s for s in rs if s.cmd.startswith("dump")][0]
            rset = set(rows(dm.obs.get("pidx", []), d))
            rev = [s for s in rs if s.cmd.startswith("evalb")][0].obs.get("evalb", [])
            for oi in ois:
                if finals[oi] == rset and oi in evals and evals[oi]:
                    stats["ref_compared"] += 1
                    what = "between order %d and a one-batch loadNeededValues of the same data" % oi
                    if fam == "localp":
                        c["deferred_eval"].append(("%s.o%d" % (c["id"], oi), what, rev, evals[oi][0], scale))
                    else:
                        compare_eval(res, c, "%s.o%d" % (c["id"], oi), what, rev, evals[oi][0], scale, stats)
                    break
    return nontrivial


def corpus_cases():
    """regression inputs first: the witnesses of the single-point tensor defect (Global leja, Fourier) and a semi-localp subset target"""
    out = []
    out.append({"id": "w0", "spec": {"family": "global", "dims": 1, "outs": 1, "ll": [], "rule": "leja", "type": "level", "depth": 1}, "steps": [2],
                "start": "loaded", "target": "complete", "fn": "hash", "probe_seed": 1, "order_seed": 1, "cand_prob": 0.0, "cand_first": True})
    out.append({"id": "w1", "spec": {"family": "global", "dims": 2, "outs": 2, "ll": [], "rule": "rleja", "type": "level", "depth": 1}, "steps": [2],
                "start": "loaded", "target": "complete", "fn": "hash", "probe_seed": 2, "order_seed": 2, "cand_prob": 0.0, "cand_first": False})
    out.append({"id": "w2", "spec": {"family": "global", "dims": 2, "outs": 1, "ll": [], "rule": "leja", "type": "level", "depth": 0}, "steps": [3],
                "start": "loaded", "target": "complete", "fn": "hash", "probe_seed": 3, "order_seed": 3, "cand_prob": 0.3, "cand_first": True})
    out.append({"id": "w3", "spec": {"family": "localp", "dims": 2, "outs": 1, "ll": [], "rule": "semi-localp", "order": 2, "depth": 1}, "steps": [2],
                "start": "loaded", "target": "subset", "fn": "hash", "probe_seed": 4, "order_seed": 4, "cand_prob": 0.0, "cand_first": False})
    # semi-localp: (2,1) is the step-parent of the loaded (3,1) and has no other relative present: the sweep of the batch entry finds it
    # (getLargestConnected looks at the step-parents of the present points), the single-point entry does not (relatives of (2,1) itself)
    out.append({"id": "w4", "spec": {"family": "localp", "dims": 2, "outs": 1, "ll": [], "rule": "semi-localp", "order": 2, "depth": 0}, "steps": [3],
                "start": "empty", "target": "explicit", "fn": "hash", "probe_seed": 5, "order_seed": 5, "cand_prob": 0.0, "cand_first": False, "tie_only": True,
                "explicit_target": [[0, 0], [1, 0], [3, 0], [3, 1], [2, 1], [5, 0]],
                "explicit_orders": [[[[0, 0]], [[1, 0]], [[3, 0]], [[3, 1]], [[2, 1], [5, 0]]],
                                    [[[0, 0]], [[1, 0]], [[3, 0]], [[3, 1]], [[2, 1]], [[5, 0]]],
                                    [[[0, 0], [1, 0]], [[3, 0], [3, 1]], [[5, 0], [2, 1]]]]})
    return out


def replay(path):
    import json
    rp = json.load(open(path))
    res = vlib.Result(PID, "quick", rp.get("seed", 1), LEVEL)
    if "case" in rp:
        run(res, "quick", rp.get("seed", 1), replay_cases=[rp["case"]])
    else:
        run(res, "quick", rp.get("seed", 1))
    return res.finish()
