#!/usr/bin/env python3
"""props/rulelocalqgen.py — re-check the hand-written Coq model of getNode / getSupport / scaleDiffX of namespace RuleLocal against the
CURRENT header.

regenerate_and_check(res=None) -> dict
  1. translator/rulelocal.py + translator/rulelocalq.py: coq/gen/RuleLocalGen.v (integer functions) and coq/gen/RuleLocalQGen.v (the three
     double-valued functions read as exact rationals) from <repo>/SparseGrids/tsgRuleLocalPolynomial.hpp + tsgMathUtils.hpp (clang AST);
  2. build Props/Properties_RuleLocalQGen.vo: Proofs/RuleLocalQGenProofs.v proves gq_f r p == f r p (Model/RuleLocal.v, Qeq) for every rule and
     every point >= 0 and transports support > 0, scaleDiffX = 1/support, scaleDiffX > 0; every theorem must be closed;
  3. ALWAYS: numeric three-way comparison on all points 0..NPOINTS of the five rules: generated definition and model are evaluated in Coq
     (vm_compute, exact fractions), the compiled header by harness/rlqdrv.cpp (g++ against the same tree, %a).  generated vs model: exact.
     header vs generated: EXACT (the values are dyadic and the double operations are exact on them) except rule pwc, where 1/3^k is rounded:
     getSupport<pwc> within 1 ulp of the value, getNode<pwc> = -2 + fl(fl(1/3^k) * m) with 1 <= m/3^k < 3 within 2^-50 absolute
     (2 ulp of the intermediate product, which lies in [1,4): rounding of 1/3^k contributes <= 3*2^-53, of the product <= 2^-52, of the sum
     <= 2^-54; 1 ulp is NOT enough: point 213 is off by 1.2 ulp of 2.0; the result itself may be much smaller than the summands).  scaleDiffX<semilocalp>(0) is not evaluated (int2log2(-1) does not terminate in C++).
  keys: ok, stage ('ok' | 'translator' | 'coq' | 'numeric'), log, theorems, assumptions, source_hash, compared (number of values compared with
        the header), differing_input (None or dict(function, rule, point, generated, model, header, verdict)), differences (first difference of
        every function/rule), header_available, wall_s.
  When run on a scratch tree (VERIF_REPO) the generated files are put back to the translation of /repo afterwards.
stand-alone: python3 props/rulelocalqgen.py   prints the dict (json), exit 0 iff ok."""
import hashlib
import importlib
import json
import math
import os
import re
import sys
import time
from fractions import Fraction

ROOT = os.path.dirname(os.path.dirname(os.path.abspath(__file__)))
for d in ("tools", "translator"):
    if os.path.join(ROOT, d) not in sys.path:
        sys.path.insert(0, os.path.join(ROOT, d))
import vlib  # noqa: E402

WORK = os.path.join(vlib.BUILD, "work", "rlq")
GEN_Z = os.path.join(vlib.COQDIR, "gen", "RuleLocalGen.v")
GEN_Q = os.path.join(vlib.COQDIR, "gen", "RuleLocalQGen.v")
TARGET = "Props/Properties_RuleLocalQGen.vo"
RULES = ["Pwc", "Localp", "Semilocalp", "Localp0", "Localpb"]
FUNCS = ["getNode", "getSupport", "scaleDiffX"]
NPOINTS = 700
PWC_NODE_TOL = Fraction(1, 2 ** 50)          # 2 ulp of the intermediate product in [2,4) (see above)


def _translate(repo):
    """-> (rulelocal module, cfg dir, text of RuleLocalGen.v, text of RuleLocalQGen.v, facts)"""
    mz, mq = importlib.import_module("rulelocal"), importlib.import_module("rulelocalq")
    cfg = os.path.join(WORK, "cfg-" + re.sub(r"\W", "_", os.path.realpath(repo))[-40:])
    saved, vlib.REPO = vlib.REPO, repo
    try:
        vlib.gen_config(cfg)
    finally:
        vlib.REPO = saved
    tz, _fz = mz.generate(repo, cfg, WORK)
    tq, fq = mq.generate(repo, cfg, WORK)
    return mz, cfg, tz, tq, fq


def _dump_script(gen):
    """scratch .v: the values of the three functions (generated or model) on all rules and points, as reduced fractions (num, den)"""
    req = "From TV Require Import Common.Prelude Model.RuleLocal%s." % (" gen.RuleLocalGen gen.RuleLocalQGen" if gen else "")
    lines = ["From Coq Require Import QArith.", req, "Local Open Scope Z_scope.", "Set Printing Width 4000. Set Printing Depth 100000.",
             "Definition upto (n : nat) : list Z := map Z.of_nat (seq 0 (S n)).",
             "Definition fr (q : Q) : Z * Z := let q' := Qred q in (Qnum q', Zpos (Qden q'))."]
    for f in FUNCS:
        for r in RULES:
            lines.append("Eval vm_compute in map (fun p => fr (%s%s %s p)) (upto %d)." % ("gq_" if gen else "", f, r, NPOINTS))
    return "\n".join(lines) + "\n"


def _coq_values(gen):
    """-> ({(function, rule): [Fraction]}, log)"""
    path = os.path.join(WORK, "dump_%s.v" % ("gen" if gen else "model"))
    with open(path, "w") as fh:
        fh.write(_dump_script(gen))
    with vlib.Lock("coq"):
        rc, so, se = vlib.run(["coqc", "-Q", vlib.COQDIR, "TV", "-w", "-notation-overridden", path], timeout=600)
    if rc != 0:
        return None, "evaluation script %s failed:\n%s" % (os.path.basename(path), (so + se)[-1500:])
    blocks = re.split(r"^\s*= ", so, flags=re.M)[1:]
    if len(blocks) != len(FUNCS) * len(RULES):
        return None, "evaluation script: %d answers for %d lists" % (len(blocks), len(FUNCS) * len(RULES))
    out, i = {}, 0
    for f in FUNCS:
        for r in RULES:
            vals = [Fraction(int(a), int(b)) for a, b in re.findall(r"\(\s*(-?\d+)\s*,\s*(\d+)\s*\)", blocks[i])]
            if len(vals) != NPOINTS + 1:
                return None, "evaluation script: %d values of %s %s, expected %d" % (len(vals), f, r, NPOINTS + 1)
            out[(f, r)] = vals
            i += 1
    return out, ""


def _header_values(repo, cfg):
    """values of the compiled header (harness/rlqdrv.cpp against <repo>): ({(function, rule): [float or None]}, log)"""
    src = os.path.join(vlib.ROOT, "harness", "rlqdrv.cpp")
    hh = hashlib.sha256(open(src, "rb").read())
    for rel in ("SparseGrids/tsgRuleLocalPolynomial.hpp", "SparseGrids/tsgMathUtils.hpp"):
        hh.update(open(os.path.join(repo, rel), "rb").read())
    exe = os.path.join(WORK, "rlqdrv-" + hh.hexdigest()[:12])
    if not os.path.exists(exe):
        rc, so, se = vlib.run(["g++", "-std=c++11", "-O1", "-ffp-contract=off", "-I" + cfg, "-I" + os.path.join(repo, "SparseGrids"), src,
                               "-o", exe + ".tmp%d" % os.getpid()], timeout=300)
        if rc != 0:
            return None, "harness/rlqdrv.cpp does not compile against the header:\n" + se[-1500:]
        os.rename(exe + ".tmp%d" % os.getpid(), exe)
    rc, so, se = vlib.run([exe, str(NPOINTS)], timeout=60)
    if rc != 0:
        return None, "rlqdrv exited with %s (a call does not return / crashes): %s" % (rc, se[-300:])
    out = {(f, r): [None] * (NPOINTS + 1) for f in FUNCS for r in RULES}
    for line in so.split("\n"):
        t = line.split()
        if len(t) == 6 and t[0] == "q":
            r, p = t[1].capitalize(), int(t[2])
            for f, v in zip(FUNCS, t[3:]):
                out[(f, r)][p] = None if v == "-" else float.fromhex(v)
    return out, ""


def _agree(f, r, hv, gv):
    """header double hv against the exact generated value gv -> (ok, how)"""
    if math.isnan(hv) or math.isinf(hv):
        return False, "not finite"
    if r == "Pwc" and f == "getNode":
        return abs(Fraction(hv) - gv) <= PWC_NODE_TOL, "tolerance 2^-50"
    if r == "Pwc" and f == "getSupport":
        return abs(Fraction(hv) - gv) <= Fraction(math.ulp(hv)), "tolerance 1 ulp"
    return Fraction(hv) == gv, "exact"


def _qs(v):
    return None if v is None else (str(v) if isinstance(v, Fraction) else float(v).hex())


def _compare(gen, model, hdr):
    """-> (first differing input or None, {function/rule: difference}, number of header values compared)"""
    diffs, first, compared = {}, None, 0
    for f in FUNCS:
        for r in RULES:
            for p in range(NPOINTS + 1):
                g = gen[(f, r)][p] if gen else None
                m = model[(f, r)][p] if model else None
                h = hdr[(f, r)][p] if hdr else None
                if f == "scaleDiffX" and r == "Semilocalp" and p == 0:
                    continue                                   # int2log2(-1): outside the domain of the C++ (and of the theorem)
                exact = g if g is not None else m              # what the header is compared with
                gm = g is None or m is None or g == m
                if h is not None and exact is not None:
                    compared += 1
                gh = h is None or g is None or _agree(f, r, h, g)[0]
                mh = h is None or m is None or _agree(f, r, h, m)[0]
                if gm and gh and mh:
                    continue
                verdict = ("the header now differs from the model Model/RuleLocal.v (compiled header = generated definition)" if not gm and gh else
                           "TRANSLATOR BUG or inexact double arithmetic: the compiled header gives %s, the generated definition %s" % (_qs(h), _qs(g))
                           if gm and not gh else
                           "the compiled header differs from the model (no generated definition)" if g is None else
                           "compiled header, generated definition and model all differ")
                d = {"function": f, "rule": r, "point": p, "generated": _qs(g), "model": _qs(m), "header": _qs(h),
                     "header_as_fraction": _qs(Fraction(h)) if h is not None and math.isfinite(h) else None, "verdict": verdict}
                diffs["%s/%s" % (f, r)] = d
                first = first or d
                break
    return first, diffs, compared


def regenerate_and_check(res=None):
    t0 = time.time()
    os.makedirs(WORK, exist_ok=True)
    out = {"ok": False, "stage": "translator", "log": "", "theorems": [], "assumptions": {}, "source_hash": None, "compared": 0,
           "differing_input": None, "differences": {}, "header_available": False}
    mz = importlib.import_module("rulelocal")
    out["source_hash"] = mz.source_hash(vlib.REPO)
    cfg = None
    try:
        translated, proved, props = False, False, None
        try:
            mz, cfg, tz, tq, _facts = _translate(vlib.REPO)
            with vlib.Lock("coq"):
                mz.write_if_changed(GEN_Z, tz)
                mz.write_if_changed(GEN_Q, tq)
            translated = True
        except mz.TranslatorError as e:
            out["log"] = "translator rejects the source: " + str(e)
        if translated:
            out["stage"] = "coq"
            props = vlib.coq_props("RuleLocalQGen", timeout=600)
            out["theorems"], out["assumptions"] = props["theorems"], props["assumptions"]
            open_thms = [t for t in props["theorems"] if props["assumptions"].get(t) != "Closed under the global context"]
            forbidden = [h for h in vlib.coq_forbidden_tokens() if "RuleLocalQGen" in h or "RuleLocalGen" in h]
            proved = props["ok"] and not open_thms and not forbidden
            if proved:
                out["log"] = "%d theorems, all closed under the global context" % len(props["theorems"])
            else:
                out["log"] = ("build of %s failed" % TARGET if not props["ok"] else "not closed: %s %s" % (open_thms, forbidden)) + \
                             "\n--- coq log (tail) ---\n" + props["log"][-2500:]
        # ---- numeric three-way comparison (always) ----
        if cfg is None:
            cfg = os.path.join(WORK, "cfg-" + re.sub(r"\W", "_", os.path.realpath(vlib.REPO))[-40:])
            saved = vlib.REPO
            vlib.gen_config(cfg)
            vlib.REPO = saved
        notes = []
        gen = None
        if translated:
            okg, glog = vlib.coq_make(["gen/RuleLocalQGen.vo"], timeout=300)
            if okg:
                gen, glog = _coq_values(True)
            if gen is None:
                notes.append("generated definitions not evaluated: " + glog[-800:])
        okm, mlog = vlib.coq_make(["Model/RuleLocal.vo"], timeout=300)
        model, mlog2 = _coq_values(False) if okm else (None, mlog)
        if model is None:
            notes.append("model not evaluated: " + mlog2[-800:])
        hdr, hlog = _header_values(vlib.REPO, cfg)
        out["header_available"] = hdr is not None
        if hdr is None:
            notes.append(hlog)
        first, diffs, compared = _compare(gen, model, hdr)
        out.update(differing_input=first, differences=diffs, compared=compared)
        notes.append("numeric comparison on rules x points 0..%d: %d header values compared, %d function/rule pair(s) differ"
                     % (NPOINTS, compared, len(diffs)))
        out["log"] += "\n" + "\n".join(notes)
        if translated and proved and first is None and gen is not None and model is not None:
            out.update(ok=True, stage="ok")
        elif translated and proved:
            out["stage"] = "numeric"
        return out
    finally:
        if vlib._SCRATCH:                       # never leave the translation of a scratch tree in coq/gen
            try:
                _m, _c, tz0, tq0, _f = _translate("/repo")
                with vlib.Lock("coq"):
                    mz.write_if_changed(GEN_Z, tz0)
                    mz.write_if_changed(GEN_Q, tq0)
            except Exception as e:              # noqa: BLE001
                out["log"] += "\n(restoring gen/RuleLocalGen.v, gen/RuleLocalQGen.v from /repo failed: %s)" % e
        out["wall_s"] = round(time.time() - t0, 2)
        if res is not None and hasattr(res, "coverage"):
            res.coverage["rulelocalqgen"] = {k: out[k] for k in ("ok", "stage", "source_hash", "theorems", "compared", "differing_input", "wall_s")}


if __name__ == "__main__":
    r = regenerate_and_check(None)
    print(json.dumps(r, indent=1))
    sys.exit(0 if r["ok"] else 1)
