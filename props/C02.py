"""C02 — quadrature is exact on the polynomial space the grid declares.

Theorems: coq/Props/Properties_C02.v — the combination technique over a lower set is exact on the declared polynomial space for
ANY one-dimensional operator family that is exact up to a monotone degree function (unbounded in dimension, set, degrees),
for ANY commutative ring.  The one-dimensional exactness enters as a hypothesis that is CHECKED at run time through the
multi-dimensional statement itself; for interpolatory rules and any moment functional it is PROVED (degree < number of nodes,
Proofs/InterpQuadExact.v), which makes c02_sparse_interpolatory_quadrature_exact_unbounded unconditional (not the Gauss rules).  Direct evaluation on the implementation: every monomial of getGlobalPolynomialSpace(false)
is integrated by getQuadratureWeights() to its exact moment w.r.t. the rule's weight function (Global: all rules incl. the
Gauss families with alpha/beta, Sequence; uniform-weight rules also under linear transforms), Fourier modes integrate exactly,
weights sum to the measure, integrate() = weights . values."""
import math
import os

import extie
import c02gauss
import c02bridge
import c02cpp
import c02exotic
import c02weights
import gridlib as gl
import moments
import vlib

LEVEL = "proof"
PID = "C02"

TRUSTED = [
    "Coq 8.16.1 kernel; no native_compute; axioms: none",
    "Python orchestration and closed-form moments (tools/moments.py: Beta/Gamma functions via math.lgamma), C++ driver harness/tsgdrv.cpp",
    "modelled: the multi-dimensional assembly (lower set, hierarchical differences, declared polynomial space) in exact algebra; "
    "NOT modelled: one-dimensional node/weight generation (eigen-solves, tables, greedy sequences), the exactness tables getQExact, "
    "curved/hyperbolic contour arithmetic, the inclusion-exclusion form of the weights (tied numerically: the implementation's weights are tested on the declared space directly)",
    "translator translator/exactness.py (clang JSON AST of OneDimensionalMeta::getNumPoints/getIExact/getQExact -> coq/gen/ExactnessGen.v, compared entry by entry with the compiled library on every run): "
    "monotone tables (hypothesis m_mono), the n-1 / 2n-1 bounds and the instantiation of the sparse theorems with the library table are proved for all levels (Props/Properties_Exactness.v)",
]

TOL = 2e-10
GAUSS_AB = {"gauss-gegenbauer": 1, "gauss-gegenbauer-odd": 1, "gauss-jacobi": 2, "gauss-jacobi-odd": 2, "gauss-laguerre": 1, "gauss-laguerre-odd": 1,
            "gauss-hermite": 1, "gauss-hermite-odd": 1}
ALL_GLOBAL = sorted(moments.UNIFORM - {"rleja-shifted-even", "rleja-shifted-double"}) + \
    ["gauss-chebyshev1", "gauss-chebyshev1-odd", "gauss-chebyshev2", "gauss-chebyshev2-odd", "gauss-gegenbauer", "gauss-gegenbauer-odd",
     "gauss-jacobi", "gauss-jacobi-odd", "gauss-laguerre", "gauss-laguerre-odd", "gauss-hermite", "gauss-hermite-odd"]
SEQ = ["leja", "rleja", "rleja-shifted", "max-lebesgue", "min-lebesgue", "min-delta"]
SLOW = {"clenshaw-curtis", "clenshaw-curtis-zero", "fejer2", "gauss-patterson", "rleja-double2", "rleja-double4", "chebyshev", "chebyshev-odd"}


def gen_case(r, cid, tier):
    fam = r.choice(["global", "global", "global", "sequence", "fourier"])
    d = r.randint(1, 3)
    spec = {"family": fam, "dims": d, "outs": 1, "ll": gl.rand_limits(r, d, 0.25)}
    ty = r.choice(gl.DEPTH_TYPES)
    spec["type"] = ty
    if fam == "global":
        spec["rule"] = r.choice(ALL_GLOBAL)
        odd = spec["rule"].endswith("-odd")
        if "tensor" in ty:
            spec["depth"] = r.randint(1, 3)
        elif ty in ("level", "curved", "hyperbolic"):
            spec["depth"] = r.randint(1, 3 if (spec["rule"] in SLOW or odd) and d >= 2 else 4)
            if spec["rule"] == "gauss-patterson":
                spec["depth"] = min(spec["depth"], 3)
        else:
            spec["depth"] = r.randint(1, 9 if d == 1 else 6 if d == 2 else 4)
        nab = GAUSS_AB.get(spec["rule"], 0)
        if nab:
            # the documented range is alpha, beta > -1: also negative parameters (alpha + beta = -1 is a removable 0/0 of the Jacobi recurrence)
            spec["ab"] = [r.choice([0.0, 0.5, 1.0, 2.0, 0.25, -0.5, -0.25]), r.choice([0.0, 0.5, 2.0, -0.5, -0.75]) if nab == 2 else 0.0]
    elif fam == "sequence":
        spec["rule"] = r.choice(SEQ)
        spec["depth"] = r.randint(1, 3) if "tensor" in ty else (r.randint(1, 5) if ty in ("level", "curved", "hyperbolic") else r.randint(1, 8 if d <= 2 else 5))
    else:
        spec["depth"] = r.randint(1, 2) if ("tensor" in ty or ty in ("level", "curved", "hyperbolic")) else r.randint(1, 6 if d <= 2 else 4)
    spec["aw"] = gl.rand_aw(r, d, ty) if r.random() < 0.35 else []
    if "tensor" in ty and spec["aw"]:
        spec["depth"] = 1
    lines = ["case " + cid, gl.make_cmd(spec)]
    trans = None
    if r.random() < 0.35:
        trans = gl.rand_transform(r, spec)
        lines.append(gl.trans_cmd(trans))
    if r.random() < 0.3:
        # the declared space and the weights of a grid that was loaded and then UPDATED to other tensors (all rules, also the non-nested
        # Gauss families with alpha/beta: the one-dimensional rule cache is rebuilt by the update)
        uty = r.choice(gl.DEPTH_TYPES[:9])
        udepth = r.randint(1, 3) if ("tensor" in uty or uty in ("level", "curved", "hyperbolic")) else r.randint(2, 6 if d <= 2 else 4)
        if fam == "fourier":
            udepth = min(udepth, 2) if ("tensor" in uty or uty in ("level", "curved", "hyperbolic")) else udepth
        if fam == "global" and spec["rule"] == "gauss-patterson":
            udepth = min(udepth, 3)
        lines += ["load g poly", "update g %d %s%s" % (udepth, uty, gl.kv("ll:", spec["ll"])), "load g poly"]
        spec["updated"] = True
    lines += ["dump g meta allpoints qw" + ("" if fam == "fourier" else " polyq"), "load g poly", "dump g values", "integ g"]
    spec["trans"] = trans
    return spec, lines


def run(res, tier, seed, replay_script=None):
    props = vlib.coq_props(PID)
    vlib.proof_coverage(res, PID, props, "cd coq && make Props/Properties_C02.vo && coqc -Q . TV Props/Properties_C02.v", TRUSTED)
    ex_break = extie.run(res, PID)      # the exactness tables re-translated from the source, compared with the library and re-proved monotone / bounded
    proof_broken = (not props["ok"]) or bool(res.coverage["forbidden_tokens"])
    if replay_script is None:
        # Gauss rules: exactness to 2n-1 from the orthogonality of the node polynomial (Properties_C02_gauss.v); the hypotheses are evaluated on the library's nodes and weights
        # combination-technique tensor weights: computeTensorWeights modelled, proved equal to inclusion-exclusion on lower sets, compared exactly (Properties_C02_weights.v)
        c02weights.run(res, tier, seed)
        c02gauss.run(res, tier, seed)
        # the weights form the code assembles (sum of w(t) x tensor rule) equals the difference form of the theorems (Properties_C02_bridge.v)
        c02bridge.run(res)
        # the C++-shaped model tw_cpp (resortIndexes map / lines1d, sweeps by position) equals the line-based function of the theorems, every dimension (Properties_C02_cpp.v)
        c02cpp.run(res)
        # exotic (Addons/tsgExoticQuadrature.hpp) and custom-tabulated rules: every declared monomial against exact rational moments, shifts of every sign
        c02exotic.run(res, tier, seed)
        px = vlib.coq_props("C02_exotic")
        res.coverage["exotic_shift_theorems"] = {"props_file": "coq/Props/Properties_C02_exotic.v", "obligations": px["obligations"], "discharged": px["discharged"],
                                                 "theorems": px["theorems"], "print_assumptions": px["assumptions"]}
        proof_broken = proof_broken or not px["ok"]
    drv = vlib.build_driver("tsgdrv")
    wd = os.path.join(vlib.BUILD, "work", PID)
    os.makedirs(wd, exist_ok=True)
    r = vlib.rng(seed, PID)
    n = {"quick": 300, "thorough": 4000}[tier] * (3 if proof_broken else 1)
    specs, scripts = {}, {}
    # corpus: the Chebyshev rule at odd levels (declared exactness level+1)
    corpus = [("corpusF9", {"family": "global", "dims": 1, "outs": 1, "rule": "chebyshev", "type": "level", "depth": 1, "trans": None},
               ["case corpusF9", "make global g 1 1 1 level chebyshev", "dump g meta allpoints qw polyq", "load g poly", "dump g values", "integ g"])]
    if replay_script:
        cid = replay_script[0].split()[1]
        scripts[cid] = list(replay_script)
        mk = [l for l in replay_script if l.startswith("make")][0].split()
        sp = {"family": mk[1], "dims": int(mk[3]), "outs": int(mk[4]), "trans": None}
        if mk[1] in ("global", "sequence"):
            sp["rule"] = mk[7]
            if "ab:" in mk:
                i = mk.index("ab:")
                sp["ab"] = [float.fromhex(mk[i + 1]), float.fromhex(mk[i + 2])]
        tl = [l for l in replay_script if l.startswith("trans")]
        if tl:
            t = tl[0].split()
            ia, ib = t.index("a:"), t.index("b:")
            sp["trans"] = ([float.fromhex(v) for v in t[ia + 1:ib]], [float.fromhex(v) for v in t[ib + 1:]])
        specs[cid] = sp
    else:
        for cid, spec, ls in corpus:
            specs[cid], scripts[cid] = spec, ls
        for i in range(n):
            cid = "Q%d" % i
            specs[cid], scripts[cid] = gen_case(r, cid, tier)
    lines = [l for cid in scripts for l in scripts[cid]]
    rc, cases, so, se = gl.run_scripts(drv, lines, wd, "hist", timeout=1500, case_timeout=30)
    if rc != 0:
        res.violation("tsgdrv-crash", "tsgdrv exited with %d: %s" % (rc, se[-400:]), {"kind": "impl-counterexample", "script": lines[-40:]})
    stats = {"grids": 0, "monomials": 0, "violations": 0, "max_err": {}, "skipped": 0}
    fam_count, nontrivial, rules_seen = {}, 0, {}
    for cid, steps in cases.items():
        spec, script = specs[cid], scripts[cid]
        fam, d = spec["family"], spec["dims"]
        replay = {"kind": "impl-counterexample", "script": script}
        obs = {}
        bad = False
        for st in steps:
            if st.exc is not None:
                if st.exc[0] == "hang":      # running time / termination is not part of this statement (C08's clause): counted, the case ends
                    stats["slow_calls_skipped"] = stats.get("slow_calls_skipped", 0) + 1
                elif st.exc[0] in ("hang",) or st.exc[0].startswith("crash"):
                    res.violation("no-return:" + st.cmd.split()[0], "%s -> %s [%s]" % (st.cmd, st.exc, script[1]), replay)
                bad = True
                break
            obs.update(st.obs)
        if bad or "qw" not in obs or "allpoints" not in obs:
            stats["skipped"] += 1
            continue
        pts, w = obs["allpoints"], obs["qw"]
        npt = len(w)
        if npt == 0 or len(pts) != npt * d:
            continue
        fam_count[fam] = fam_count.get(fam, 0) + 1
        stats["grids"] += 1
        rule = spec.get("rule", "fourier")
        rules_seen[rule] = rules_seen.get(rule, 0) + 1
        trans = spec.get("trans")
        al, be = (spec.get("ab") or [0.0, 0.0])[:2] if spec.get("ab") else (0.0, 0.0)
        # canonical coordinates and the Jacobian factor of the (uniform weight) transform
        if trans:
            a, b = trans
            if fam == "fourier":
                xc = [[(pts[i * d + j] - a[j]) / (b[j] - a[j]) for j in range(d)] for i in range(npt)]
                jac = math.prod(b[j] - a[j] for j in range(d))
            elif rule.startswith("gauss-laguerre"):
                # y = x / b + a ; weight (y-a)^alpha exp(-b (y-a)) : change of variables constant b^-(1+alpha)
                xc = [[(pts[i * d + j] - a[j]) * b[j] for j in range(d)] for i in range(npt)]
                jac = math.prod(b[j] ** (-(1.0 + al)) for j in range(d))
            elif rule.startswith("gauss-hermite"):
                # y = x / sqrt(b) + a ; weight |y-a|^alpha exp(-b (y-a)^2) : constant b^-((1+alpha)/2)
                xc = [[(pts[i * d + j] - a[j]) * math.sqrt(b[j]) for j in range(d)] for i in range(npt)]
                jac = math.prod(b[j] ** (-(1.0 + al) / 2.0) for j in range(d))
            else:
                xc = [[(2.0 * pts[i * d + j] - (a[j] + b[j])) / (b[j] - a[j]) for j in range(d)] for i in range(npt)]
                # weight (b-y)^alpha (y-a)^beta : constant ((b-a)/2)^(alpha+beta+1)
                if rule.startswith("gauss-chebyshev1"):
                    ex = 0.0
                elif rule.startswith("gauss-chebyshev2"):
                    ex = 2.0
                elif rule.startswith("gauss-gegenbauer"):
                    ex = 2.0 * al + 1.0
                elif rule.startswith("gauss-jacobi"):
                    ex = al + be + 1.0
                else:
                    ex = 1.0
                jac = math.prod(((b[j] - a[j]) / 2.0) ** ex for j in range(d))
        else:
            xc = [pts[i * d:(i + 1) * d] for i in range(npt)]
            jac = 1.0
        key_rule = rule
        if fam == "fourier":
            # every trigonometric mode attached to a grid point integrates exactly: sum_i w_i exp(2 pi i k.x_i) = jac * delta_k0
            pidx = None
            # frequencies from the point coordinates are not available: use the index set through the white-box dump is not needed,
            # the modes of the grid are k in the tensor set: test all k with |k_j| <= max frequency present = (3^l - 1)/2; use the points' count per dimension
            per_dim = [sorted(set(round(x[j] * 3 ** 8) for x in xc)) for j in range(d)]
            maxf = [max(0, (len(s) - 1) // 2) for s in per_dim]
            # only modes k whose every 1-d component is resolved by every tensor containing... (conservative: the diagonal-free set) -> test k with one non-zero component
            for j in range(d):
                for k in range(0, maxf[j] + 1):
                    re = sum(w[i] * math.cos(2 * math.pi * k * xc[i][j]) for i in range(npt))
                    im = sum(w[i] * math.sin(2 * math.pi * k * xc[i][j]) for i in range(npt))
                    exp_ = jac if k == 0 else 0.0
                    cond = sum(abs(v) for v in w)
                    e = max(abs(re - exp_), abs(im)) / max(cond, 1e-300)
                    stats["monomials"] += 1
                    stats["max_err"]["fourier"] = max(stats["max_err"].get("fourier", 0), e)
                    if e > TOL:
                        stats["violations"] += 1
                        res.violation("mode-not-integrated:fourier", "Fourier mode k=%d in dimension %d integrates to (%.3g, %.3g), expected %g [%s]" % (k, j, re, im, exp_, script[1]), replay)
                        break
                else:
                    continue
                break
        else:
            polyq = obs.get("polyq", [])
            nm = len(polyq) // d
            mons = [polyq[i * d:(i + 1) * d] for i in range(nm)]
            if nm > 400:
                mons = r.sample(mons, 400) + [[0] * d]
            wsum = sum(abs(v) for v in w)
            zero_boundary = (rule == "clenshaw-curtis-zero")
            for k in mons:
                if max(k) > 60:
                    continue
                if zero_boundary:
                    # the rule integrates functions that vanish at the boundary: a listed degree K stands for (1-x^2) x^(K-2)
                    if min(k) < 2:
                        continue
                    k = [v - 2 for v in k]
                s, cond = 0.0, 0.0
                for i in range(npt):
                    t = w[i]
                    for j in range(d):
                        if k[j]:
                            t *= xc[i][j] ** k[j]
                        if zero_boundary:
                            t *= (1.0 - xc[i][j] * xc[i][j])
                    s += t
                    cond += abs(t)
                exp_ = jac
                for j in range(d):
                    if zero_boundary:
                        exp_ *= moments.moment(rule, k[j]) - moments.moment(rule, k[j] + 2)
                    else:
                        exp_ *= moments.moment(rule, k[j], al, be)
                scale = max(cond, abs(exp_), wsum, 1e-300)
                e = abs(s - exp_) / scale
                stats["monomials"] += 1
                stats["max_err"][rule] = max(stats["max_err"].get(rule, 0), e)
                if e > TOL:
                    stats["violations"] += 1
                    key = "monomial-not-integrated:" + key_rule
                    res.violation(key, "monomial x^%s listed by getGlobalPolynomialSpace(false) integrates to %.12g, exact value %.12g (rel. error %.3g) [%s]" % (
                        k, s, exp_, e, script[1]), dict(replay, monomial=k))
                    break
        # integrate() = weights . values (all points loaded)
        vals, ig = obs.get("values"), obs.get("integ")
        if vals is not None and ig is not None and len(vals) == npt and len(ig) == 1:
            s = sum(w[i] * vals[i] for i in range(npt))
            cond = sum(abs(w[i] * vals[i]) for i in range(npt))
            e = abs(s - ig[0]) / max(cond, 1.0)
            if e > 1e-9:
                stats["violations"] += 1
                res.violation("integrate-vs-weights:" + fam, "integrate() = %.12g but weights . values = %.12g [%s]" % (ig[0], s, script[1]), replay)
        if npt >= 5:
            nontrivial += 1
    extie.report(res, ex_break)
    if proof_broken and not res.violations:
        res.violation("proof", "proof obligations of Properties_C02.v no longer check (%d/%d) %s" % (props["discharged"], props["obligations"], res.coverage["forbidden_tokens"][:2]),
                      {"kind": "proof-break", "theorems": props["theorems"], "log": props["log"][-3000:]}, no_input=True)
    res.coverage["calls_not_returning_within_the_case_limit_not_judged"] = stats.get("slow_calls_skipped", 0)
    res.coverage.update({
        "evaluations": stats["monomials"], "distinct_nontrivial": nontrivial,
        "rule": "grid = random (Global rule incl. Gauss families with alpha/beta | Sequence rule | Fourier) x dims 1-3 x all 12 depth types x anisotropic weights x limits "
                "(x linear transform for uniform-weight rules); every monomial of getGlobalPolynomialSpace(false) (at most 400 sampled per grid) is integrated with the "
                "grid's weights and compared with the closed-form moment; non-trivial = grid with at least 5 points",
        "samples": [scripts[c] for c in list(scripts)[1:4]],
        "programs": len(cases), "grids": stats["grids"], "family_distribution": fam_count, "rules_exercised": rules_seen,
        "max_relative_error_by_rule": stats["max_err"], "tolerance": TOL, "skipped_configurations_rejected_by_the_library": stats["skipped"],
        "direct_property_violations": stats["violations"],
    })
    res.assumptions = ["relative error is measured against max(sum of |terms|, |exact value|, sum of |weights|)",
                       "clenshaw-curtis-zero integrates functions vanishing at the boundary: a listed degree K >= 2 is tested as (1-x^2) x^(K-2), degrees < 2 are not tested", "closed-form moments use math.lgamma/gamma"]


def replay(path):
    import json
    rp = json.load(open(path))
    res = vlib.Result(PID, "quick", rp.get("seed", 1), LEVEL)
    if rp.get("driver") == "twdrv":
        c02weights.run(res, "quick", rp.get("seed", 1), replay_cases=rp.get("cases"))
        return res.finish()
    if rp.get("driver") == "exoticdrv":
        # the exotic / custom-tabulated stream of the recorded seed is re-run (it contains the recorded case)
        c02exotic.run(res, "quick", rp.get("seed", 1))
        return res.finish()
    run(res, "quick", rp.get("seed", 1), replay_script=rp.get("script"))
    return res.finish()
