"""C02, the Gauss rules: why n Gauss nodes are exact to degree 2n-1 (the table value getQExact = 2n-1 of the gauss-* rules).

Theorems: coq/Props/Properties_C02_gauss.v (Proofs/GaussQuadExact.v, Proofs/SparseGaussExact.v), over Qc, no axioms:
an interpolatory rule on n pairwise distinct nodes whose node polynomial omega = prod (t - x_i) is orthogonal under the moment
functional to 1, t, ..., t^(n-1) integrates every polynomial of degree <= 2n-1 exactly (c02g_gauss_quad_exact); the orthogonality is
also NECESSARY for any weights (c02g_gauss_needs_orthogonality); degree 2n is out of reach of every n-point rule when L(omega^2) <> 0
(c02g_gauss_degree_optimal); the sparse rule of such levels is exact on the space declared with m(l) = 2 n(l) - 1
(c02g_sparse_gauss_quadrature_exact).  This discharges, for Gauss rules, the premise `exact1d` of c02_combination_exact.

SCOPE: Qc, i.e. rational nodes; the algebra is field-generic but irrational Gauss nodes (Gauss-Legendre n >= 2 ...) are outside
the Coq instance.  The tie to the code is therefore numerical and on the HYPOTHESES of the theorem: for the one-dimensional Gauss
rules of the implementation (tsgdrv: 1-d Global grid of level l = the (l+1)-point rule) the node polynomial of the returned nodes
is orthogonal to the lower degrees under the closed-form moments (tools/moments.py) and the returned weights are the interpolatory
weights of the returned nodes (`weights mu nodes` of InterpQuadExact.v); the conclusion (moments up to 2n-1 reproduced) and the
sharpness (degree 2n is not) are evaluated as well.  The multi-dimensional statement on the implementation stays in props/C02.py.

Used by props/C02.py through run(res[, tier, seed]); stand-alone:  python3 props/c02gauss.py [quick|thorough] [seed]  (exit 0/1,
evidence under _build/work/C02g/, never evidence/C02.json)."""
import json
import os
import sys
import time
from fractions import Fraction

sys.path.insert(0, os.path.join(os.path.dirname(os.path.dirname(os.path.abspath(__file__))), "tools"))
import gridlib as gl  # noqa: E402
import moments  # noqa: E402
import vlib  # noqa: E402

PID = "C02"
SUB = "C02_gauss"
WORK = "C02g"
COVKEY = "gauss_theorems"

TRUSTED = [
    "Coq 8.16.1 kernel (vm_compute in the Examples only); axioms: none",
    "scope: the theorems are over Qc (rational nodes); the Gauss nodes of the implementation are irrational for n >= 2, the tie below is "
    "numerical (binary64, stated tolerances) and concerns the hypotheses of c02g_gauss_quad_exact on the implementation's nodes and weights",
    "closed-form moments tools/moments.py; C++ driver harness/tsgdrv.cpp (public API: makeGlobalGrid, getPoints, getQuadratureWeights)",
]

# (rule, alpha, beta)
GAUSS_1D = [("gauss-legendre", 0.0, 0.0), ("gauss-chebyshev1", 0.0, 0.0), ("gauss-chebyshev2", 0.0, 0.0),
            ("gauss-gegenbauer", 0.5, 0.0), ("gauss-gegenbauer", 2.0, 0.0), ("gauss-jacobi", 1.0, 0.5), ("gauss-jacobi", -0.5, 2.0),
            ("gauss-laguerre", 0.0, 0.0), ("gauss-laguerre", 1.0, 0.0), ("gauss-hermite", 0.0, 0.0), ("gauss-hermite", 2.0, 0.0)]
NAB = {"gauss-gegenbauer": 1, "gauss-jacobi": 2, "gauss-laguerre": 1, "gauss-hermite": 1}
TOL = 1e-9
TOL_ORTH = 1e-11     # clean residuals are ~1e-16 of the scale; a node moved by 1e-8 gives 1e-10 .. 1e-9


def poly_mul_linear(c, a):
    """coefficients (lowest first) of (t - a) * c(t), exact"""
    out = [Fraction(0)] * (len(c) + 1)
    for j, cj in enumerate(c):
        out[j + 1] += cj
        out[j] -= a * cj
    return out


def omega_coeffs(nodes):
    c = [Fraction(1)]
    for a in nodes:
        c = poly_mul_linear(c, a)
    return c


def lagrange_coeffs(nodes, i):
    c = [Fraction(1)]
    for j, a in enumerate(nodes):
        if j != i:
            c = [v / (nodes[i] - a) for v in poly_mul_linear(c, a)]
    return c


def L(mu, c, shift=0):
    """(value, scale) of sum_j c_j mu(shift + j); scale = sum |c_j| * |mu|-like magnitude, for relative comparison"""
    val = sum(float(cj) * mu(shift + j) for j, cj in enumerate(c))
    return val


def tie(res, cov, tier, seed):
    drv = vlib.build_driver("tsgdrv")
    wd = os.path.join(vlib.BUILD, "work", WORK)
    os.makedirs(wd, exist_ok=True)
    maxlevel = 5 if tier == "quick" else 7
    cases, lines = {}, []
    for ri, (rule, al, be) in enumerate(GAUSS_1D):
        for lev in range(0, maxlevel + 1):
            cid = "g%d_%d" % (ri, lev)
            spec = {"family": "global", "dims": 1, "outs": 1, "depth": lev, "type": "level", "rule": rule, "ll": [], "aw": []}
            if rule in NAB:
                spec["ab"] = [al, be][:max(NAB[rule], 1)] if NAB[rule] == 2 else [al]
            script = ["case " + cid, gl.make_cmd(spec), "dump g meta allpoints qw"]
            cases[cid] = (rule, al, be, lev, script)
            lines += script
    rc, parsed, so, se = gl.run_scripts(drv, lines, wd, name="gauss1d", timeout=600, case_timeout=20)
    st = {"rules_1d": 0, "orthogonality_checks": 0, "weights_compared": 0, "moments_reproduced": 0, "degree_2n_not_exact": 0,
          "skipped": 0, "max_rel_orthogonality_residual": 0.0, "max_rel_weight_difference": 0.0, "max_rel_moment_error": 0.0}
    if rc != 0:
        res.violation("gauss-driver-crash", "tsgdrv exited with %d: %s" % (rc, se[-300:]), {"kind": "impl-counterexample", "driver": "tsgdrv", "script": lines[-30:]})
    seen = set()

    def report(key, what, script):
        if key not in seen:
            seen.add(key)
            res.violation(key, what, {"kind": "impl-counterexample", "driver": "tsgdrv", "script": script})

    for cid, (rule, al, be, lev, script) in cases.items():
        obs = {}
        bad = False
        for stp in parsed.get(cid, []):
            if stp.exc is not None:
                bad = True
                break
            obs.update(stp.obs)
        if bad or "qw" not in obs or "allpoints" not in obs:
            st["skipped"] += 1
            continue
        x, w = obs["allpoints"], obs["qw"]
        n = len(w)
        if n != lev + 1 or len(x) != n or len(set(x)) != n:
            # not the plain (l+1)-point rule (a change of the growth or of the 1-d assembly): the hypotheses of the theorem are
            # evaluated on whatever nodes came back, the count is recorded
            st["unexpected_point_count"] = st.get("unexpected_point_count", 0) + 1
            if n == 0 or len(x) != n or len(set(x)) != n:
                st["skipped"] += 1
                continue
        st["rules_1d"] += 1
        mu = lambda k, rule=rule, al=al, be=be: moments.moment(rule, k, al, be)
        xs = [Fraction(v) for v in x]
        om = omega_coeffs(xs)
        tag = "%s(%g,%g) level %d" % (rule, al, be, lev)
        # (H) hypothesis of c02g_gauss_quad_exact: L (t^k omega) = 0 for k < n
        for k in range(n):
            val = sum(float(cj) * mu(k + j) for j, cj in enumerate(om))
            scale = sum(abs(float(cj)) * abs(moments.moment_abs_scale(rule, k + j, al, be)) for j, cj in enumerate(om)) or 1.0
            rel = abs(val) / scale
            st["orthogonality_checks"] += 1
            st["max_rel_orthogonality_residual"] = max(st["max_rel_orthogonality_residual"], rel)
            if rel > TOL_ORTH:
                report("gauss-nodes-not-orthogonal:" + rule,
                       "%s: the node polynomial of the returned nodes is not orthogonal to t^%d: L = %.3e (scale %.3e); nodes %s" % (tag, k, val, scale, x), script)
        # (W) the returned weights are the interpolatory weights of the returned nodes
        wscale = sum(abs(v) for v in w) or 1.0
        for i in range(n):
            lc = lagrange_coeffs(xs, i)
            wi = sum(float(cj) * mu(j) for j, cj in enumerate(lc))
            cond = sum(abs(float(cj)) * abs(moments.moment_abs_scale(rule, j, al, be)) for j, cj in enumerate(lc)) or 1.0
            rel = abs(wi - w[i]) / max(wscale, cond)
            st["weights_compared"] += 1
            st["max_rel_weight_difference"] = max(st["max_rel_weight_difference"], rel)
            if rel > TOL:
                report("gauss-weights-not-interpolatory:" + rule,
                       "%s: weight %d is %.17g, the moment of the Lagrange basis polynomial of the returned nodes is %.17g" % (tag, i, w[i], wi), script)
        # (C) conclusion: moments up to 2n-1 reproduced; (O) degree 2n is not (the defect is L(omega^2) > 0)
        for k in range(2 * n + 1):
            q = sum(w[i] * x[i] ** k for i in range(n))
            m = mu(k)
            scale = sum(abs(w[i]) * abs(x[i]) ** k for i in range(n)) + abs(moments.moment_abs_scale(rule, k, al, be))
            rel = abs(q - m) / (scale or 1.0)
            if k < 2 * n:
                st["moments_reproduced"] += 1
                st["max_rel_moment_error"] = max(st["max_rel_moment_error"], rel)
                if rel > TOL:
                    report("gauss-not-exact-below-2n:" + rule, "%s: t^%d integrates to %.17g, the moment is %.17g" % (tag, k, q, m), script)
            elif rel > 1e-7:
                st["degree_2n_not_exact"] += 1
    cov.update(st)
    cov["tie"] = ("1-d Global grids, %d (rule, alpha, beta) x levels 0..%d: orthogonality of the node polynomial of the returned nodes to t^k, k < n "
                  "(relative tolerance %g, weights and moments %g), returned weights = moments of the Lagrange basis of the returned nodes, moments k < 2n reproduced, "
                  "degree 2n observed not exact" % (len(GAUSS_1D), maxlevel, TOL_ORTH, TOL))
    if st["rules_1d"] == 0:
        res.violation("gauss-correspondence", "no one-dimensional Gauss rule could be read from the driver: " + (se or so)[-300:],
                      {"kind": "correspondence-break", "correspondence": "tsgdrv 1-d Global gauss-* grids"}, no_input=True)


def run(res, tier="quick", seed=1, with_tie=True):
    t0 = time.time()
    cov = {}
    res.coverage[COVKEY] = cov
    nv0 = len(res.violations)
    try:
        props = vlib.coq_props(SUB)
    except Exception as e:      # a missing file, a dead coqc ...
        res.violation("gauss-theorems-broken", "Properties_C02_gauss.v could not be compiled: " + str(e)[:600],
                      {"kind": "proof-break", "log": str(e)[-3000:]}, no_input=True)
        return cov
    bad_axioms = {k: v for k, v in props["assumptions"].items() if not v.startswith("Closed under the global context")}
    cov.update({"props_file": "coq/Props/Properties_C02_gauss.v", "obligations": props["obligations"], "discharged": props["discharged"],
                "theorems": props["theorems"], "print_assumptions": props["assumptions"], "trusted_base": TRUSTED,
                "checker_cmd": "cd coq && make Props/Properties_C02_gauss.vo && coqc -Q . TV Props/Properties_C02_gauss.v"})
    proof_broken = (not props["ok"]) or bool(bad_axioms) or len(props["assumptions"]) != props["obligations"] or props["obligations"] == 0
    if with_tie:
        tie(res, cov, tier, seed)
    if proof_broken and len(res.violations) == nv0:
        res.violation("gauss-theorems-broken", "proof obligations of Properties_C02_gauss.v no longer check (%d/%d) %s" %
                      (props["discharged"], props["obligations"], list(bad_axioms)[:2]),
                      {"kind": "proof-break", "theorems": props["theorems"], "log": props["log"][-3000:]}, no_input=True)
    cov["wall_s"] = round(time.time() - t0, 1)
    return cov


def main():
    tier = sys.argv[1] if len(sys.argv) > 1 and sys.argv[1] in ("quick", "thorough") else "quick"
    seed = int(sys.argv[2]) if len(sys.argv) > 2 else int(os.environ.get("VERIF_SEED", "1") or 1)
    res = vlib.Result(PID, tier, seed, "proof")
    try:
        run(res, tier, seed)
    except vlib.BuildError as e:
        res.violation("gauss-build", "build failed: " + str(e)[:1500], {"kind": "build-failure", "detail": str(e)}, no_input=True)
    wd = os.path.join(vlib.BUILD, "work", WORK)
    os.makedirs(wd, exist_ok=True)
    cov = res.coverage.get(COVKEY, {})
    with open(os.path.join(wd, "evidence-standalone.json"), "w") as fh:
        json.dump({"property_id": PID, "part": "gauss", "tier": tier, "seed": seed, "coverage": cov, "violations": len(res.violations),
                   "known": [k for k, _ in res.known_hit]}, fh, indent=1, default=str)
    for key, text in res.known_hit:
        print("KNOWN-FINDING: property=%s key=%s %s" % (PID, key, text))
    seen = set()
    for v in res.violations:
        if v["key"] in seen:
            continue
        seen.add(v["key"])
        print("DETAIL property=%s key=%s %s" % (PID, v["key"], v["what"][:400].replace("\n", " ")))
        print("VIOLATION property=%s replay=%s%s" % (PID, v["replay"], " no-failing-input-found" if v["no_input"] else ""))
    short = {k: v for k, v in cov.items() if k not in ("trusted_base", "print_assumptions", "theorems")}
    print("SUMMARY " + json.dumps(short, default=str))
    sys.stdout.flush()
    return 1 if res.violations else 0


if __name__ == "__main__":
    sys.exit(main())
