"""C06 — write() then read() restores the complete observable state of a grid.

Theorems: coq/Props/Properties_C06.v about the byte-level model coq/Model/IOFormat.v of the version-5 BINARY format
(whole grammar: framing, five families, every optional section, both kinds of construction data, custom tabulated rule):
decode (encode g ++ rest) = Some (g, rest) on well-formed files, injectivity, strict prefixes rejected.

Tie (exact): for every grid state reached by the history generator the extracted model decodes the bytes the library
wrote, re-encodes them (byte-identical, nothing left over) and every decoded field is compared with the corresponding
member of the live object (white-box dump of harness/iodrv.cpp) and with the public getters.

Direct evaluation on the implementation (independent of the model; the ASCII format is covered only here):
 (a) write -> read into a fresh grid: the digest of the full query API is bit-identical to the original's,
 (b) write(read(write g)) == write g bytewise in both formats (the digest contains the hash of both images),
 (c) the ASCII and the binary round trip restore the same digest,
 (d) stream, file-stream and filename entry points including the format auto-detection of read(filename),
 (e) the same continuation (load / refine / construction steps) applied to the original and to the restored grids
     gives equal digests and equal candidate lists."""
import concurrent.futures as cf
import glob
import os
import shutil
import struct

import gridlib as gl
import vlib

LEVEL = "proof"
PID = "C06"

TRUSTED = [
    "Coq 8.16.1 kernel (vm_compute in the Examples only; no native_compute)",
    "axioms: none (Print Assumptions: Closed under the global context for all 6 theorems)",
    "extraction: ExtrOcamlBasic only; nat/Z/positive stay Coq datatypes",
    "OCaml glue ocaml/ioformat_main.ml + common.ml (file -> byte list, printing of the decoded fields); Python comparison in props/C06.py",
    "C++ driver harness/iodrv.cpp (white-box read access to the serialised members via #define private public)",
    "modelled, not verified: writeBinary/readBinary, GridGlobal/Sequence/LocalPolynomial/Wavelet/Fourier::write<binary> and GridReaderVersion5, "
    "MultiIndexSet/StorageSet/Data2D binary I/O, DynamicConstructorDataGlobal/SimpleConstructData binary I/O, CustomTabulated binary I/O; "
    "the model reader deviates from the C++ reader only on inputs the writer never produces (negative counts: size_t wrap-around / exceptions are modelled as 0 items)",
    "sanitizers (ASan/UBSan build of the library and driver) for a subset of the cases",
    "NOT modelled: the ASCII format (token grammar, 17-digit printing, version line handling): tied only by the direct round-trip checks (a)-(e); "
    "read of older file versions; stream failure handling",
    "the theorems speak about bytes <-> serialised fields; that equal serialised fields mean equal observable behaviour (rebuilt caches: wrapper, "
    "tensor_refs, interpolation matrices, max_power, dynamic tensor point sets) is checked only by the digest comparison",
]

RULE_INT = {"none": 0, "clenshaw-curtis": 1, "clenshaw-curtis-zero": 2, "chebyshev": 3, "chebyshev-odd": 4, "gauss-legendre": 5,
            "gauss-legendre-odd": 6, "gauss-patterson": 7, "leja": 8, "leja-odd": 9, "rleja": 10, "rleja-double2": 11, "rleja-double4": 12,
            "rleja-odd": 13, "rleja-shifted": 14, "rleja-shifted-even": 15, "rleja-shifted-double": 16, "max-lebesgue": 17,
            "max-lebesgue-odd": 18, "min-lebesgue": 19, "min-lebesgue-odd": 20, "min-delta": 21, "min-delta-odd": 22, "gauss-chebyshev1": 23,
            "gauss-chebyshev1-odd": 24, "gauss-chebyshev2": 25, "gauss-chebyshev2-odd": 26, "fejer2": 27, "gauss-gegenbauer": 28,
            "gauss-gegenbauer-odd": 29, "gauss-jacobi": 30, "gauss-jacobi-odd": 31, "gauss-laguerre": 32, "gauss-laguerre-odd": 33,
            "gauss-hermite": 34, "gauss-hermite-odd": 35, "custom-tabulated": 36, "localp": 37, "localp-zero": 38, "semi-localp": 39,
            "wavelet": 40, "fourier": 41, "localp-boundary": 42}

CUSTOM_TABLE = """description: verif custom rule (Newton-Cotes 1-3-5-7, weights not dyadic)
levels: 4
1 1
3 3
5 5
7 7
2.0 0.0
0.33333333333333331 -1.0
1.3333333333333333 0.0
0.33333333333333331 1.0
0.15555555555555556 -1.0
0.71111111111111114 -0.5
0.26666666666666666 0.0
0.71111111111111114 0.5
0.15555555555555556 1.0
0.097619047619047619 -1.0
0.51428571428571423 -0.66666666666666663
0.064285714285714279 -0.33333333333333331
0.64761904761904765 0.0
0.064285714285714279 0.33333333333333331
0.51428571428571423 0.66666666666666663
0.097619047619047619 1.0
"""

NESTED_FOR_CONSTRUCTION = ["clenshaw-curtis", "fejer2", "leja", "rleja", "rleja-shifted", "max-lebesgue", "min-lebesgue", "min-delta", "rleja-odd", "leja-odd"]


# ------------------------------------------------------------------------------------------------ script generation
class Gen:
    """One history.  The script interleaves state-changing calls with observation blocks; an observation block saves the
    binary image for the model, dumps the live members, and performs the round trips through every entry point."""

    def __init__(self, r, cid, tier):
        self.r, self.cid, self.tier = r, cid, tier
        self.lines = ["case " + cid]
        self.nobs = 0
        self.obs = []          # list of dict(k, state, entry)
        self.nchange = 0
        self.classes = set()

    def x_cmd(self):
        return " x: " + " ".join(vlib.hexf(v) for v in self.xs)

    def observe(self, slot, state, entry=None, cont=None):
        """state: short description of the history class (for keys/coverage); cont: continuation commands with {s} for the slot"""
        k = self.nobs
        self.nobs += 1
        tag = "%s.%d" % (self.cid, k)
        x = self.x_cmd()
        L = self.lines
        L.append("# obs %d %s" % (k, state))
        L.append("dump %s raw api" % slot)
        L.append("savebytes %s bin %s.bin" % (slot, tag))
        L.append("write %s bin stream sb" % slot)
        L.append("write %s ascii stream sa" % slot)
        L.append("digest %s%s" % (slot, x))
        L.append("read rb bin stream sb")
        L.append("sync rb " + slot)
        L.append("digest rb" + x)
        L.append("read ra ascii stream sa")
        L.append("sync ra " + slot)
        L.append("digest ra" + x)
        if entry is None:
            entry = self.r.random() < (0.35 if self.tier == "quick" else 0.2)
        if entry:
            L.append("write %s bin file %s.fb" % (slot, tag))
            L.append("read rfb bin file %s.fb" % tag)          # read(filename): auto-detection
            L.append("digest rfb" + x)
            L.append("write %s ascii file %s.fa" % (slot, tag))
            L.append("read rfa ascii file %s.fa" % tag)        # read(filename): auto-detection
            L.append("digest rfa" + x)
            L.append("readf rsb bin %s.fb" % tag)              # read(std::ifstream&, binary)
            L.append("digest rsb" + x)
            L.append("readf rsa ascii %s.fa" % tag)
            L.append("digest rsa" + x)
            L.append("writef %s bin %s.wb" % (slot, tag))      # write(std::ofstream&, binary) then read(filename)
            L.append("read rwb bin file %s.wb" % tag)
            L.append("digest rwb" + x)
        ncont = 0
        if cont:
            # the same continuation on private copies of the original and on the restored grids
            L.append("copy co %s" % slot)
            for s in ("co", "rb", "ra"):
                for c in cont:
                    L.append(c.replace("{s}", s))
                L.append("digest %s%s" % (s, x))
            ncont = len(cont)
        L.append("# endobs")
        self.obs.append({"k": k, "state": state, "entry": entry, "cont": ncont, "slot": slot, "tag": tag, "contcmds": list(cont or []), "x": x})
        self.classes.add(state.split(":")[0])


def rand_aw(r, d, ty):
    """own copy (tools/gridlib.py is shared and changes)"""
    if "tensor" in ty:
        return []
    return [r.randint(1, 3) for _ in range(d)] + ([r.randint(0, 2) for _ in range(d)] if "curved" in ty else [])


def rand_outs(r):
    return r.choice([0, 1, 1, 1, 2, 2, 3])


def cand_cmd(r, spec, slot="{s}"):
    fam, d, o = spec["family"], spec["dims"], spec["outs"]
    ll = gl.kv("ll:", gl.rand_limits(r, d, 0.2, lo=1, hi=4))
    if fam in ("localp", "wavelet"):
        return "cand %s surp %s %s %d%s" % (slot, vlib.hexf(r.choice([0.0, 1e-3, 1e-1, 1.0])), r.choice(gl.REFINE), r.choice([-1] + list(range(o))), ll)
    ty = r.choice(["level", "iptotal", "ipcurved", "qptotal", "iphyperbolic", "tensor", "hyperbolic"])
    aw = [r.randint(1, 3) for _ in range(d)] + ([r.randint(0, 2) for _ in range(d)] if "curved" in ty else [])     # the weights are mandatory here
    return "cand %s aw %s aw: %s%s" % (slot, ty, " ".join(map(str, aw)), ll)


def refine_cmd(r, spec, slot="g"):
    """a refinement valid for the family: non-nested global rules (incl. custom tabulated) can only be updated"""
    if spec["family"] == "global" and spec["rule"] not in gl.GLOBAL_NESTED:
        return update_cmd(r, spec, slot) or "update %s 2 level" % slot
    return gl.refine_cmds(r, spec, slot)


def update_cmd(r, spec, slot="g"):
    if spec.get("rule") == "custom-tabulated":      # the table has 4 levels
        return "update %s %d %s" % (slot, r.randint(1, 3), r.choice(["level", "level", "hyperbolic", "tensor"]))
    if spec["family"] == "global" and spec["rule"] in gl.GLOBAL_NONNESTED:
        return "update %s %d %s" % (slot, r.randint(1, 3 if spec["dims"] > 1 else 5), r.choice(["level", "level", "iptotal", "qptotal", "hyperbolic"]))
    return gl.update_cmd(r, spec, slot)


def gen_case(r, cid, tier, family=None, force=None):
    g = Gen(r, cid, tier)
    fam = family or r.choice(gl.FAMILIES + ["custom"])
    if fam == "custom":
        d = r.randint(1, 3)
        spec = {"family": "global", "dims": d, "outs": rand_outs(r), "rule": "custom-tabulated", "type": r.choice(["level", "iptotal", "qptotal", "tensor", "hyperbolic"]),
                "depth": r.randint(1, 3), "ll": gl.rand_limits(r, d, 0.25, hi=2), "aw": []}
        if "tensor" in spec["type"]:
            spec["depth"] = r.randint(1, 2)
        mk = "make custom g %d %d %d %s custom.table%s" % (d, spec["outs"], spec["depth"], spec["type"], gl.kv("ll:", spec["ll"]))
    else:
        spec = gl.rand_spec(r, family=fam, max_dims=3, outs=rand_outs(r))
        if "tensor" in spec.get("type", "") and spec.get("aw"):
            spec["aw"] = []          # tensor selections scale with the weights: 3-d Fourier grids of 10^6 points
        if force == "construct" and fam == "global":
            spec["rule"] = r.choice(NESTED_FOR_CONSTRUCTION)
        mk = gl.make_cmd(spec)
    g.spec = spec
    d, outs = spec["dims"], spec["outs"]
    trans = None
    g.lines.append(mk)
    if r.random() < 0.3:
        trans = gl.rand_transform(r, spec)
        g.lines.append(gl.trans_cmd(trans))
    conformal = False
    if r.random() < 0.2 and force != "construct" and spec["family"] != "fourier" and not spec.get("rule", "").startswith(("gauss-laguerre", "gauss-hermite")):
        # (never together with a construction phase: loadConstructedPoints() inverts the conformal map by a Newton iteration without an
        #  iteration bound, which does not return for some candidate points; that is a matter of the transforms, not of the file format)
        g.lines.append("conformal g " + " ".join(str(r.choice([0, 1, 2, 4, 6])) for _ in range(d)))
        conformal = True
    g.xs = gl.rand_points(r, spec, 3, trans)
    loaded, needed, constructing, refined = (outs == 0), (outs > 0), False, False
    random_coefs = False
    removed = False
    nested = (spec["family"] != "global" or spec["rule"] in gl.GLOBAL_NESTED) and not conformal      # 'nested' gates beginConstruction
    iscustom = spec.get("rule") == "custom-tabulated"     # updateGrid() of a custom-rule grid without loaded values re-reads the rule from a null file name
    fns = ["hash", "hash", "poly", "smooth", "affine"]

    def cont_for_state():
        """a continuation valid for the current state"""
        if constructing:
            c = [cand_cmd(r, spec)]
            idx = sorted(r.sample(range(12), r.randint(1, 4)), reverse=r.random() < 0.5)
            c.append("deliver {s} %s idx: %s" % (r.choice(fns), " ".join(map(str, idx))))
            if r.random() < 0.5:
                c.append(cand_cmd(r, spec))
            if r.random() < 0.4:
                c.append("finish {s}")
            return c
        if outs == 0:
            return ["update {s} %d level" % r.randint(1, 3)] if spec["family"] in ("sequence", "fourier") or (spec["family"] == "global" and nested and not iscustom) else None
        if needed:
            c = ["load {s} " + r.choice(fns)]
            if r.random() < 0.6:
                c.append(refine_cmd(r, spec, "{s}"))
            return c
        if loaded:
            c = [refine_cmd(r, spec, "{s}")] if not (random_coefs and spec["family"] in ("global", "sequence", "fourier")) else ["load {s} hash"]
            if r.random() < 0.6:
                c.append("load {s} " + r.choice(fns))
            if r.random() < 0.3 and nested:
                c = ["begin {s}", cand_cmd(r, spec), "deliver {s} hash idx: 2 0 1"]
            return c
        return None

    def st():
        base = "constructing" if constructing else ("zero-outputs" if outs == 0 else ("loaded+needed" if (loaded and needed) else ("loaded" if loaded else "needed-only")))
        return "%s:%s" % (base, spec["family"])

    if r.random() < 0.5:
        g.observe("g", "fresh-" + st(), cont=cont_for_state() if r.random() < 0.7 else None)
    nops = r.randint(1, 5 if tier == "quick" else 7)
    if force == "construct":
        nops = max(nops, 3)
    for op in range(nops):
        k = r.random()
        did = None
        if constructing:
            if k < 0.35:
                g.lines.append(cand_cmd(r, spec, "g"))
                did = "cand"
            elif k < 0.85:
                # deliver some candidates, often out of order / from the far end of the list so that samples get parked
                n = r.randint(1, 6)
                hi = r.choice([6, 12, 30, 60])
                idx = [r.randrange(hi) for _ in range(n)]
                if r.random() < 0.5:
                    idx = sorted(set(idx), reverse=True)
                if r.random() < 0.3:
                    idx = idx[:1]                                   # single-point entry of loadConstructedPoints
                g.lines.append("deliver g %s idx: %s" % (r.choice(fns), " ".join(map(str, idx))))
                did = "deliver"
                loaded = True
            else:
                g.lines.append("finish g")
                constructing, did = False, "finish"
                needed = False
        elif outs == 0:
            if k < 0.5:
                u = update_cmd(r, spec) if not iscustom else None
                if u:
                    g.lines.append(u)
                    did = "update"
            elif k < 0.7 and spec["family"] != "global":
                g.lines.append("copy g2 g")
                g.lines.append("assign g g2")
                did = "copy"
        else:
            if needed and (k < 0.5 or not loaded):
                if k < 0.1 and not loaded and (nested) and force != "noconstruct":
                    g.lines.append("begin g")
                    g.lines.append(cand_cmd(r, spec, "g"))
                    constructing, did = True, "begin"
                else:
                    g.lines.append("load g " + r.choice(fns))
                    loaded, needed, did = True, False, "load"
            elif loaded:
                if k < 0.45 or force == "construct" and op == 0:
                    if (force == "construct" or k < 0.12) and nested:
                        g.lines.append("begin g")
                        g.lines.append(cand_cmd(r, spec, "g"))
                        constructing, needed, did = True, False, "begin"
                    elif random_coefs and spec["family"] in ("global", "sequence", "fourier"):
                        # anisotropic refinement driven by arbitrary coefficients can select 10^6 points: reload the values first
                        g.lines.append("load g " + r.choice(fns))
                        random_coefs, did = False, "load"
                    else:
                        g.lines.append(refine_cmd(r, spec))
                        needed, refined, did = True, True, "refine"
                elif k < 0.55:
                    u = update_cmd(r, spec)
                    if u:
                        g.lines.append(u)
                        needed, did = True, "update"
                elif k < 0.63:
                    g.lines.append("merge g")
                    needed, did = False, "merge"
                elif k < 0.70:
                    g.lines.append("clearref g")
                    needed, did = False, "clearref"
                elif k < 0.76 and spec["family"] == "localp":
                    # (removePointsByHierarchicalCoefficient(n) reads past its arrays when n exceeds the number of points: only once, small n)
                    # (the count overload reads past its arrays when the count exceeds the number of points and corrupts the heap:
                    #  it is used only in the hand-made case cLocalRemove with a safe count)
                    g.lines.append("remtol g %s %d" % (vlib.hexf(r.choice([1e-2, 1e-1, 1.0])), r.choice([-1, 0])))
                    needed, did, removed = False, "remove", True
                elif k < 0.82:
                    g.lines.append("setcoef g " + r.choice(fns))
                    did = "setcoef"
                    random_coefs = True
                elif k < 0.92:
                    how = r.choice(["copy", "assign", "cctor", "sub"])
                    if how == "sub" and outs >= 2:
                        b = r.randrange(outs - 1)
                        e = r.randint(b + 1, outs)
                        g.lines.append("copy g2 g %d %d" % (b, e))
                        g.lines.append("assign g g2")
                        outs = e - b
                        spec = dict(spec, outs=outs)
                        g.spec = spec
                    elif how == "cctor":
                        g.lines.append("cctor g2 g")
                        g.lines.append("assign g g2")
                    else:
                        g.lines.append("copy g2 g")
                        g.lines.append("assign g g2")
                    did = "copy"
                else:
                    g.lines.append(r.choice(["cleartrans g", "clearconformal g", "clearlimits g", gl.trans_cmd(gl.rand_transform(r, spec))]))
                    if g.lines[-1].startswith(("trans", "cleartrans")):
                        g.xs = gl.rand_points(r, spec, 3, None)
                    did = "meta"
        if did:
            g.nchange += 1
            last = (op == nops - 1)
            if last or r.random() < 0.4:
                g.observe("g", "after-%s-%s" % (did, st()), cont=cont_for_state() if r.random() < 0.6 else None)
    if not g.obs:
        g.observe("g", "final-" + st(), cont=cont_for_state())
    return g


def corpus_cases(r, tier):
    """hand-made histories: the history-dependent sections, one per case"""
    out = []

    def mk(cid, lines, spec, xs, obs):
        g = Gen(r, cid, tier)
        g.spec, g.xs = spec, xs
        for l in lines:
            if isinstance(l, tuple):
                g.observe(l[0], l[1], entry=True, cont=l[2] if len(l) > 2 else None)
            else:
                g.lines.append(l)
        g.nchange = 3
        out.append(g)

    sp = lambda fam, d, o, **kw: dict({"family": fam, "dims": d, "outs": o}, **kw)
    x2 = [0.25, -0.5, 0.0, 0.75, -0.125, 0.3]
    x1 = [0.25, -0.5, 0.7]
    mk("cEmpty", [("e", "empty:empty")], sp("empty", 0, 0), [], None)
    mk("cEmptyAfter", ["make localp e 2 1 2 1 localp", "load e hash", "write e bin stream s0", "remtol e 0x1p+20 -1", ("e", "emptied:empty")], sp("empty", 0, 0), [], None)
    mk("cLocalAll", ["make localp g 2 2 3 2 localp-boundary ll: 4 3", "trans g a: -1 0 b: 3 0.5", "conformal g 4 2", ("g", "needed-only:localp", ["load {s} hash"]),
                     "load g hash", ("g", "loaded:localp", ["refsurp {s} 0x1p-4 fds -1", "load {s} poly"]),
                     "refsurp g 0x1p-4 classic -1", ("g", "loaded+needed:localp", ["load {s} poly", "refsurp {s} 0x1p-6 parents 0"]),
                     "clearconformal g", "begin g", "cand g surp 0x1p-6 classic -1", "deliver g hash idx: 9 3 7", ("g", "constructing:localp", ["cand {s} surp 0x1p-6 classic -1", "deliver {s} hash idx: 0 1 2 3", "finish {s}"]),
                     "finish g", ("g", "after-finish:localp", ["refsurp {s} 0x1p-3 stable 1"])],
       sp("localp", 2, 2, rule="localp-boundary", order=2), [-0.5, 0.1, 2.5, 0.4, 1.0, 0.25], None)
    mk("cLocalRemove", ["make localp g 2 2 3 1 localp", "load g smooth", "remcount g 9 -1", ("g", "after-remove:localp", ["refsurp {s} 0x1p-5 classic -1", "load {s} smooth"]),
                        "remtol g 0x1p-3 0", ("g", "after-remove:localp", ["refsurp {s} 0x1p-5 fds 0"])], sp("localp", 2, 2, rule="localp", order=1), x2, None)
    mk("cLocalZero", ["make localp g 2 0 2 1 localp", ("g", "zero-outputs:localp"), "make localp g 1 0 3 0 localp", ("g", "zero-outputs:localp")], sp("localp", 2, 0), [], None)
    mk("cLocalParked", ["make localp g 2 1 1 1 localp", "begin g", "cand g surp 0x0p+0 classic -1", "deliver g hash idx: 4", ("g", "constructing:localp", ["cand {s} surp 0x0p+0 classic -1", "deliver {s} hash idx: 0 1 2"]),
                        "deliverx g hash x: 0.5 0.5", "deliverx g hash x: -0.75 0.25", ("g", "constructing:localp", ["deliverx {s} hash x: 0 0", "deliverx {s} hash x: 0.5 0 -0.5 0 0 0.5 0 -0.5", "finish {s}"])],
       sp("localp", 2, 1, rule="localp", order=1), x2, None)
    mk("cSeqAll", ["make sequence g 2 2 3 level leja ll: 4 4", "trans g a: 0 0 b: 1 2", ("g", "needed-only:sequence", ["load {s} hash"]), "load g smooth",
                   "refaniso g iptotal 3 -1", ("g", "loaded+needed:sequence", ["load {s} smooth"]), "merge g", ("g", "after-merge:sequence", ["refsimple {s} 0x1p-10 0"]),
                   "load g smooth", "begin g", "cand g aw level aw: 1 1", "deliver g smooth idx: 5 2", ("g", "constructing:sequence", ["cand {s} aw level aw: 1 2", "deliver {s} smooth idx: 0 1 2 3"])],
       sp("sequence", 2, 2, rule="leja"), [0.25, 0.5, 0.75, 1.5, 0.1, 0.1], None)
    mk("cGlobalAll", ["make global g 2 2 2 level clenshaw-curtis ll: 3 3", ("g", "needed-only:global"), "load g smooth", ("g", "loaded:global", ["update {s} 3 level", "load {s} smooth"]),
                      "update g 3 iptotal", ("g", "loaded+needed:global", ["load {s} poly"]), "refaniso g iptotal 4 0", ("g", "loaded+needed:global", ["load {s} poly"]),
                      "make global g 2 1 4 iptotal gauss-jacobi ab: 0x1p-1 0x1p+0", "load g poly", ("g", "loaded:global"),
                      # rule parameters that need all 17 significant digits in the ASCII header (1/3 and sqrt(2)/3)
                      "make global g 2 1 3 iptotal gauss-jacobi ab: 0x1.5555555555555p-2 0x1.e2b7dddfefa66p-2", "load g poly", ("g", "loaded:global"),
                      "make global g 1 1 4 level gauss-gegenbauer ab: 0x1.e2b7dddfefa66p-2 0x0p+0", "load g poly", ("g", "loaded:global"),
                      "make global g 2 1 2 level leja", "load g poly", "begin g", "cand g aw level aw: 1 1", "deliver g poly idx: 4 1", ("g", "constructing:global", ["cand {s} aw iptotal aw: 1 1", "deliver {s} poly idx: 0 1 2"])],
       sp("global", 2, 1, rule="leja"), x2, None)
    mk("cCustom", ["make custom g 2 1 2 level custom.table", ("g", "needed-only:global", ["load {s} poly"]), "load g poly", ("g", "loaded:global", ["update {s} 3 level", "load {s} poly"]),
                   "make custom g 1 0 3 level custom.table", ("g", "zero-outputs:global")], sp("global", 2, 1, rule="custom-tabulated"), x2, None)
    mk("cWaveAll", ["make wavelet g 2 1 1 1", "load g hash", "refsurp g 0x1p-2 classic 0", ("g", "loaded+needed:wavelet", ["load {s} hash"]), "load g hash", "begin g",
                    "cand g surp 0x1p-2 classic -1", "deliver g hash idx: 6 2", ("g", "constructing:wavelet", ["cand {s} surp 0x1p-2 classic -1", "deliver {s} hash idx: 0 1"]),
                    "make wavelet g 1 2 2 3", ("g", "needed-only:wavelet", ["load {s} smooth"])], sp("wavelet", 2, 1), x2, None)
    mk("cFourierAll", ["make fourier g 2 2 2 level", "load g cosk", ("g", "loaded:fourier", ["update {s} 3 level", "load {s} cosk"]), "update g 3 level", ("g", "loaded+needed:fourier", ["load {s} cosk"]),
                       "load g cosk", "begin g", "cand g aw level aw: 1 1", "deliver g cosk idx: 7 3 1", ("g", "constructing:fourier", ["cand {s} aw level aw: 1 1", "deliver {s} cosk idx: 0 1 2 3"])],
       sp("fourier", 2, 2), [0.25, 0.5, 0.75, 0.1, 0.0, 0.3], None)
    # minimised witnesses / regression inputs of corpus/C06 (always first in the stream of cases)
    wit = []
    for f in sorted(glob.glob(os.path.join(vlib.ROOT, "corpus", PID, "*.json"))):
        import json
        w = json.load(open(f))
        out_before = len(out)
        mk(w["name"], [tuple(l) if isinstance(l, list) else l for l in w["lines"]], sp(w["family"], len(w["x"]) // 2 if w["x"] else 0, 1, rule=w.get("rule", "")), w["x"], None)
        wit.append(out.pop(out_before))
    return wit + out


# ------------------------------------------------------------------------------------------------ output parsing
class Step:
    __slots__ = ("cmd", "raw", "api", "dg", "dv", "cand", "exc", "written", "same")

    def __init__(self, cmd):
        self.cmd, self.raw, self.api, self.dg, self.cand, self.exc, self.written, self.same = cmd, None, None, None, None, None, None, None
        self.dv = None


def parse_output(text):
    cases, cur, step = {}, None, None
    for line in text.split("\n"):
        if not line:
            continue
        if line.startswith("case "):
            cur = []
            cases[line[5:].strip()] = cur
            step = None
        elif line.startswith("c ") and cur is not None:
            step = Step(line[2:])
            cur.append(step)
        elif line.startswith("x ") and cur is not None:
            t = line.split(None, 2)
            if step is None:
                step = Step("?")
                cur.append(step)
            step.exc = (t[1], t[2] if len(t) > 2 else "")
        elif step is None:
            continue
        elif line.startswith("r "):
            t = line[2:].split(" ", 1)
            if step.raw is None:
                step.raw = {}
            step.raw[t[0]] = (t[1] if len(t) > 1 else "").strip()
        elif line.startswith("w "):          # white-box facts that are not serialised (input class of findings only)
            t = line[2:].split()
            if step.raw is None:
                step.raw = {}
            step.raw["_" + t[0]] = t[1]
        elif line.startswith("a "):
            t = line[2:].split(" ", 1)
            if step.api is None:
                step.api = {}
            step.api[t[0]] = (t[1] if len(t) > 1 else "").strip()
        elif line.startswith("o dg "):
            step.dg = dict(x.split("=", 1) for x in line[5:].split())
        elif line.startswith("o dv "):
            t = line.split()
            if step.dv is None:
                step.dv = {}
            step.dv[t[2]] = [gl.fl(v) for v in t[4:]]
        elif line.startswith("o cand "):
            step.cand = line[7:]
        elif line.startswith("o written "):
            step.written = line[10:]
        elif line.startswith("o same "):
            step.same = line[7:].strip()
    return cases


def parse_model(text):
    """-> dict tag -> dict(status=[lines], fields={tag: value})"""
    out, cur, pending = {}, None, {}
    # the runner prints the fields after the status lines of each case
    for line in text.split("\n"):
        if line.startswith("case "):
            cur = {"status": [], "fields": {}}
            out[line[5:].strip()] = cur
        elif cur is None:
            continue
        elif line.startswith("r "):
            t = line[2:].split(" ", 1)
            cur["fields"][t[0]] = (t[1] if len(t) > 1 else "").strip()
        elif line.startswith(("ok ", "MISMATCH ")):
            cur["status"].append(line)
    return out


def run_driver_parallel(drv, gens, wd, timeout, case_timeout=15, env=None):
    """split the cases over the cores; every process gets its own script file, all share the work directory"""
    n = max(1, min(vlib.NCPU, len(gens)))
    chunks = [gens[i::n] for i in range(n)]

    def one(i):
        sp = os.path.join(wd, "script%d.txt" % i)
        with open(sp, "w") as fh:
            for g in chunks[i]:
                fh.write("\n".join(g.lines) + "\n")
        rc, so, se = vlib.run([drv, sp, wd, str(case_timeout)], timeout=timeout, env=env)
        with open(os.path.join(wd, "script%d.out" % i), "w") as fh:
            fh.write(so)
        return rc, so, se
    cases, rcs = {}, []
    with cf.ThreadPoolExecutor(n) as ex:
        for rc, so, se in ex.map(one, range(n)):
            rcs.append((rc, se[-300:]))
            cases.update(parse_output(so))
    return rcs, cases


# ------------------------------------------------------------------------------------------------ evaluation
API_FROM_FIELDS = ["type", "dims", "outs"]


def check_api_vs_fields(fields, api):
    """compare the decoded fields with the PUBLIC getters of the live object; returns list of (what, decoded, getter)"""
    bad = []

    def cmp(what, a, b):
        if a != b:
            bad.append((what, a[:120], b[:120]))
    ty = fields.get("type", "?")
    cmp("type", ty, api.get("type", "?"))
    if ty == "empty":
        return bad
    cmp("dims", fields.get("dims"), api.get("dims"))
    cmp("outs", fields.get("outs"), api.get("outs"))
    outs, d = int(fields["outs"]), int(fields["dims"])
    if ty in ("global", "sequence", "localp"):
        cmp("rule", fields.get("rule"), api.get("rule"))
    if ty == "wavelet":
        cmp("rule", "40", api.get("rule"))
    if ty == "fourier":
        cmp("rule", "41", api.get("rule"))
    if ty in ("localp", "wavelet"):
        cmp("order", fields.get("order"), api.get("order"))
    if ty == "global":
        cmp("alpha", fields.get("alpha"), api.get("alpha"))
        cmp("beta", fields.get("beta"), api.get("beta"))

    def ms(tag):
        v = fields.get(tag, "none")
        if v == "none":
            return 0, ""
        head, idx = v.split(":", 1)
        return int(head.split()[1]), idx.strip()
    npnt, pidx = ms("points")
    nnee, nidx = ms("needed")
    cmp("num-loaded", str(npnt if outs > 0 else 0), api.get("loaded"))       # getNumLoaded() is 0 by definition when there are no outputs
    cmp("num-needed", str(nnee), api.get("needed"))
    cmp("points-indexes", pidx if npnt > 0 else nidx, api.get("pidx", ""))     # getPointsIndexes(): loaded, or needed when nothing is loaded
    if ty == "localp" and nnee > 0:
        cmp("needed-indexes", nidx, api.get("nidx", ""))
    vals = fields.get("values", "absent")
    if vals == "absent":
        cmp("values", "", api.get("values", ""))
    else:
        v = vals.split(":", 1)[1].strip()
        cmp("values", "" if v == "none" else v, api.get("values", ""))
    if ty != "global" and outs > 0 and npnt > 0:
        c = fields.get("coef", "none")
        cmp("coefficients", "" if c in ("none", "absent") else c, api.get("coef", ""))
    if "ta" in fields:
        cmp("transform-a", fields["ta"], api.get("ta", "none"))
        cmp("transform-b", fields["tb"], api.get("tb", "none"))
    else:
        cmp("transform", "none", api.get("transform", "set"))
    cmp("conformal", fields.get("conformal"), api.get("conformal"))
    lim = fields.get("limits")
    cmp("limits", "" if lim == "none" else lim, api.get("limits"))
    cmp("construction-flag", fields.get("constr"), api.get("constr"))
    if "custom.desc" in fields:
        cmp("custom-description", fields["custom.desc"], " ".join(str(b) for b in api.get("customdesc", "").encode()))
    return bad


MAX_MODEL_BYTES = 400000
DERIVED = {"qw", "iw", "eval", "evalb", "integ", "diff", "hbasis", "hsupport"}
TOL = 1e-9


def close_vec(a, b):
    if len(a) != len(b):
        return False
    scale = max([1.0] + [abs(v) for v in a + b if v == v and abs(v) != float("inf")])
    for u, v in zip(a, b):
        if u != u and v != v:
            continue
        if u == v:
            continue
        if not abs(u - v) <= TOL * scale:
            return False
    return True


def trigger_of(raw, default):
    """input class of a grid state, from the members of the live object"""
    if not raw:
        return default
    if "updated.active" in raw and raw["updated.active"].split(":")[0].split()[1] == "0":
        return "updated-tensors-without-active"
    try:
        if raw.get("type") == "fourier" and raw.get("coef", "none") not in ("none", "absent") and raw.get("points", "none") != "none":
            if len(raw["coef"].split()) != 2 * int(raw["outs"]) * int(raw["points"].split()[1]):
                return "fourier-coefficients-of-another-point-set"
    except (ValueError, IndexError):
        pass
    if raw.get("outs") == "0":
        return "zero-outputs"
    if raw.get("constr") == "1":
        return "constructing-with-complete-tensor-waiting" if raw.get("_complete_tensors", "0") != "0" else "constructing"
    return default


def rerun_hang(g, cmd, stats, what="hang"):
    """a time-out is a hang only if the command still does not return with ten times the budget (case run alone);
    a crash is reported only if it happens again, in the same command, when the case runs alone"""
    drv, wd = vlib.build_driver("iodrv", stats.get("variant", "plain")), stats["wd"]      # (re-resolved: the build cache may have been pruned meanwhile)
    os.makedirs(wd, exist_ok=True)
    sp = os.path.join(wd, "hang_%s.txt" % g.cid)
    with open(sp, "w") as fh:
        fh.write("\n".join(g.lines) + "\n")
    rc, so, se = vlib.run([drv, sp, wd, "150"], timeout=400)
    steps = parse_output(so).get(g.cid, [])
    if what == "crash":
        return any(t.exc and t.exc[0].startswith("crash") and t.cmd.split()[:2] == cmd.split()[:2] for t in steps)
    return any(t.exc and t.exc[0] == "hang" and t.cmd.split()[:2] == cmd.split()[:2] for t in steps)    # the SAME call must fail to return


def evaluate(res, gens, cases, model, stats, fam_of):
    for g in gens:
        steps = cases.get(g.cid)
        fam = g.spec["family"]
        replay = {"kind": "impl-counterexample", "script": g.lines}
        if steps is None:
            res.violation("driver-no-output", "no output for case %s" % g.cid, replay)
            continue

        # a history call that threw may have left the object half-updated (that is C14's matter: misuse must not corrupt);
        # failures observed after such a call are counted, not reported
        hist_exc = {"i": None}

        def viol(key, what, at=None):
            if hist_exc["i"] is not None and (at is None or at > hist_exc["i"]):
                stats["failures_after_a_rejected_history_call"] += 1
                stats["failures_after_a_rejected_history_call_examples"].setdefault(key, [g.lines[1], hist_exc["cmd"], what[:200]])
                return
            stats["violations"] += 1
            res.violation(key, "%s [case %s: %s]" % (what, g.cid, g.lines[1]), dict(replay, detail=what))
        for ii, t in enumerate(steps):
            cc = t.cmd.split()
            if t.exc is not None and t.exc[0] in ("invalid_argument", "runtime_error") and len(cc) > 1 and cc[1] == "g" and \
                    cc[0] not in ("deliver", "deliverx", "cand", "read", "readf", "write", "writef", "digest", "dump", "savebytes"):
                hist_exc["i"], hist_exc["cmd"] = ii, t.cmd + " -> " + t.exc[1][:120]
                break
        crash = [s for s in steps if s.exc and (s.exc[0].startswith("crash") or s.exc[0] == "hang")]
        if crash:
            # the child died in the last echoed command: a failure inside an I/O call, or on a restored grid, is a C06 matter;
            # a failure of a history call / a query on the ORIGINAL grid is not (counted, the observations before it are still judged)
            s = crash[0]
            c = s.cmd.split()
            io = c[0] in ("write", "writef", "savebytes", "read", "readf")
            restored = len(c) > 1 and c[1] in ("rb", "ra", "rfb", "rfa", "rsb", "rsa", "rwb")
            kind = "hang" if s.exc[0] == "hang" else "crash"
            lastraw = [t.raw for t in steps if t.raw is not None]
            trig = trigger_of(lastraw[-1] if lastraw else {}, "?")
            if kind == "hang" and stats.get("variant") == "asan":
                # the sanitizer build is ~10x slower: time-outs are judged by the plain pass only
                stats["library_failures_outside_io"]["timeout-under-sanitizer"] = stats["library_failures_outside_io"].get("timeout-under-sanitizer", 0) + 1
            elif kind == "hang" and (io or restored) and not rerun_hang(g, s.cmd, stats):
                stats["slow_cases_not_hanging_with_10x_budget"] += 1
            elif kind == "crash" and (io or restored) and (c[0], fam, trig) not in stats["confirmed_crash_classes"] and not rerun_hang(g, s.cmd, stats, what="crash"):
                # not reproducible when the case runs alone: memory corrupted by an earlier call (e.g. an out-of-bounds write of a history call)
                stats["crashes_not_reproducible_alone"] += 1
            elif io:
                stats["confirmed_crash_classes"].add((c[0], fam, trig))
                viol("%s-in-%s:%s:%s:%s" % (kind, "read" if c[0].startswith("read") else "write", c[2] if len(c) > 2 else "?", fam, trig),
                     "%s (%s) inside '%s' (grid state: %s)" % (kind, s.exc[0], s.cmd, trig), at=steps.index(s))
            elif restored:
                viol("%s-on-restored:%s:%s:%s" % (kind, c[0], fam, trig), "%s (%s) in '%s' on a restored grid; the same call on the original returned" % (kind, s.exc[0], s.cmd), at=steps.index(s))
            else:
                stats["library_failures_outside_io"][kind + ":" + c[0]] = stats["library_failures_outside_io"].get(kind + ":" + c[0], 0) + 1
                stats["library_failure_examples"].setdefault(kind + ":" + c[0], [g.lines[1]] + [t.cmd for t in steps[-3:]])
        # split into observation blocks: the comment lines are not echoed, so use the savebytes commands as anchors
        i = 0
        obs_i = 0
        while i < len(steps):
            s = steps[i]
            if not s.cmd.startswith("savebytes "):
                i += 1
                continue
            if obs_i >= len(g.obs):
                break
            ob = g.obs[obs_i]
            obs_i += 1
            slot = ob["slot"]
            live = steps[i - 1] if i > 0 else None
            state = ob["state"]
            cls = state.split(":")[0].replace("fresh-", "").replace("final-", "")
            stats["observations"] += 1
            stats["states"][state.split(":")[0]] = stats["states"].get(state.split(":")[0], 0) + 1
            # ---- tie: model decode / re-encode / fields
            m = model.get(ob["tag"]) if model is not None else None
            if model is None:
                pass
            elif m is None:
                if ob["tag"] in stats["too_large"]:
                    stats["model_skipped_large"] += 1
                else:
                    stats["model_missing"] += 1
            else:
                bad = [l for l in m["status"] if l.startswith("MISMATCH")]
                if bad:
                    viol("model-%s:%s:%s" % (bad[0].split()[2].rstrip(":"), fam, trigger_of(live.raw if live else None, cls)), "the binary image does not follow the proved grammar: " + bad[0][:300], at=i)
                    stats["model_mismatch"] += 1
                elif live is not None and live.raw is not None:
                    f, rw = m["fields"], {k: v for k, v in live.raw.items() if not k.startswith("_")}
                    diff = [t for t in sorted(set(f) | set(rw)) if f.get(t) != rw.get(t)]
                    if diff:
                        t = diff[0]
                        viol("field:%s:%s" % (fam, t), "decoded field %s = %s but the live object has %s (state %s)" % (t, str(f.get(t))[:100], str(rw.get(t))[:100], state), at=i)
                        stats["model_mismatch"] += 1
                    else:
                        stats["model_agree"] += 1
                        stats["fields_compared"] += len(f)
                    if live.api is not None:
                        for what, a, b in check_api_vs_fields(f, live.api):
                            viol("getter:%s:%s" % (fam, what), "decoded %s = %s but the public getter returns %s (state %s)" % (what, a, b, state), at=i)
                            stats["model_mismatch"] += 1
                        stats["getter_checks"] += 1
            # ---- direct checks
            j = i + 1
            ref = None
            labels = []
            cont_groups = {}
            cont_cands = {}
            cur_cont = None
            while j < len(steps) and not steps[j].cmd.startswith("savebytes ") and not steps[j].cmd.startswith("dump %s raw" % slot):
                t = steps[j]
                c = t.cmd.split()
                if t.exc is not None and (t.exc[0].startswith("crash") or t.exc[0] == "hang"):
                    break
                if c[0] in ("read", "readf") and t.exc is not None:
                    fmt = c[2]
                    viol("read-throws:%s:%s:%s" % (fmt, fam, trigger_of(live.raw if live else None, cls)), "%s of what the library wrote raised %s %s (state %s)" % (t.cmd, t.exc[0], t.exc[1][:150], state), at=j)
                if c[0] in ("write", "writef") and t.exc is not None:
                    viol("write-throws:%s:%s:%s" % (c[2], fam, trigger_of(live.raw if live else None, cls)), "%s raised %s %s (state %s)" % (t.cmd, t.exc[0], t.exc[1][:150], state), at=j)
                if c[0] == "digest" and t.dg is not None:
                    who = c[1]
                    if who == slot and ref is None:
                        ref = t.dg
                    elif cur_cont is not None and who in ("co", "rb", "ra"):
                        cont_groups[who] = t.dg
                    elif ref is not None:
                        stats["roundtrips"] += 1
                        route = {"rb": "bin:stream", "ra": "ascii:stream", "rfb": "bin:filename", "rfa": "ascii:filename", "rsb": "bin:fstream",
                                 "rsa": "ascii:fstream", "rwb": "bin:ofstream"}.get(who, who)
                        diff = [k for k in ref if t.dg.get(k) != ref[k]]
                        if diff and set(diff) <= DERIVED:
                            # quantities recomputed from rebuilt caches (1-D rule tables of a different maximal level ...): compare the numbers
                            stats["to_confirm"].append((g, ob, "restore"))
                            stats["derived_hash_differences"] += 1
                        elif diff:
                            k = [c for c in diff if c not in DERIVED][0]
                            kind = "rewrite" if set(diff) <= {"bin", "ascii"} else "restore"
                            viol("%s:%s:%s:%s:%s" % (kind, route.split(":")[0], fam, k, trigger_of(live.raw if live else None, cls)),
                                 "after write/read through %s the %s differs from the original (all differing categories: %s; state %s)" % (
                                     route, "re-written image" if kind == "rewrite" else "query API digest", ",".join(diff), state), at=j)
                        else:
                            stats["roundtrips_equal"] += 1
                if c[0] == "copy" and c[1] == "co":
                    cur_cont = True
                if cur_cont and c[0] == "cand" and c[1] in ("co", "rb", "ra"):
                    cont_cands.setdefault(c[1], []).append(t.cand if t.exc is None else "x:" + t.exc[0])
                if cur_cont and t.exc is not None and c[0] not in ("read", "readf"):
                    cont_cands.setdefault(c[1] if len(c) > 1 else "?", []).append("x:%s:%s" % (c[0], t.exc[0]))
                j += 1
            if ob["cont"] and "co" in cont_groups:
                stats["continuations"] += 1
                for who, fmt in (("rb", "bin"), ("ra", "ascii")):
                    if who not in cont_groups:
                        continue
                    diff = [k for k in cont_groups["co"] if cont_groups[who].get(k) != cont_groups["co"][k]]
                    if cont_cands.get(who) != cont_cands.get("co") or diff:
                        # the original side of this comparison is a copyGrid() of the original (copies are C11's matter):
                        # confirm on the original itself before reporting
                        stats["to_confirm"].append((g, ob, "continuation"))
                    else:
                        stats["continuations_equal"] += 1
            i = j


def confirm_cases(res, drv, wd, stats):
    """second look at hash differences that need numbers or the original itself:
    re-run the history up to the observation, restore through both formats, print the NUMBERS behind the derived categories
    (they are recomputed from caches the reader rebuilds, so they are compared with the tolerance TOL), and apply the
    continuation to the ORIGINAL grid itself instead of a copy of it"""
    todo, seen = [], set()
    for g, ob, why in stats["to_confirm"]:
        if (g.cid, ob["k"]) in seen:
            continue
        seen.add((g.cid, ob["k"]))
        pre, skip = [], False
        for l in g.lines[1:]:
            if l.startswith("# obs %d " % ob["k"]):
                break
            if l.startswith("# obs "):
                skip = True
            elif l.startswith("# endobs"):
                skip = False
            elif not skip:
                pre.append(l)
        slot, x = ob["slot"], ob["x"]
        cid = "%s.confirm%d" % (g.cid, ob["k"])
        L = ["case " + cid] + pre + ["dump %s raw" % slot, "write %s bin stream sb" % slot, "write %s ascii stream sa" % slot, "read rb bin stream sb", "read ra ascii stream sa",
                                     "sync rb " + slot, "sync ra " + slot, "digestv %s%s" % (slot, x), "digestv rb" + x, "digestv ra" + x, "merge zz"]   # 'merge zz' is a marker
        for sl in (slot, "rb", "ra"):
            L += [c.replace("{s}", sl) for c in ob["contcmds"]]
            L.append("digestv %s%s" % (sl, x))
        todo.append((g, ob, cid, L))
    if not todo:
        return
    drv = vlib.build_driver("iodrv")
    sp = os.path.join(wd, "confirm.txt")
    with open(sp, "w") as fh:
        for _g, _ob, _cid, L in todo:
            fh.write("\n".join(L) + "\n")
    rc, so, se = vlib.run([drv, sp, wd, "20"], timeout=1200)
    open(os.path.join(wd, "confirm.out"), "w").write(so)
    cases = parse_output(so)

    def numeric(a, b):
        """a, b: Steps of digestv; -> (exact categories that differ, derived categories beyond the tolerance, derived within)"""
        ex = [c for c in a.dg if c not in DERIVED and b.dg.get(c) != a.dg[c]]
        far, near = [], []
        for c in sorted(DERIVED):
            if a.dg.get(c) == b.dg.get(c):
                continue
            va, vb = (a.dv or {}).get(c), (b.dv or {}).get(c)
            if va is None or vb is None or not close_vec(va, vb):
                far.append(c)
            else:
                near.append(c)
        return ex, far, near
    for g, ob, cid, L in todo:
        steps = cases.get(cid, [])
        slot = ob["slot"]
        fam = g.spec["family"]
        raws = [t.raw for t in steps if t.raw is not None]
        cls = trigger_of(raws[-1] if raws else None, ob["state"].split(":")[0].replace("fresh-", "").replace("final-", ""))
        rp = {"kind": "impl-counterexample", "script": L}
        k = max([i for i, t in enumerate(steps) if t.cmd.startswith("merge zz")] + [-1])
        if k < 0:
            stats["confirm_incomplete"] += 1
            continue
        pre = {t.cmd.split()[1]: t for t in steps[:k] if t.cmd.startswith("digestv ") and t.dg is not None}
        part = {slot: [], "rb": [], "ra": []}
        for t in steps[k + 1:]:
            c = t.cmd.split()
            if len(c) > 1 and c[1] in part:
                part[c[1]].append(t)
        for who, fmt in (("rb", "bin"), ("ra", "ascii")):
            if slot not in pre or who not in pre:
                stats["confirm_incomplete"] += 1
                continue
            ex, far, near = numeric(pre[slot], pre[who])
            if ex or far:
                res.violation("restore%s:%s:%s:%s:%s" % ("" if ex else "-numeric", fmt, fam, (ex + far)[0], cls),
                              "after write/read through %s the query API differs from the original beyond rounding: %s (state %s) [case %s: %s]" % (
                                  fmt, ",".join(ex + far), ob["state"], g.cid, g.lines[1]), rp)
                stats["violations"] += 1
                continue
            if near:
                stats["rounding_level_differences"] += 1
                for c in near:
                    stats["rounding_level_categories"][c] = stats["rounding_level_categories"].get(c, 0) + 1
            if not ob["contcmds"]:
                continue
            a, b = part[slot], part[who]
            ca = [(t.cmd.split()[0], t.cand, t.exc[0] if t.exc else None) for t in a if not t.cmd.startswith("digestv")]
            cb = [(t.cmd.split()[0], t.cand, t.exc[0] if t.exc else None) for t in b if not t.cmd.startswith("digestv")]
            da = [t for t in a if t.cmd.startswith("digestv") and t.dg is not None][-1:]
            db = [t for t in b if t.cmd.startswith("digestv") and t.dg is not None][-1:]
            if not da or not db:
                if bool(da) != bool(db):
                    res.violation("continuation-fails:%s:%s:%s" % (fmt, fam, cls), "the continuation %s completes on only one of original / grid restored from %s [case %s: %s]" % (
                        ob["contcmds"], fmt, g.cid, g.lines[1]), rp)
                    stats["violations"] += 1
                continue
            ex2, far2, near2 = numeric(da[0], db[0])
            if ca == cb and not ex2 and not far2:
                stats["continuations_confirmed_equal"] += 1
                continue
            if near:
                # the restored grid already differs from the original at rounding level: a threshold decision of the continuation may flip
                stats["rounding_sensitive_continuations_skipped"] += 1
                continue
            if ca != cb:
                w = [i for i in range(min(len(ca), len(cb))) if ca[i] != cb[i]]
                cmdname = ca[w[0]][0] if w else "?"
                res.violation("continuation-calls:%s:%s:%s" % (fmt, fam, cls),
                              "the call '%s' of the continuation returns different candidates / exceptions on the original and on the grid restored from %s (state %s) [case %s: %s]" % (
                                  cmdname, fmt, ob["state"], g.cid, g.lines[1]), dict(rp, original=str(ca)[:2000], restored=str(cb)[:2000]))
            else:
                res.violation("continuation:%s:%s:%s" % (fmt, fam, cls),
                              "the same continuation %s applied to the original and to the grid restored from %s gives different %s (state %s) [case %s: %s]" % (
                                  ob["contcmds"], fmt, ",".join(ex2 + far2), ob["state"], g.cid, g.lines[1]), rp)
            stats["violations"] += 1


def run(res, tier, seed, replay_script=None):
    props = vlib.coq_props(PID)
    vlib.proof_coverage(res, PID, props, "cd coq && make Props/Properties_C06.vo && coqc -Q . TV Props/Properties_C06.v", TRUSTED)
    ok_ext, elog = vlib.coq_make(["Extract/ExtractIOFormat.vo"])
    proof_broken = (not props["ok"]) or bool(res.coverage["forbidden_tokens"])
    runner = vlib.ocaml_runner("ioformat") if ok_ext else None
    drv = vlib.build_driver("iodrv")
    wd = os.path.join(vlib.BUILD, "work", PID, "run")
    shutil.rmtree(wd, ignore_errors=True)
    os.makedirs(wd, exist_ok=True)
    open(os.path.join(wd, "custom.table"), "w").write(CUSTOM_TABLE)
    r = vlib.rng(seed, PID)

    gens = []
    if replay_script:
        g = Gen(r, "replay", tier)
        g.lines = list(replay_script)
        g.cid = [l for l in g.lines if l.startswith("case ")][0][5:].strip()
        mkl = [l for l in g.lines if l.startswith("make ")]
        fam = mkl[0].split()[1] if mkl else "empty"
        g.spec = {"family": "global" if fam == "custom" else fam}
        k = 0
        for l in g.lines:
            if l.startswith("savebytes "):
                t = l.split()
                g.obs.append({"k": k, "state": "replay:" + fam, "entry": True, "cont": 1, "slot": t[1], "tag": t[3][:-4]})
                k += 1
        gens = [g]
    else:
        gens = corpus_cases(r, tier)
        n = {"quick": 5000, "thorough": 40000}[tier] * (3 if proof_broken else 1)
        if os.environ.get("VERIF_C06_CASES"):           # aid for trying mutants quickly; not used by ./check runs that count
            n = int(os.environ["VERIF_C06_CASES"])
        for i in range(n):
            force = "construct" if i % 4 == 0 else None
            gens.append(gen_case(r, "h%d" % i, tier, force=force))
    import time
    t0 = time.time()
    rcs, cases = run_driver_parallel(drv, gens, wd, timeout={"quick": 600, "thorough": 3000}[tier])
    vlib.log("[C06] driver: %d cases in %.1fs" % (len(gens), time.time() - t0))
    t0 = time.time()
    for rc, se in rcs:
        if rc != 0:
            res.violation("iodrv-failed", "iodrv exited with %d: %s" % (rc, se), {"kind": "impl-counterexample", "script": []}, no_input=True)

    # ---- the model on every saved image
    model = {}
    too_large = set()
    mism_runner = None
    if runner:
        tags = []
        for g in gens:
            for ob in g.obs:
                p = os.path.join(wd, ob["tag"] + ".bin")
                if os.path.exists(p):
                    if os.path.getsize(p) > MAX_MODEL_BYTES:
                        too_large.add(ob["tag"])        # (a refinement that exploded: > 10^4 points; judged by the direct checks only)
                    else:
                        tags.append((ob["tag"], p))
        nchunk = max(1, min(vlib.NCPU, len(tags)))
        parts = [tags[i::nchunk] for i in range(nchunk)]

        def runm(i):
            lf = os.path.join(wd, "list%d.txt" % i)
            with open(lf, "w") as fh:
                for t, p in parts[i]:
                    fh.write("%s %s\n" % (t, p))
            return vlib.run(["bash", "-c", "ulimit -s unlimited 2>/dev/null || ulimit -s 1000000 2>/dev/null; exec \"$0\" \"$1\"", runner, lf], timeout=1500)
        with cf.ThreadPoolExecutor(nchunk) as ex:
            for rc, so, se in ex.map(runm, range(nchunk)):
                if rc != 0:
                    mism_runner = "ioformat runner failed (%d): %s" % (rc, se[-300:])
                model.update(parse_model(so))

    vlib.log("[C06] model runner: %d images in %.1fs" % (len(model), time.time() - t0))
    t0 = time.time()
    stats = {"observations": 0, "violations": 0, "model_agree": 0, "model_mismatch": 0, "model_missing": 0, "fields_compared": 0, "getter_checks": 0,
             "roundtrips": 0, "roundtrips_equal": 0, "continuations": 0, "continuations_equal": 0, "states": {},
             "library_failures_outside_io": {}, "library_failure_examples": {}, "to_confirm": [], "failures_after_a_rejected_history_call": 0, "failures_after_a_rejected_history_call_examples": {}, "drv": drv, "wd": wd, "slow_cases_not_hanging_with_10x_budget": 0, "crashes_not_reproducible_alone": 0, "confirmed_crash_classes": set(), "too_large": too_large, "model_skipped_large": 0, "derived_hash_differences": 0, "confirm_incomplete": 0, "rounding_level_differences": 0,
             "rounding_level_categories": {}, "continuations_confirmed_equal": 0, "rounding_sensitive_continuations_skipped": 0}
    evaluate(res, gens, cases, model, stats, None)
    vlib.log("[C06] evaluation in %.1fs" % (time.time() - t0))
    t0 = time.time()
    # ---- the witnesses and the first cases once more under AddressSanitizer/UBSan: a reader that leaves a cache too small shows as an
    #      out-of-bounds access on the restored grid (judged by the same rules; the model tie is not repeated)
    nas = 0 if (replay_script or os.environ.get("VERIF_C06_NOSAN")) else {"quick": 400, "thorough": 5000}[tier]
    astats = None
    if nas:
        adrv = vlib.build_driver("iodrv", "asan")
        awd = os.path.join(vlib.BUILD, "work", PID, "asan")
        shutil.rmtree(awd, ignore_errors=True)
        os.makedirs(awd, exist_ok=True)
        open(os.path.join(awd, "custom.table"), "w").write(CUSTOM_TABLE)
        env = dict(os.environ, ASAN_OPTIONS="detect_leaks=0:abort_on_error=0:exitcode=1:symbolize=0", UBSAN_OPTIONS="print_stacktrace=0:symbolize=0")
        arcs, acases = run_driver_parallel(adrv, gens[:nas], awd, timeout={"quick": 900, "thorough": 3000}[tier], case_timeout=60, env=env)
        astats = dict(stats, observations=0, roundtrips=0, roundtrips_equal=0, continuations=0, continuations_equal=0, states={}, to_confirm=[],
                      library_failures_outside_io={}, library_failure_examples={}, drv=adrv, wd=awd, variant="asan")
        evaluate(res, gens[:nas], acases, None, astats, None)
        stats["violations"] = astats["violations"]
        vlib.log("[C06] sanitizer pass: %d cases in %.1fs" % (nas, time.time() - t0))
        if not os.environ.get("VERIF_KEEP"):
            shutil.rmtree(awd, ignore_errors=True)
    t0 = time.time()
    confirm_cases(res, drv, wd, stats)
    vlib.log("[C06] confirmations: %d in %.1fs" % (len(stats["to_confirm"]), time.time() - t0))

    if (mism_runner or stats["model_missing"]) and runner and not res.violations:
        res.violation("correspondence", mism_runner or ("the model runner produced no result for %d saved images" % stats["model_missing"]),
                      {"kind": "correspondence-break", "correspondence": "IOFormat decode/encode vs library bytes"}, no_input=True)
    if proof_broken and not res.violations:
        res.violation("proof", "proof obligations of Properties_C06.v no longer check (%d/%d) %s" %
                      (props["discharged"], props["obligations"], res.coverage["forbidden_tokens"][:2]),
                      {"kind": "proof-break", "theorems": props["theorems"], "log": props["log"][-3000:]}, no_input=True)
    if not ok_ext and not res.violations:
        res.violation("extraction", "extraction of the model failed", {"kind": "proof-break", "log": elog[-2000:]}, no_input=True)

    fam_count, excs = {}, 0
    CHANGING = ("load", "refsurp", "refsimple", "refaniso", "update", "merge", "clearref", "setcoef", "remtol", "remcount", "begin", "deliver", "deliverx",
                "finish", "assign", "trans", "conformal", "cleartrans", "clearconformal", "clearlimits")
    distinct = set()
    import hashlib
    for g in gens:
        fam_count[g.spec["family"]] = fam_count.get(g.spec["family"], 0) + 1
        steps = cases.get(g.cid, [])
        ok = sum(1 for t in steps if t.exc is None and t.cmd.split()[0] in CHANGING and len(t.cmd.split()) > 1 and t.cmd.split()[1] == "g")
        hist, skip = [], False
        for l in g.lines[1:]:
            if l.startswith("# obs"):
                skip = True
            elif l.startswith("# endobs"):
                skip = False
            elif not skip:
                hist.append(l)
        if ok >= 2:      # measured: at least two state-changing calls after make returned without exception
            distinct.add(hashlib.md5("\n".join(hist).encode()).hexdigest())
    nontrivial = len(distinct)
    for steps in cases.values():
        excs += sum(1 for s in steps if s.exc is not None)
    if tier == "quick" and not os.environ.get("VERIF_KEEP"):
        for f in glob.glob(os.path.join(wd, "*.f[ab]")) + glob.glob(os.path.join(wd, "*.wb")):
            os.remove(f)
    res.coverage.update({
        "evaluations": stats["roundtrips"] + stats["observations"], "distinct_nontrivial": nontrivial,
        "rule": "history = make (random family incl. custom tabulated rule / rule / dims 1-3 / outputs 0-3 / depth / order / limits) [transform] [conformal] ; "
                "1-7 random calls among load, surplus/anisotropic refinement of every strategy, updateGrid, merge/clearRefinement, removePoints, "
                "setHierarchicalCoefficients, copies (copyGrid, sub-range, assignment, copy ctor), beginConstruction + candidates + deliveries of candidates in "
                "random order (far-end candidates first, so that samples are parked; single-point entry) + finish, transform/limit edits; an observation block after "
                "~40% of the calls and at the end; non-trivial = at least 2 state-changing calls after make that returned without exception (measured on the driver's output); distinct by the hash of the history text; "
                "11 hand-made cases first (empty grid, emptied grid, every optional section per family, parked samples, zero outputs, custom rule)",
        "samples": [g.lines[:14] for g in gens[11:13]],
        "programs": len(gens), "observations": stats["observations"], "history_classes": stats["states"],
        "traces_validated_against_impl": stats["model_agree"], "disagreements_checked": stats["model_mismatch"],
        "model_fields_compared": stats["fields_compared"], "images_skipped_larger_than_%d_bytes" % MAX_MODEL_BYTES: stats["model_skipped_large"], "public_getter_comparisons": stats["getter_checks"],
        "roundtrips_compared": stats["roundtrips"], "roundtrips_bit_identical": stats["roundtrips_equal"],
        "continuations_compared": stats["continuations"], "continuations_equal": stats["continuations_equal"],
        "continuation_hash_differences_rechecked_on_the_original_itself_equal": stats["continuations_confirmed_equal"],
        "derived_quantities_equal_within_1e-9_not_bitwise": stats["rounding_level_differences"], "derived_categories_at_rounding_level": stats["rounding_level_categories"],
        "continuations_skipped_rounding_sensitive": stats["rounding_sensitive_continuations_skipped"], "confirmations_incomplete": stats["confirm_incomplete"],
        "family_distribution": fam_count, "api_exceptions_in_scripts": excs,
        "direct_property_violations": stats["violations"],
        "failures_after_a_rejected_history_call_not_reported": stats["failures_after_a_rejected_history_call"],
        "failures_after_a_rejected_history_call_examples": stats["failures_after_a_rejected_history_call_examples"], "timeouts_that_returned_with_10x_budget": stats["slow_cases_not_hanging_with_10x_budget"],
        "crashes_in_io_not_reproducible_when_run_alone": stats["crashes_not_reproducible_alone"],
        "sanitizer_pass": ({"cases": nas, "observations": astats["observations"], "roundtrips_compared": astats["roundtrips"],
                            "roundtrips_bit_identical": astats["roundtrips_equal"], "library_failures_outside_io": astats["library_failures_outside_io"],
                            "examples": astats["library_failure_examples"]} if astats else None),
        "skipped_library_failures_outside_io": stats["library_failures_outside_io"], "skipped_library_failure_examples": stats["library_failure_examples"],
    })
    res.assumptions = [
        "binary images are compared through the model only when the driver could save them; ASCII is covered by the direct checks only",
        "digest categories are hashes of bit patterns: points, loaded, needed, indexes, values, coefficients, quadrature weights, interpolation weights, "
        "evaluate/evaluateBatch/integrate/differentiate, hierarchical basis values and supports, polynomial space, transforms, limits, both file images",
        "calls that throw on the original must throw the same exception type on the restored grid (continuations)",
    ]


def replay(path):
    import json
    rp = json.load(open(path))
    res = vlib.Result(PID, "quick", rp.get("seed", 1), LEVEL)
    run(res, "quick", rp.get("seed", 1), replay_script=rp.get("script"))
    return res.finish()
