"""C01 / C03 / C04 (dag): direct white-box tie of HierarchyManipulations::computeDAGup, its is_complete flag and computeLevels.

GridLocalPolynomial::recomputeSurpluses (3+ dimensions) takes the Kronecker algorithm exactly when computeDAGup<effrule>(points, is_complete)
reports a complete hierarchy, and the matrix-free algorithm over the returned links otherwise.  The models
  coq/Model/LocalGridUp.v  up_dir / parents_up   (per direction the nearest PRESENT ancestor + the step-parent entry of the last `current`),
  coq/Model/LocalGrid.v    parents / parent_complete (direct parents; every existing parent and step-parent of every point is present),
  coq/Model/DagUp.v        is_complete_up (the flag as the code computes it), levels_up
are extracted (coq/Extract/ExtractDagUp.v, ocaml/dagup_main.ml) and compared EXACTLY (integers) with harness/dagdrv.cpp, which calls the three
overloads of computeDAGup and the two of computeLevels on arbitrary point sets: every entry of the parent table (as the multi-index of the
linked point), is_complete against is_complete_up AND against parent_complete (the hypothesis of c01_localpoly_complete_unbounded), the levels.
Point sets: d = 1..4, all five effective rules; downward closures (complete), closures with deleted direct parents, closures that miss ONLY
step-parents (pwc / semilocalp / localpb), holes several levels deep, arbitrary sets.
NOT covered here: the surplus algorithms themselves (props/C01.py, C03, C04), overflow of int.

Stand-alone:  python3 props/c01dag.py quick 1   (exit 0/1, evidence under _build/work/dag/, never evidence/C01.json)."""
import json
import os
import sys
import time

sys.path.insert(0, os.path.join(os.path.dirname(os.path.dirname(os.path.abspath(__file__))), "tools"))
import vlib  # noqa: E402

PID = "C01"
SUB = "C01_dag"
WORK = "dag"
RULES = ["pwc", "localp", "semilocalp", "localp0", "localpb"]
MULTI = ("pwc", "semilocalp", "localpb")

TRUSTED = [
    "extraction: ExtrOcamlBasic only; OCaml glue ocaml/dagup_main.ml; C++ driver harness/dagdrv.cpp (white-box, read-only: "
    "HierarchyManipulations::computeDAGup<effrule>(mset), computeDAGup<effrule>(mset, is_complete), computeDAGup(mset, erule), computeLevels)",
    "the parent table is compared as multi-indexes of the linked points; per direction the entries that are not -1, in order (parent entry, "
    "step-parent entry), against Model.LocalGridUp.up_dir, and the whole strip against parents_up",
    "the generator's own copy of getParent / getStepParent (below) only shapes the inputs; it is not an oracle",
    "NOT modelled: OpenMP scheduling (the flag is an or over threads), overflow of int",
]


# ------------------------------------------------------------------------------------------------ input shaping (not an oracle)
def num_points(rule, level):
    if rule == "pwc":
        return 3 ** level
    if rule in ("localp", "semilocalp"):
        return 1 if level == 0 else (1 << level) + 1
    if rule == "localp0":
        return (1 << (level + 1)) - 1
    return (1 << level) + 1


def int3log3(i):
    r = 1
    while i >= 1:
        i //= 3
        r *= 3
    return r


def get_parent(rule, p):
    if rule == "pwc":
        return -1 if p == 0 else p // 3
    if rule in ("localp", "semilocalp"):
        dad = (p + 1) // 2
        return dad - 1 if p < 4 else dad
    if rule == "localp0":
        return -1 if p == 0 else (p - 1) // 2
    return -1 if p < 2 else (p + 1) // 2


def get_step_parent(rule, p):
    if rule == "pwc":
        i3 = int3log3(p)
        if p == i3 // 3 or p == i3 - 1:
            return -1
        if p % 3 == 2 and p % 2 == 0:
            return p // 3 + 1
        if p % 3 == 0 and p % 2 == 1:
            return p // 3 - 1
        return -1
    if rule == "semilocalp":
        return {3: 2, 4: 1}.get(p, -1)
    if rule == "localpb":
        return 0 if p == 2 else -1
    return -1


def closure(rule, seeds):
    s, stack = set(), [tuple(t) for t in seeds]
    while stack:
        t = stack.pop()
        if t in s:
            continue
        s.add(t)
        for j, v in enumerate(t):
            for q in (get_parent(rule, v), get_step_parent(rule, v)):
                if q >= 0:
                    stack.append(t[:j] + (q,) + t[j + 1:])
    return s


def only_step_parents(rule, s):
    """points of s that are the direct parent of no point of s (in any direction) and the step-parent of at least one"""
    direct, step = set(), set()
    for t in s:
        for j, v in enumerate(t):
            q = get_parent(rule, v)
            if q >= 0:
                direct.add(t[:j] + (q,) + t[j + 1:])
            q = get_step_parent(rule, v)
            if q >= 0:
                step.add(t[:j] + (q,) + t[j + 1:])
    return sorted((step - direct) & s)


def gen_case(r, cid, tier, rule=None, d=None, top=None, cap=None, force_kind=None):
    rule = rule or r.choice(RULES)
    d = d or r.choice([1, 2, 2, 3, 3, 3, 4, 4])
    top = top or ({1: 7, 2: 6, 3: 5, 4: 4}[d] - (1 if rule == "pwc" and d >= 2 else 0))
    cap = cap or (200 if tier == "quick" else 320)

    def point():
        return tuple(r.randrange(num_points(rule, r.randint(0, top))) if r.random() < 0.75 else r.choice([0, 0, 1, 2]) for _ in range(d))
    kind = r.random()
    if rule in MULTI and kind < 0.34:
        kind_name = "step-only"
    elif kind < 0.5:
        kind_name = "complete"
    elif kind < 0.7:
        kind_name = "missing-direct"
    elif kind < 0.88:
        kind_name = "deep-holes"
    else:
        kind_name = "arbitrary"
    kind_name = force_kind or kind_name
    if kind_name == "arbitrary":
        s = set(point() for _ in range(r.randint(1, 25)))
    else:
        s = set()
        for _ in range(r.randint(1, 7)):
            s2 = closure(rule, list(s) + [point()])
            if len(s2) > cap and s:
                break
            s = s2
        if len(s) > 2 * cap:
            s = closure(rule, [tuple(min(v, 4) for v in sorted(s)[len(s) // 2])])
    if kind_name == "step-only":
        # a few rounds: removing a pure step-parent can make further points pure step-parents
        for _ in range(r.randint(1, 3)):
            cand = only_step_parents(rule, s)
            if not cand:
                break
            for q in cand:
                if r.random() < 0.6 and len(s) > 1:
                    s.discard(q)
    elif kind_name == "missing-direct":
        pts = sorted(s)
        for q in r.sample(pts, min(len(pts) - 1, r.randint(1, 3))):
            s.discard(q)
    elif kind_name == "deep-holes":
        keep = r.choice([0.3, 0.5, 0.7, 0.85])
        s2 = set(q for q in sorted(s) if r.random() < keep)
        s = s2 or s
    pts = sorted(s)
    r.shuffle(pts)
    if force_kind:
        return pts, kind_name
    return "dag %s %s %d idx: %s" % (cid, rule, d, " ".join(str(v) for t in pts for v in t)), kind_name


SUR_RULES = [("localp", 1, "localp"), ("localp", 2, "localp"), ("localp", 0, "pwc"), ("semi-localp", 2, "semilocalp"), ("localp-zero", 1, "localp0"),
             ("localp-zero", 2, "localp0"), ("localp-boundary", 1, "localpb"), ("localp-boundary", 2, "localpb"), ("localp-boundary", 3, "localpb")]


def gen_sur(r, cid, tier):
    """a real grid holding exactly the set (3-4 dimensions: recomputeSurpluses chooses the algorithm by is_complete), dyadic values"""
    name, order, eff = r.choice(SUR_RULES + [x for x in SUR_RULES if x[2] in MULTI])
    d = r.choice([3, 3, 3, 4, 2])
    kind = r.choice(["step-only", "step-only", "complete", "missing-direct"]) if eff in MULTI else r.choice(["complete", "missing-direct", "deep-holes"])
    pts, _ = gen_case(r, cid, tier, rule=eff, d=d, top=3 if d <= 3 else 2, cap=30, force_kind=kind)
    pts = pts[:60]          # any set is a valid input (a truncated one simply has holes)
    vals = [r.randint(-16, 16) / 8.0 for _ in pts]
    return "sur %s %s %d %d idx: %s vals: %s" % (cid, name, order, d, " ".join(str(v) for t in pts for v in t), " ".join(repr(v) for v in vals))


def fixed_sur():
    # the sets of the seeded history C03-10: only the step-parent (.,.,0) of (.,.,2) is missing, in the LAST direction
    return ["sur u0 localp-boundary 1 3 idx: 0 0 1 0 0 2 1 0 1 1 0 2 0 1 1 0 1 2 1 1 1 1 1 2 vals: 1 0.5 -1 2 0.25 1.5 -0.75 1",
            "sur u1 localp-boundary 2 3 idx: 0 0 1 0 0 2 1 0 1 1 0 2 0 1 1 0 1 2 1 1 1 1 1 2 0 0 3 vals: 1 0.5 -1 2 0.25 1.5 -0.75 1 0.5",
            "sur u2 localp-boundary 1 3 idx: 0 0 0 0 0 1 0 0 2 1 0 0 1 0 1 1 0 2 vals: 1 0.5 -1 2 0.25 1.5",
            "sur u3 semi-localp 2 3 idx: 0 0 0 0 0 2 0 0 4 0 1 0 vals: 1 0.5 -1 2"]


def fixed_cases():
    return [
        # the smallest sets that miss only a step-parent
        "dag f0 localpb 1 idx: 1 2",
        "dag f1 localpb 3 idx: 1 0 0 2 0 0",
        "dag f2 localpb 3 idx: 0 0 1 0 0 2",
        "dag f3 semilocalp 1 idx: 0 1 3",
        "dag f4 semilocalp 2 idx: 0 0 0 2 0 4",
        "dag f5 pwc 1 idx: 0 1 5 17",
        "dag f6 pwc 2 idx: 0 0 0 2 0 8",
        # complete sets
        "dag f7 localpb 3 idx: 0 0 0 1 0 0 2 0 0 0 0 1 1 0 1 2 0 1",
        "dag f8 localp 2 idx: 0 0 1 0 2 0 3 0 0 1 0 2",
        "dag f9 localp0 2 idx: 0 0 1 0 2 0 3 0 0 1 0 2",
        # holes over several levels
        "dag f10 localp 2 idx: 0 0 15 0 0 9",
        "dag f11 localp0 1 idx: 0 15 31",
        "dag f12 semilocalp 1 idx: 1 9 17",
        "dag f13 pwc 1 idx: 2 26 80",
        "dag f14 localpb 2 idx: 0 0 9 0 17 3",
        # a single point, points on level zero only
        "dag f15 localpb 2 idx: 0 0 0 1 1 0 1 1",
        "dag f16 localp 4 idx: 0 0 0 0",
        "dag f17 localpb 1 idx: 2",
    ]


KEY_TEXT = {
    "dagup-differs": "the parent table of computeDAGup is not the nearest present ancestor (+ step-parent of the last step) per direction",
    "is-complete-differs": "is_complete of computeDAGup is not `no direct parent and no step-parent lookup failed`",
    "is-complete-vs-parent-complete": "is_complete of computeDAGup differs from `every existing parent and step-parent of every point is present`",
    "levels-differ": "computeLevels is not the sum of the one-dimensional levels",
}


def run(res, tier, seed, replay_cases=None):
    t0 = time.time()
    cov = {}
    res.coverage["dag_up"] = cov
    ok_ext, elog = vlib.coq_make(["Extract/ExtractDagUp.vo"])
    runner = None
    if ok_ext:
        try:
            runner = vlib.ocaml_runner("dagup")
        except vlib.BuildError as e:
            ok_ext, elog = False, str(e)
    drv, derr = vlib.try_build_driver("dagdrv")
    wd = os.path.join(vlib.BUILD, "work", WORK)
    os.makedirs(wd, exist_ok=True)
    r = vlib.rng(seed, SUB)
    nv0 = len(res.violations)
    kinds = {}
    if replay_cases:
        lines = [l for l in replay_cases if l.startswith("dag ")]
    else:
        lines = []
        cdir = os.path.join(vlib.ROOT, "corpus", "C01")
        for f in sorted(os.listdir(cdir)) if os.path.isdir(cdir) else []:
            try:
                w = json.load(open(os.path.join(cdir, f)))
            except (OSError, ValueError):
                continue
            if isinstance(w, dict) and w.get("driver") == "dagdrv":
                lines += [l for l in w.get("cases", []) if l.startswith("dag ")]
        lines += fixed_cases()
        for i in range({"quick": 400, "thorough": 5000}[tier]):
            line, kn = gen_case(r, "g%d" % i, tier)
            kinds[kn] = kinds.get(kn, 0) + 1
            lines.append(line)
    by_id = {l.split()[1]: l for l in lines}
    cf = os.path.join(wd, "cases.txt")
    with open(cf, "w") as fh:
        fh.write("\n".join(lines) + "\n")
    stats = {"ok": 0, "skipped": 0, "noout": 0, "complete": 0, "incomplete": 0, "holes": 0, "links": 0, "points": 0, "nontrivial": 0,
             "by_rule": {}, "by_dim": {}, "complete_by_rule": {}}
    mism, agree = [], 0
    if drv is None:
        res.violation("correspondence-dag", "white-box driver dagdrv no longer compiles/links against the source: " + (derr or "")[-600:],
                      {"kind": "correspondence-break", "correspondence": "dagdrv (HierarchyManipulations::computeDAGup / computeLevels)"}, no_input=True)
    else:
        rc, so, se = vlib.run([drv, cf], timeout=300 if tier == "quick" else 1800)
        of = os.path.join(wd, "cases.out")
        with open(of, "w") as fh:
            fh.write(so)
        if rc != 0:
            done = [l.split()[1] for l in so.split("\n") if l.startswith(("r ", "x "))]
            nxt = lines[len(done)] if len(done) < len(lines) else ""
            res.violation("dagdrv-crash", "dagdrv exited with %d (%s) at case: %s" % (rc, se[-300:].strip(), nxt),
                          {"kind": "impl-counterexample", "driver": "dagdrv", "cases": [nxt] if nxt else lines[-5:]})
        if runner:
            rc2, mo, me = vlib.run([runner, cf, of], timeout=600 if tier == "quick" else 3000)
            with open(os.path.join(wd, "runner.out"), "w") as fh:
                fh.write(mo)
            for line in mo.split("\n"):
                t = line.split()
                if line.startswith("MISMATCH"):
                    mism.append(line)
                elif line.startswith("agree"):
                    agree += int(t[1])
                elif line.startswith("skip"):
                    stats["skipped"] += 1
                elif line.startswith("noout"):
                    stats["noout"] += 1
                elif line.startswith("ok "):
                    stats["ok"] += 1
                    kv = dict(x.split("=") for x in t[2:])
                    c = by_id.get(t[1], "").split()
                    stats["complete" if kv["complete"] == "1" else "incomplete"] += 1
                    stats["holes"] += int(kv["holes"])
                    stats["links"] += int(kv["links"])
                    stats["points"] += int(kv["n"])
                    if int(kv["n"]) > 2 and int(kv["links"]) > 0:
                        stats["nontrivial"] += 1
                    if c:
                        stats["by_rule"][c[2]] = stats["by_rule"].get(c[2], 0) + 1
                        stats["by_dim"][c[3]] = stats["by_dim"].get(c[3], 0) + 1
                        if kv["complete"] == "1":
                            stats["complete_by_rule"][c[2]] = stats["complete_by_rule"].get(c[2], 0) + 1
            if rc2 != 0:
                mism.append("MISMATCH - runner-failed " + me[-300:])
            if rc == 0 and stats["noout"]:
                mism.append("MISMATCH - driver-produced-no-result-line-for %d cases" % stats["noout"])
            if stats["skipped"]:
                mism.append("MISMATCH - driver-reported-exceptions-for %d cases" % stats["skipped"])
    # one violation per (key, rule): the smallest failing set
    best = {}
    for mline in mism:
        t = mline.split()
        cid = t[1] if len(t) > 1 else "-"
        case = by_id.get(cid, "")
        key = t[2] if len(t) > 2 and t[2] in KEY_TEXT else "correspondence-dag"
        rule = case.split()[2] if case else "-"
        k = (key, rule if key != "correspondence-dag" else "-")
        if k not in best or (case and len(case.split()) < len(best[k][1].split())):
            best[k] = (mline, case)
    for (key, rule), (mline, case) in sorted(best.items()):
        if key == "correspondence-dag":
            res.violation(key, "the model of computeDAGup could not be compared: " + mline[:300],
                          {"kind": "correspondence-break", "correspondence": "LocalGridUp / DagUp model vs dagdrv", "examples": mism[:5], "cases": [case]},
                          no_input=True)
        else:
            res.violation("%s:%s" % (key, rule), "%s: %s [%s]" % (KEY_TEXT[key], " ".join(mline.split()[3:])[:700], case),
                          {"kind": "impl-counterexample", "driver": "dagdrv", "cases": [case], "detail": mline[:4000]})
    sur = run_sur(res, tier, r, drv, wd, replay_cases)
    if not ok_ext and len(res.violations) == nv0:
        res.violation("extraction-dag", "extraction / build of the computeDAGup model failed", {"kind": "proof-break", "log": elog[-2000:]}, no_input=True)
    cov.update({
        "trusted_base": TRUSTED, "cases": len(lines), "cases_agree": stats["ok"], "comparisons_agree_exactly": agree, "disagreements": len(mism),
        "skipped": stats["skipped"], "cases_without_output": stats["noout"], "complete_sets": stats["complete"], "incomplete_sets": stats["incomplete"],
        "sets_where_links_skip_levels": stats["holes"], "links_compared": stats["links"], "points": stats["points"], "by_rule": stats["by_rule"],
        "by_dimension": stats["by_dim"], "complete_by_rule": stats["complete_by_rule"], "generated_kinds": kinds,
        "distinct_nontrivial": stats["nontrivial"], "wall_s": round(time.time() - t0, 1),
        "rule": "five effective rules, d = 1..4; closure under parent and step-parent of 1-5 random points (levels up to 6/5/4/3 by dimension); "
                "kinds: complete / 1-3 points deleted (missing direct parents) / pure step-parents deleted (two-parent rules: only step-parents "
                "are missing) / every point kept with probability 0.3-0.85 (holes over several levels) / arbitrary sets; plus fixed cases; "
                "non-trivial = more than two points and at least one link",
        "sample": lines[len(lines) // 2] if lines else "",
        "surpluses_of_grids_holding_the_set": sur,
    })
    return cov


def run_sur(res, tier, r, drv, wd, replay_cases):
    """grids holding exactly a given set (white-box: needed := set, loadNeededValues -> recomputeSurpluses, which picks the Kronecker or the
    matrix-free algorithm by is_complete): the surpluses against the exact rational surpluses of Model.LocalGridUp.surpluses_up (corefast)"""
    out = {"cases": 0, "agree": 0, "complete": 0, "incomplete": 0, "max_coeferr": 0.0, "skipped": 0}
    if drv is None:
        return out
    if replay_cases:
        lines = [l for l in replay_cases if l.startswith("sur ")]
    else:
        lines = fixed_sur() + [gen_sur(r, "v%d" % i, tier) for i in range({"quick": 60, "thorough": 600}[tier])]
    if not lines:
        return out
    ok_ext, elog = vlib.coq_make(["Extract/ExtractCoreFast.vo"])
    try:
        runner = vlib.ocaml_runner("corefast") if ok_ext else None
    except vlib.BuildError as e:
        runner, elog = None, str(e)
    if runner is None:
        res.violation("extraction-dag", "extraction / build of the corefast runner failed", {"kind": "proof-break", "log": elog[-2000:]}, no_input=True)
        return out
    by_id = {l.split()[1]: l for l in lines}
    cf = os.path.join(wd, "sur.txt")
    with open(cf, "w") as fh:
        fh.write("\n".join(lines) + "\n")
    rc, so, se = vlib.run([drv, cf], timeout=300 if tier == "quick" else 1800)
    if rc != 0:
        done = [l.split()[1] for l in so.split("\n") if l.startswith(("s ", "x "))]
        nxt = lines[len(done)] if len(done) < len(lines) else ""
        res.violation("dagdrv-crash", "dagdrv exited with %d (%s) at case: %s" % (rc, se[-300:].strip(), nxt),
                      {"kind": "impl-counterexample", "driver": "dagdrv", "cases": [nxt] if nxt else lines[-5:]})
    comp = {}
    for l in so.split("\n"):
        t = l.split()
        if l.startswith("s "):
            comp[t[1]] = t[2] == "complete=1"
        elif l.startswith("x "):
            out["skipped"] += 1
    lg = os.path.join(wd, "sur.lg")
    with open(lg, "w") as fh:
        fh.write("\n".join(l for l in so.split("\n") if l.startswith("lg ")) + "\n")
    rc2, mo, me = vlib.run([runner, lg], timeout=600 if tier == "quick" else 3000)
    worst = {}
    for l in mo.split("\n"):
        t = l.split()
        if l.startswith("lg ") and len(t) > 3:
            kv = dict(x.split("=") for x in t[2:])
            ce = float.fromhex(kv["coeferr"])
            out["cases"] += 1
            out["complete" if comp.get(t[1]) else "incomplete"] += 1
            out["max_coeferr"] = max(out["max_coeferr"], ce)
            if ce <= 1e-9:
                out["agree"] += 1
            else:
                case = by_id.get(t[1], "")
                rule = case.split()[2] if case else "-"
                if rule not in worst or len(case) < len(worst[rule][1]):
                    worst[rule] = (ce, case, comp.get(t[1]))
        elif l.startswith("MISMATCH"):
            out["skipped"] += 1
    if rc2 != 0 or out["cases"] + out["skipped"] < len(lines):
        res.violation("correspondence-dag", "corefast runner failed or produced no result for some grids (%d of %d): %s" % (out["cases"], len(lines), me[-300:]),
                      {"kind": "correspondence-break", "correspondence": "surpluses_up vs dagdrv sur"}, no_input=True)
    for rule, (ce, case, c) in sorted(worst.items()):
        res.violation("surpluses-differ-on-set:%s" % rule,
                      "the surpluses of a grid holding exactly the given set differ from the exact hierarchical surpluses over the links of computeDAGup "
                      "(relative error %.3g, is_complete=%s) [%s]" % (ce, c, case[:600]),
                      {"kind": "impl-counterexample", "driver": "dagdrv", "cases": [case]})
    return out


def replay(path):
    rp = json.load(open(path))
    res = vlib.Result(PID, "quick", rp.get("seed", 1), "proof")
    run(res, "quick", rp.get("seed", 1), replay_cases=rp.get("cases"))
    return finish_standalone(res)


def finish_standalone(res):
    """print the outcome like Result.finish() but write the evidence under _build/work/dag/ (never evidence/C01.json)"""
    wd = os.path.join(vlib.BUILD, "work", WORK)
    os.makedirs(wd, exist_ok=True)
    cov = res.coverage.get("dag_up", {})
    with open(os.path.join(wd, "evidence-standalone.json"), "w") as fh:
        json.dump({"property_id": PID, "part": "dag_up", "tier": res.tier, "seed": res.seed, "coverage": cov,
                   "violations": len(res.violations), "known": [k for k, _ in res.known_hit]}, fh, indent=1, default=str)
    for key, text in res.known_hit:
        print("KNOWN-FINDING: property=%s key=%s %s" % (PID, key, text))
    seen = set()
    for v in res.violations:
        if v["key"] in seen:
            continue
        seen.add(v["key"])
        print("DETAIL property=%s key=%s %s" % (PID, v["key"], v["what"][:900].replace("\n", " ")))
        print("VIOLATION property=%s replay=%s%s" % (PID, v["replay"], " no-failing-input-found" if v["no_input"] else ""))
    short = {k: cov.get(k) for k in ("cases", "cases_agree", "comparisons_agree_exactly", "disagreements", "skipped", "complete_sets", "incomplete_sets",
                                      "sets_where_links_skip_levels", "links_compared", "points", "by_rule", "by_dimension", "complete_by_rule",
                                      "generated_kinds", "distinct_nontrivial", "surpluses_of_grids_holding_the_set", "wall_s")}
    print("SUMMARY " + json.dumps(short, default=str))
    sys.stdout.flush()
    return 1 if res.violations else 0


def main():
    if len(sys.argv) >= 3 and sys.argv[1] == "--replay":
        return replay(sys.argv[2])
    tier = sys.argv[1] if len(sys.argv) > 1 and sys.argv[1] in ("quick", "thorough") else "quick"
    seed = int(sys.argv[2]) if len(sys.argv) > 2 else int(os.environ.get("VERIF_SEED", "1") or 1)
    res = vlib.Result(PID, tier, seed, "proof")
    try:
        run(res, tier, seed)
    except vlib.BuildError as e:
        res.violation("build", "build failed: " + str(e)[:1500], {"kind": "build-failure", "detail": str(e)}, no_input=True)
    return finish_standalone(res)


if __name__ == "__main__":
    sys.exit(main())
